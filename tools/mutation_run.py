#!/usr/bin/env python3
"""mutation_run.py <out.tsv> [--props C01,C02] [--per N] [--offset K] [--phase checks|recheck|tests]

Development tool (not a registered check): measures which first-order syntactic mutants of the code each
property is anchored in are reported by that property's quick check. For every selected mutant (bin/vmutate;
an evenly spaced selection of N per property, shifted by K) in a scratch worktree of /repo's HEAD:
  compile -> the property's quick checks (VERIF_REPO / VERIF_OUT isolation) -> if no check reports it:
  the package's tests, then the whole suite.   Status per mutant:
    nocompile | killed:<check> | tests-pkg | tests-suite | SURVIVOR (passes the suite and the checks)
SURVIVORs are either equivalent mutants or gaps in the checks; they are triaged by hand (DESIGN.md 9.5).
--phase checks stops after the property's checks (status NOT-KILLED-BY-CHECK); --phase tests re-reads the
file and runs the package tests / the suite only for those entries, rewriting their status.
"""
import json, os, subprocess, sys, tempfile, shutil

TARGETS = {
 'C01': (['C01'], [('window/tumbling_window.go', 'Add,checkAndTriggerWindows,extractWindowDataLocked,Trigger,createSlot,createSlotFromStart,NextSlot'),
                   ('window/watermark.go', 'alignWindowStart'), ('types/timeslot.go', 'Contains'),
                   ('stream/processor_data.go', 'processWindowBatch,stampWindowID')]),
 'C02': (['C02'], [('window/watermark.go', 'update,sendWatermarkLocked,UpdateEventTime,IsEventTimeLate,checkIdle,advanceIdle'),
                   ('window/tumbling_window.go', 'handleLateData,extractLateUpdateDataLocked,closeExpiredWindows,stillOpenForLateData'),
                   ('window/sliding_window.go', 'triggerLateUpdateLocked,closeExpiredWindows,handleLateData,stillOpenForLateData'),
                   ('window/session_window.go', 'handleLateData,closeExpiredSessions'),
                   ('window/factory.go', 'extractTimestamp')]),
 'C03': (['C03'], [('functions/functions_aggregation.go', ''), ('aggregator/group_aggregator.go', 'Add,Reset,GetResults')]),
 'C04': (['C04'], [('aggregator/group_aggregator.go', 'Add,encodeGroupValue,escapeGroupValue'), ('window/counting_window.go', 'getKey'),
                   ('window/session_window.go', 'extractSessionCompositeKey'), ('window/global_window.go', 'getKeyAndValues'),
                   ('stream/processor_field.go', 'injectGroupKeyExprs,projectGroupColumns,groupFieldOutputName')]),
 'C05': (['C05'], [('stream/stream.go', 'enrichData,applyWhereAndAnalytic,projectDirectRow,processDirectDataSync'),
                   ('stream/processor_data.go', 'processDirectData'), ('stream/processor_field.go', 'processSimpleField,processSelectAll'),
                   ('utils/fieldpath/fieldpath.go', 'GetNestedField,getNestedFieldSimple,GetNestedFieldWithAccessors'),
                   ('stream/handler_result.go', 'callSinksAsync,sendResultNonBlocking')]),
 'C06': (['C06'], [('expr/evaluator.go', 'evaluateNodeValue,evaluateNodeWithNull,compareValues,evaluateFunctionValue'),
                   ('expr/case_expression.go', ''), ('rsql/parser.go', 'parseWhere,closeLoweredNots,isLogicalNotPosition'),
                   ('stream/stream.go', 'preprocessFilterCondition'), ('functions/expr_bridge.go', 'EvaluateExpression')]),
 'C07': (['C07'], [('rsql/ast.go', 'ParseAggregateTypeWithExpression,isComplexAggregationExpression,parseComplexAggExpressionInternal,extractHavingAggregates'),
                   ('aggregator/post_aggregation.go', 'GetResults,evaluateExpression'),
                   ('stream/processor_data.go', 'applyHavingFilter,applyHavingWithCondition,processAggregationResults,applyDistinct'),
                   ('stream/sorter.go', '')]),
 'C08': (['C08'], [('window/sliding_window.go', 'Add,NextSlot,createSlot,createSlotFromStart,checkAndTriggerWindows,extractWindowDataLocked,Trigger')]),
 'C09': (['C09'], [('window/counting_window.go', 'Add,Start,getKey,reapIdleKeys,Trigger')]),
 'C10': (['C10'], [('window/session_window.go', 'Add,checkAndTriggerSessions,checkExpiredSessions,collectExpiredSessions,handleLateData,Trigger')]),
 'C11': (['C11'], [('rsql/parser.go', 'parseSelect,parseGroupBy,parseWith,parseOrderBy,parseLimit,parseHaving,parseJoin,parseFrom,Parse'),
                   ('rsql/lexer.go', '')]),
 'C12': (['C12'], [('condition/condition.go', 'tryFastCompare,tryFastCompound,compareNum,compareStr,toFloat64Fast,Evaluate,fastOperand,splitFlat')]),
 'C13': (['C13'], [('condition/condition.go', 'matchesLikePattern,isNilValue'), ('expr/evaluator.go', 'matchLikePattern,evaluateIsOperator'),
                   ('functions/expr_bridge.go', 'PreprocessLikeExpression,convertLikeToFunction,PreprocessIsNullExpression,matchesLikePattern,likeMatch')]),
 'C14': (['C14'], [('stream/analytic.go', ''), ('functions/analytic_acc.go', ''), ('functions/analytic_state.go', ''),
                   ('functions/functions_analytical.go', '')]),
 'C15': (['C15'], [('cep/engine.go', ''), ('cep/pattern.go', '')]),
 'C16': (['C16'], [('stream/table_store.go', ''), ('stream/join.go', '')]),
 'C17': (['C17'], [('window/global_window.go', 'buildTrigger,findAggCalls,findOutputSpec,processRow,shouldFire,buildResult,Add')]),
 'C18': (['C18'], [('stream/stream.go', 'Stop,waitLifecycle,Start,EmitSync,AddSink,AddSyncSink,invokeSinksInline'),
                   ('stream/handler_result.go', ''), ('stream/processor_data.go', 'processItem,Process')]),
 'C19': (['C19'], [('stream/handler_data.go', ''), ('stream/strategy.go', '')]),
 'C20': (['C20'], [('stream/stream.go', 'evalAnalytic,enrichData,injectsIntoRow'), ('stream/join.go', 'enrichJoin'),
                   ('functions/expr_bridge.go', 'CompileExpressionWithStreamSQLFunctions,EvaluateExpression'),
                   ('stream/processor_field.go', 'injectGroupKeyExprs')]),
}
# checks that share anchored code with a property (a mutant in shared code counts as reported if any of them reports it)
RELATED = {'C01': ['C02'], 'C02': ['C01', 'C08', 'C10'], 'C08': ['C02'], 'C10': ['C02'], 'C04': ['C09'], 'C09': ['C04'], 'C03': ['C07'], 'C07': ['C03'],
           'C05': ['C13', 'C06'], 'C13': ['C05'], 'C06': ['C12', 'C13'], 'C12': ['C06'], 'C18': ['C19'], 'C19': ['C18'], 'C20': ['C14', 'C05'], 'C14': ['C20'],
           'C11': ['C07', 'C06'], 'C15': [], 'C16': [], 'C17': []}
ENV = dict(os.environ, GOFLAGS='-mod=mod', GOPROXY='off', GOSUMDB='off', GOTOOLCHAIN='local')

def sh(cmd, cwd=None, timeout=1800, env=None):
    try:
        p = subprocess.run(cmd, shell=True, cwd=cwd, env=env or ENV, capture_output=True, text=True, timeout=timeout)
        return p.returncode, p.stdout + p.stderr
    except subprocess.TimeoutExpired:
        return 124, 'TIMEOUT'

def main():
    out = sys.argv[1]
    props = sorted(TARGETS)
    per, offset, phase = 12, 0, 'both'
    a = sys.argv[2:]
    while a:
        if a[0] == '--props': props = a[1].split(','); a = a[2:]
        elif a[0] == '--per': per = int(a[1]); a = a[2:]
        elif a[0] == '--offset': offset = int(a[1]); a = a[2:]
        elif a[0] == '--phase': phase = a[1]; a = a[2:]
        else: raise SystemExit('bad arg ' + a[0])
    mx = tempfile.mkdtemp(prefix='verif-mut.', dir='/tmp')
    wt = mx + '/wt'
    rc, o = sh(f'git -C /repo worktree add -q --detach {wt} HEAD')
    if rc: raise SystemExit(o)
    done = set()
    pending = []
    if os.path.exists(out):
        for l in open(out):
            f = l.rstrip('\n').split('\t')
            if len(f) > 5 and f[5] == 'NOT-KILLED-BY-CHECK' and phase == 'tests':
                pending.append(f)
            elif len(f) > 5 and f[5].startswith('killed-by-related') and phase == 'tests':
                pending = [x for x in pending if x[:3] != f[:3]]
            elif len(f) > 4: done.add((f[0], f[1], f[2]))
    if phase == 'recheck':
        # NOT-KILLED-BY-CHECK entries are run against the related checks
        todo = []
        for l in open(out):
            f = l.rstrip('\n').split('\t')
            if len(f) > 5 and f[5] == 'NOT-KILLED-BY-CHECK': todo.append(f)
            if len(f) > 5 and f[5] == 'SURVIVOR' and os.environ.get('RECHECK_SURVIVORS'): todo.append(f)
        try:
            with open(out, 'a') as log:
                for f in todo:
                    prop, file, n, line, desc = f[:5]
                    funcs = dict(TARGETS[prop][1])[file]
                    sh(f'git -C {wt} checkout -q -- . ; git -C {wt} clean -fdq')
                    sh(f'/verif/bin/vmutate -file {wt}/{file} -funcs "{funcs}" -apply {n} -out {wt}/{file}')
                    own = [prop] if os.environ.get('RECHECK_SURVIVORS') else []
                    for c in own + RELATED.get(prop, []):
                        env = dict(ENV, VERIF_REPO=wt, VERIF_OUT=mx + '/out')
                        rc, o = sh(f'/verif/bin/check {c} quick', env=env, timeout=1500)
                        if rc == 1 and 'VIOLATION' in o:
                            sig = [x for x in o.splitlines() if 'signature:' in x]
                            log.write('\t'.join([prop, file, n, line, desc, 'killed-by-related:' + c, sig[0].strip()[:160] if sig else '', 'recheck']) + '\n'); log.flush()
                            break
        finally:
            sh(f'git -C /repo worktree remove --force {wt}')
            shutil.rmtree(mx, ignore_errors=True)
        return
    if phase == 'tests':
        try:
            with open(out, 'a') as log:
                for f in pending:
                    prop, file, n, line, desc = f[:5]
                    funcs = dict(TARGETS[prop][1])[file]
                    sh(f'git -C {wt} checkout -q -- . ; git -C {wt} clean -fdq')
                    sh(f'/verif/bin/vmutate -file {wt}/{file} -funcs "{funcs}" -apply {n} -out {wt}/{file}')
                    pkg = './' + os.path.dirname(file)
                    rc, o = sh(f'go test -vet=off -count=1 {pkg}', cwd=wt, timeout=900)
                    detail = ''
                    if rc != 0: status = 'tests-pkg'
                    else:
                        rc, o = sh('go test -vet=off -count=1 ./...', cwd=wt, timeout=1500)
                        if rc != 0:
                            status = 'tests-suite'
                            detail = ' '.join(x for x in o.splitlines() if x.startswith('--- FAIL'))[:160]
                        else: status = 'SURVIVOR'
                    log.write('\t'.join([prop, file, n, line, desc, status, detail, 'phase2']) + '\n'); log.flush()
        finally:
            sh(f'git -C /repo worktree remove --force {wt}')
            shutil.rmtree(mx, ignore_errors=True)
        return
    try:
        with open(out, 'a') as log:
            for prop in props:
                checks, targets = TARGETS[prop]
                allm = []
                for file, funcs in targets:
                    rc, o = sh(f'/verif/bin/vmutate -file {wt}/{file} -funcs "{funcs}" -list')
                    for l in o.splitlines():
                        n, line, desc = l.split('\t', 2)
                        allm.append((file, funcs, int(n), int(line), desc))
                if not allm: continue
                step = max(1, len(allm) // per)
                sel = allm[offset % step::step][:per] if per < len(allm) else allm
                for file, funcs, n, line, desc in sel:
                    key = (prop, file, str(n))
                    if key in done: continue
                    sh(f'git -C {wt} checkout -q -- . ; git -C {wt} clean -fdq')
                    sh(f'/verif/bin/vmutate -file {wt}/{file} -funcs "{funcs}" -apply {n} -out {wt}/{file}')
                    pkg = './' + os.path.dirname(file)
                    rc, o = sh(f'go build ./...', cwd=wt)
                    status, detail = None, ''
                    if rc != 0:
                        status = 'nocompile'
                    else:
                        for c in checks:
                            env = dict(ENV, VERIF_REPO=wt, VERIF_OUT=mx + '/out')
                            rc, o = sh(f'/verif/bin/check {c} quick', env=env, timeout=1500)
                            if rc == 1 and 'VIOLATION' in o:
                                sig = [x for x in o.splitlines() if 'signature:' in x]
                                status, detail = 'killed:' + c, (sig[0].strip()[:160] if sig else '')
                                break
                            if rc not in (0, 1):
                                status, detail = 'check-error:' + c, o[-200:].replace('\n', ' ')
                                break
                        if status is None and phase == 'checks':
                            status = 'NOT-KILLED-BY-CHECK'
                        if status is None:
                            rc, o = sh(f'go test -vet=off -count=1 {pkg}', cwd=wt, timeout=900)
                            if rc != 0: status = 'tests-pkg'
                            else:
                                rc, o = sh('go test -vet=off -count=1 ./...', cwd=wt, timeout=1500)
                                if rc != 0:
                                    status = 'tests-suite'
                                    detail = ' '.join(x for x in o.splitlines() if x.startswith('--- FAIL'))[:160]
                                else: status = 'SURVIVOR'
                    log.write('\t'.join([prop, file, str(n), str(line), desc, status, detail]) + '\n'); log.flush()
    finally:
        sh(f'git -C /repo worktree remove --force {wt}')
        shutil.rmtree(mx, ignore_errors=True)

if __name__ == '__main__':
    main()
