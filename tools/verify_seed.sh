#!/bin/bash
# verify_seed.sh <Cxx>: confirms a sub-agent's seeded change in ITS scratch worktree (never in /repo):
# suite passes with the change, the demonstration fails with it and passes without it.
id=$1; root=${SEEDROOT:-/tmp/seed}; wt=$root/wt-$id; out=$root/out-$id
export GOFLAGS=-mod=mod GOPROXY=off GOSUMDB=off GOTOOLCHAIN=local
cd "$wt" || exit 3
demo_path=$(python3 -c "import json;print(json.load(open('$out/meta.json')).get('demo_path','').split()[0])")
demo_cmd=$(python3 -c "import json;print(json.load(open('$out/meta.json')).get('demo_cmd',''))")
demo_cmd=${demo_cmd//<repo>/$wt}; demo_cmd=${demo_cmd//\/repo/$wt}
echo "demo_path=$demo_path demo_cmd=$demo_cmd"
# start from a clean tree, apply the patch, place the demo
git checkout -q -- . ; git clean -fdq
git apply "$out/patch.diff" || { echo "PATCH DOES NOT APPLY"; exit 1; }
cp "$out/demo_test.go" "$wt/$demo_path" 2>/dev/null || cp "$out/"*demo*.go "$wt/$demo_path"
go build ./... || { echo "BUILD FAILS"; exit 1; }
(eval "$demo_cmd") > "$out/demo_with.log" 2>&1; with_rc=$?
mv "$wt/$demo_path" $root/demo-$id.go
go test -vet=off -count=1 ./... > "$out/suite_with.log" 2>&1; suite_rc=$?
mv $root/demo-$id.go "$wt/$demo_path"
git apply -R "$out/patch.diff"
(eval "$demo_cmd") > "$out/demo_without.log" 2>&1; without_rc=$?
git apply "$out/patch.diff"
echo "RESULT $id suite_rc=$suite_rc demo_with_rc=$with_rc demo_without_rc=$without_rc"
grep -E "^(--- FAIL|FAIL)" "$out/suite_with.log" | head -5
