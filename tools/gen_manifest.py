#!/usr/bin/env python3
"""Regenerates /verif/MANIFEST.json from the table below (claimed checks) and properties.jsonl."""
import json, os
V = os.path.dirname(os.path.dirname(os.path.abspath(__file__)))
props = [json.loads(l) for l in open(os.path.join(V, 'properties.jsonl'))]

SCHED_NOTE = ("trusted base: the cooperative scheduler and shims in /verif/rt (unit-tested against the real primitives), the AST instrumenter "
              "cmd/vinstr, Go's runtime; scheduling points only at sync/atomic/channel/timer operations (plain data races are outside, see the -race pass); "
              "virtual clock instead of wall time; bounds as stated in the evidence file")
SEQ_NOTE = ("trusted base: the Go reference model in /verif/harness/ref (written from the property text and the docs, not from the implementation), "
            "the deterministic executor of /verif/rt (default schedule, virtual clock); values/lengths outside the stated alphabets and bounds are not covered")

CHECKS = {
 # id: (category, text, design_ref, note, technique)
 'C19': ('model_checking',
         'every schedule (<= k preemptions/early timer firings, all select-case and blocking-switch choices) of P producers x 2 rows against the real Stream under drop/block/expand with buffers 1..2 (also with a pre-filled buffer, other growth parameters, the processor parked in the sink while the producers expand and migrate, and rows without any column) is executed on the real code and checked at quiescence: processed + input_dropped == emits, no duplicate, block never drops, cap <= ceiling, per-producer order',
         'DESIGN.md 3/C19', SCHED_NOTE,
         'stateless DFS over schedules of the instrumented implementation, deviation-bounded, happens-before state caching'),
}

DET = 'bounded-exhaustive enumeration of inputs on the instrumented implementation (deterministic schedule, virtual clock) against a Go reference model'
CHECKS.update({
 'C01': ('model_checking', 'all arrival sequences (length<=4/5 over 10 boundary timestamps) x sizes x MAXOUTOFORDERNESS x feed policy x keys (also sizes not dividing a day, TIMEUNIT ss/ns, a 36 h jump of event time in mid-stream, present-day float64 timestamps on a 100 ms grid, strategy block with a lagging consumer, bursts of 160/320 in-order events, ALLOWEDLATENESS on on-time sequences, streams that stop without a sentinel) through the real engine against ref.Tumbling; processing-time scripts on the window object, also with a consumer that stalls the trigger side for 4.5 windows, plus all schedules (<=2/3 deviations) of ingest vs trigger/watermark goroutines on the window object for fixed sequences', 'DESIGN.md 3/C01', SEQ_NOTE + '; ' + SCHED_NOTE, DET + ' + stateless schedule DFS on the window object'),
 'C02': ('model_checking', 'all event scripts (length<=4/5 over on-time/late/too-late timestamps and garbage rows) x 3 event-time window kinds (session also with a second key that only pushes the watermark) x MAXOUTOFORDERNESS x ALLOWEDLATENESS on the real engine under the eager schedule, IDLETIMEOUT scripts (no early firing; an event behind the idle-advanced watermark changes no result), and schedule exploration of the window objects; monitors for early firing, on-time loss, late-update contents/window_id, too-late and garbage rows (with/without differential)', 'DESIGN.md 3/C02', SEQ_NOTE, DET + ' and per-delivery monitors'),
 'C03': ('model_checking', 'all value sequences (length<=4/6 over numbers, NULL, missing) for every listed aggregate, percentile/nth_value, expression arguments (also behind parameterised aggregates in one list), all ordered batch pairs, forward/reverse shared-instance histories, two interleaved groups in one batch for every aggregate; type-independent aggregates over a text column; compared with ref.Agg', 'DESIGN.md 3/C03', SEQ_NOTE, DET),
 'C04': ('model_checking', '18 key-tuple alphabets plus a pairwise collision search over separator/escape/marker characters (2 and 3 columns) (separator-like strings, NULL marker text, empty string, NULL, missing, numbers, upper(k); 0..3 columns) x 4 window kinds x all row sequences of length<=4/5, multi-argument function keys, mixed-case column names, TriggerWindow() with several groups open, grouping columns from a joined table or below the stream alias (2-4 path segments) with their output names, the window written first with LIMIT directly after the last column, batches next to one whose aggregate argument panics; delivered (group,ids) multiset must equal the typed-tuple reference grouping', 'DESIGN.md 3/C04', SEQ_NOTE, DET),
 'C08': ('model_checking', 'as C01 for sliding windows: 5 size/slide pairs (dividing, not dividing, equal, slide>size) x MAXOUTOFORDERNESS x feed policy (also a 36 h jump of event time, strategy block with a lagging consumer, bursts of 160/320 in-order events, ALLOWEDLATENESS on on-time sequences, streams that stop without a sentinel, sizes that are no multiple of the slide) against ref.Sliding, plus schedule exploration of the window object', 'DESIGN.md 3/C08', SEQ_NOTE + '; ' + SCHED_NOTE, DET + ' + stateless schedule DFS on the window object'),
 'C09': ('model_checking', 'all key sequences (length<=7/9 over 3 keys, canonical) x N x 1|2 grouping columns (incl. tuples with a missing column) x eager|lazy feed, with pauses of 1.5 s/25 s virtual time without/with STATETTL, function-expression and mixed-spelling keys, strategy block with a one-batch output buffer and a lagging consumer, statistics calls between rows, a panicking synchronous sink in front of the observing one, a nested-path key, float64 keys beyond float32 precision, count spellings (quoted, leading zero), colliding key tuples, against the per-key batching reference, plus all schedules (<=1/2 deviations) of producer, processor, counting-window goroutine and consumer for fixed sequences', 'DESIGN.md 3/C09', SEQ_NOTE + '; ' + SCHED_NOTE, DET + ' + stateless schedule DFS of the full pipeline'),
 'C10': ('model_checking', 'all per-key timestamp sequences (length<=4/5 over gaps below/at/above the timeout and out-of-order arrivals) x timeout x MAXOUTOFORDERNESS x 1..2 keys under both extreme feed policies (also strategy block with a lagging consumer, a 36 h gap, present-day float64 timestamps, a nested-path key, the timeout written as a bare or quoted number of seconds), a pairwise group-key identity search and key tuples colliding under join-with-a-middle and faulty-escaping encoders (NULL, missing, the empty text, marker-like texts); oracle = the stated session constraints and eager==lazy for in-order input', 'DESIGN.md 3/C10', SEQ_NOTE, DET + ' under two feed schedules'),
})

CHECKS.update({
 'C05': ('model_checking', 'all SELECT lists of 1..2/3 items from 12 item kinds (incl. quoted text holding the other quote character or a colon) x 8 WHERE clauses on 160 rows, and the documented nested access paths (arr[0], arr[-1], d["x"], ds[1].x, mat[1][0]) as items and in WHERE on 360 rows, FROM aliases without a JOIN, a quoted map key with blanks, through EmitSync (history = all earlier rows; every 7th row alone), Emit + sync sink and the result channel, against a projection/filter reference; plus all schedules (<=2/3 deviations) of a producer with a sync sink, an async sink and a channel reader (order) and of three Emits into an input buffer of one row (no row twice); auxiliary: a free-running -race pass of Emit || EmitSync on general-path direct queries (results compared with the sequential ones)', 'DESIGN.md 3/C05', SEQ_NOTE + '; ' + SCHED_NOTE, DET + ' + stateless schedule DFS'),
 'C06': ('model_checking', 'all generated expression ASTs (arithmetic with precedence/parentheses, comparisons, NOT/AND/OR incl. mixed precedence, searched and simple CASE) in textual variants, in SELECT and WHERE, on 45 typed rows against ref.Expr (SQL three-valued logic), each also with reversed row order on fresh process-wide caches; scalar functions over argument tuples (arity <=2/3, variadic ones always 3) through the call routes; numbers cast to text or concatenated read back exactly; case-variant expression pairs in one process; quoted literal arguments holding the other quote, commas and parentheses', 'DESIGN.md 3/C06', SEQ_NOTE, DET),
 'C07': ('model_checking', 'exhaustive product of SELECT item sets (agg op literal, agg op agg, parenthesised, aggregate over expression / function / CASE, function over aggregate, the same parameterised aggregate twice) x HAVING (incl. NOT, unselected aggregates, OR before AND without parentheses) x ORDER BY x LIMIT x DISTINCT on 8 datasets (incl. text sort keys that read as numbers) against a relational reference; consecutive batches must still read at the end what they read at delivery', 'DESIGN.md 3/C07', SEQ_NOTE, DET),
 'C11': ('model_checking', 'every token string of length <=5/6 over 25 tokens and every byte string of length <=4/5 over 16 hostile bytes after 6 prefixes parsed under panic capture and a hang watchdog; every generated grammar statement (incl. un-aliased JOINs, keyword-bearing identifiers MATCH_RECOGNIZE statements (incl. reluctant quantifiers spelt with and without blanks) and every spelling of the WITHIN bound) WITH options in both orders, the window first in GROUP BY, and the one-edit neighbourhood of 9 valid statements in two layouts (totality) compared field by field with the returned configuration and re-parsed in 12 layouts (token-wise keyword case x separators)', 'DESIGN.md 3/C11', 'trusted base: the statement generator doubles as the expectation; rsql.Parse is called directly (no scheduler needed)', 'bounded-exhaustive enumeration of inputs/programs on the real parser'),
 'C12': ('model_checking', 'exhaustive product of shortcut-shaped predicates (8 operators x 12 literals; && / || chains; three- and four-term chains mixing && and ||) x 40 typed values through the shortcut path and through the parenthesised text that forces the general evaluator, plus WHERE, HAVING, TRIGGER WHEN and OVER-WHEN seams (also several WHEN predicates in one query differing only in case, blanks or one character; HAVING over keyword-bearing alias spellings decides as over a neutral alias; TRIGGER WHEN literals with foreign quotes and operators and the same aggregate of two columns against a reference); auxiliary: the free-running -race pass of Emit || EmitSync callers evaluating one general-path predicate', 'DESIGN.md 3/C12', 'trusted base: the parenthesised form is the general evaluator', 'exhaustive differential enumeration (shortcut path vs general path) on the implementation'),
 'C13': ('model_checking', 'all patterns x all texts of length <=3/4 over {%,_,a,b,.} in WHERE, CASE, SELECT and HAVING against a regexp reference; IS [NOT] NULL over present/NULL/missing and nested paths in every context, each also with the IS [NOT] NULL keywords in lower and mixed case; keyword case variants, NULL/missing text, keyword-bearing column and alias names (also in the HAVING text), nested-path operands', 'DESIGN.md 3/C13', SEQ_NOTE, DET),
 'C14': ('model_checking', '6 analytic queries x all row sequences (length<=4/5 over 3 partitions x {1,2,NULL,missing}) through EmitSync against per-partition reference state machines, sync vs async, partition isolation, changed_col(s), WHEN gating (passing rows metamorphic, failing rows repeat the last result), wrappers over two analytic calls (sparse rows; a NULL first call before a cumulative one), start/reset arguments of acc_* with overlapping predicates, container-valued columns, pairwise partition-key collision search, partition cap (also under a WHEN gate), an analytic call in WHERE with PARTITION BY and WHEN, had_changed(.., *) over whole rows', 'DESIGN.md 3/C14', SEQ_NOTE, DET),
 'C15': ('model_checking', '33 patterns (incl. {n,m} with m>=n+2, {n} next to a variable-length part and PERMUTE of three variables) x 8 DEFINE templates (incl. aggregates over all-negative values, one function called twice with different arguments and FIRST/LAST qualified by a variable, also in MEASURES) x every SKIP mode x all event streams (length<=5/7 over 3 values) against a brute-force matcher (all valid labelings; leftmost start, longest end, SKIP rule), MEASURES aggregates over the match, events lacking a DEFINE column, ALL ROWS classification, two interleaved partitions, WITHIN (longest run per start whose span fits), pairwise partition-key search', 'DESIGN.md 3/C15', SEQ_NOTE, DET),
 'C16': ('model_checking', '6 JOIN queries x initial tables x all operation sequences (length<=3/4 over EmitSync/Upsert/Delete with int/float/string/NULL key components) against a typed-key reference table; 864 ON-clause naming configurations; composite-key pair search (match iff equal); GROUP BY/WHERE on joined columns; upserts whose row prints like the stored one; re-registration of a table; all schedules (<=1/2 deviations) of Emit x2 against Upsert+Delete with a table-version window oracle (Unlock is a scheduling point when the tree uses TryLock); auxiliary: free-running -race pass of Emit/EmitSync against UpsertTable/Delete', 'DESIGN.md 3/C16', SEQ_NOTE + '; ' + SCHED_NOTE, DET + ' + stateless schedule DFS'),
 'C17': ('model_checking', '17 TRIGGER WHEN predicates (incl. OR before AND without parentheses) x all row sequences (length<=4/6 over 2 groups x {1,2,3,NULL}; short ones also with pauses between rows; without GROUP BY; typed numbers) against the running-aggregate reference; pairwise group-key identity search; strategy block with a lagging consumer; aggregates with expression arguments in SELECT and in the predicate; statistics calls between rows, STATETTL, several queries sharing one predicate text, type-independent aggregates over a text column, trigger literals with foreign quotes and operators, the same aggregate of two columns, an aggregated column whose name has AND / OR parts (or_v_and)', 'DESIGN.md 3/C17', SEQ_NOTE, DET),
 'C18': ('model_checking', 'all schedules (quick: <=2 deviations, every non-default choice costs 1; thorough: <=1 preemption with free choices at blocking points) of Emit/Stop/AddSink/GetStats/TriggerWindow/EmitSync threads (TriggerWindow also after Stop) on 11 query kinds x 3 overflow strategies with plain, panicking (sync and async), re-entrant (GetStats, AddSink, EmitSync), blocking, gated and slow asynchronous sinks, a pair of synchronous sinks of which the first panics, rows whose evaluation panics in a user function; monitors for panic, deadlock, Stop barrier, grace timer, goroutine leak, delivery of later rows after a sink panic; plus the free-running -race pass', 'DESIGN.md 3/C18', SCHED_NOTE, 'stateless DFS over schedules of the instrumented implementation, deviation-bounded, happens-before state caching; auxiliary -race pass'),
 'C20': ('model_checking', '33 query kinds (incl. FROM alias without a JOIN) x Emit/EmitSync x nested rows: deep snapshots of caller maps and of delivered batches; every registered scalar, aggregate and analytic function over the caller\'s own slices and maps; 18 instance pairs (one worker process each) x all input sequences (length<=2/3) x all interleavings of the two inputs against solo runs on fresh globals; plus the free-running -race pass', 'DESIGN.md 3/C20', SEQ_NOTE, DET + ' over all operation interleavings of two instances; auxiliary -race pass'),
})

NA_REASON = {}

def main():
    checks = []
    for p in props:
        i = p['id']
        if i not in CHECKS:
            continue
        cat, text, ref, note, tech = CHECKS[i]
        checks.append({
            'property_id': i,
            'quick_cmd': f'bin/check {i} quick',
            'thorough_cmd': f'bin/check {i} thorough',
            'evidence_file': f'/verif/evidence/{i}.json',
            'replay_cmd_template': 'bin/check replay {path}',
            'engine': 'vcheck',
            'level_claimed': {'category': cat, 'text': text, 'design_ref': ref},
            'level_note': note,
            'technique': tech,
        })
    na = [{'property_id': p['id'], 'reason': NA_REASON.get(p['id'], 'check not built yet (work in progress, see DESIGN.md section 7)')}
          for p in props if p['id'] not in CHECKS]
    m = {
        'version': 1,
        'setup_cmd': 'bin/setup',
        'hooks': {
            'guard': 'verif',
            'enable': "no hook is committed to /repo: every check instruments a scratch copy of /repo's current working tree (cmd/vinstr: sync/atomic/time imports -> /verif/rt shims, go/chan/select -> scheduler calls) and builds it with `go build -overlay <scratch>/overlay.json -tags verif`; accessor files live in /verif/inject",
            'baseline_off_cmd': 'cd /repo && go test -vet=off -count=1 ./...',
            'source_commits': [],
            'add_only': True,
        },
        'engines': [
            {'name': 'vcheck', 'path': '/verif/harness', 'serves_properties': [c['property_id'] for c in checks],
             'kind_free_text': 'hand-written stateless model checker for Go: cooperative scheduler + virtual clock (/verif/rt) injected by source instrumentation (/verif/cmd/vinstr), deviation-bounded DFS explorer with happens-before state caching (/verif/harness/explore), bounded-exhaustive enumerators against Go reference models (/verif/harness/ref)'},
        ],
        'checks': checks,
        'not_applicable': na,
        'notes': 'exit codes: 0 held (KNOWN-FINDING lines possible), 1 VIOLATION, 3 infrastructure error. Known findings: /verif/known_findings.jsonl. Seeded changes: /verif/seeded/.',
    }
    json.dump(m, open(os.path.join(V, 'MANIFEST.json'), 'w'), indent=1)
    print('MANIFEST.json:', len(checks), 'checks,', len(na), 'not claimed')

main()
