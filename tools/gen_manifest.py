#!/usr/bin/env python3
"""Regenerates /verif/MANIFEST.json from the table below (claimed checks) and properties.jsonl."""
import json, os
V = os.path.dirname(os.path.dirname(os.path.abspath(__file__)))
props = [json.loads(l) for l in open(os.path.join(V, 'properties.jsonl'))]

SCHED_NOTE = ("trusted base: the cooperative scheduler and shims in /verif/rt (unit-tested against the real primitives), the AST instrumenter "
              "cmd/vinstr, Go's runtime; scheduling points only at sync/atomic/channel/timer operations (plain data races are outside, see the -race pass); "
              "virtual clock instead of wall time; bounds as stated in the evidence file")
SEQ_NOTE = ("trusted base: the Go reference model in /verif/harness/ref (written from the property text and the docs, not from the implementation), "
            "the deterministic executor of /verif/rt (default schedule, virtual clock); values/lengths outside the stated alphabets and bounds are not covered")

CHECKS = {
 # id: (category, text, design_ref, note, technique)
 'C19': ('model_checking',
         'every schedule (<= k preemptions/early timer firings, all select-case and blocking-switch choices) of P producers x 2 rows against the real Stream under drop/block/expand with buffers 1..2 is executed on the real code and checked at quiescence: processed + input_dropped == emits, no duplicate, block never drops, cap <= ceiling, per-producer order',
         'DESIGN.md 3/C19', SCHED_NOTE,
         'stateless DFS over schedules of the instrumented implementation, deviation-bounded, happens-before state caching'),
}

NA_REASON = {}

def main():
    checks = []
    for p in props:
        i = p['id']
        if i not in CHECKS:
            continue
        cat, text, ref, note, tech = CHECKS[i]
        checks.append({
            'property_id': i,
            'quick_cmd': f'bin/check {i} quick',
            'thorough_cmd': f'bin/check {i} thorough',
            'evidence_file': f'/verif/evidence/{i}.json',
            'replay_cmd_template': 'bin/check replay {path}',
            'engine': 'vcheck',
            'level_claimed': {'category': cat, 'text': text, 'design_ref': ref},
            'level_note': note,
            'technique': tech,
        })
    na = [{'property_id': p['id'], 'reason': NA_REASON.get(p['id'], 'check not built yet (work in progress, see DESIGN.md section 7)')}
          for p in props if p['id'] not in CHECKS]
    m = {
        'version': 1,
        'setup_cmd': 'bin/setup',
        'hooks': {
            'guard': 'verif',
            'enable': "no hook is committed to /repo: every check instruments a scratch copy of /repo's current working tree (cmd/vinstr: sync/atomic/time imports -> /verif/rt shims, go/chan/select -> scheduler calls) and builds it with `go build -overlay <scratch>/overlay.json -tags verif`; accessor files live in /verif/inject",
            'baseline_off_cmd': 'cd /repo && go test -vet=off -count=1 ./...',
            'source_commits': [],
            'add_only': True,
        },
        'engines': [
            {'name': 'vcheck', 'path': '/verif/harness', 'serves_properties': [c['property_id'] for c in checks],
             'kind_free_text': 'hand-written stateless model checker for Go: cooperative scheduler + virtual clock (/verif/rt) injected by source instrumentation (/verif/cmd/vinstr), deviation-bounded DFS explorer with happens-before state caching (/verif/harness/explore), bounded-exhaustive enumerators against Go reference models (/verif/harness/ref)'},
        ],
        'checks': checks,
        'not_applicable': na,
        'notes': 'exit codes: 0 held (KNOWN-FINDING lines possible), 1 VIOLATION, 3 infrastructure error. Known findings: /verif/known_findings.jsonl. Seeded changes: /verif/seeded/.',
    }
    json.dump(m, open(os.path.join(V, 'MANIFEST.json'), 'w'), indent=1)
    print('MANIFEST.json:', len(checks), 'checks,', len(na), 'not claimed')

main()
