#!/bin/bash
# coverage.sh <outdir> [checks...]: development tool (not a registered check). Materialises the instrumented
# tree as a real module copy (go build -cover does not follow -overlay), builds the harness with -cover over
# the repository's packages, runs the given quick checks (default: all) and writes <outdir>/<Cxx>.cov
# (line numbers refer to <outdir>/repo, the comment-stripped instrumented copy).
set -u
VERIF=$(cd "$(dirname "$0")/.." && pwd)
out=$1; shift
checks=("$@"); [ ${#checks[@]} -gt 0 ] || checks=(C01 C02 C03 C04 C05 C06 C07 C08 C09 C10 C11 C12 C13 C14 C15 C16 C17 C18 C19 C20)
export GOFLAGS=-mod=mod GOPROXY=off GOSUMDB=off GOTOOLCHAIN=local CGO_ENABLED=0
mkdir -p "$out"; rm -rf "$out/src" "$out/cov" "$out/repo" "$out/harness"
"$VERIF/bin/vinstr" -src /repo -dst /repo -out "$out/src" -overlay "$out/overlay.json" -rt "$VERIF/rt" -inject "$VERIF/inject" 2>/dev/null || exit 3
rsync -a --exclude .git /repo/ "$out/repo/"
python3 - "$out" <<'PY'
import json,sys,os,shutil
out=sys.argv[1]
ov=json.load(open(out+'/overlay.json'))['Replace']
for dst,src in ov.items():
    assert dst.startswith('/repo/')
    t=out+'/repo/'+dst[len('/repo/'):]
    os.makedirs(os.path.dirname(t),exist_ok=True)
    if src=='': 
        if os.path.exists(t): os.remove(t)
    else: shutil.copy(src,t)
PY
rsync -a --exclude bin --exclude '*.test' "$VERIF/harness/" "$out/harness/"
(cd "$out/harness" && go mod edit -replace github.com/rulego/streamsql="$out/repo" && \
 go build -cover -coverpkg=verifharness/cmd/vcheck,github.com/rulego/streamsql/... -tags verif -o "$out/vcheck" ./cmd/vcheck) || exit 3
mkdir -p "$out/verifout"; cp "$VERIF/known_findings.jsonl" "$out/verifout/"
for c in "${checks[@]}"; do
  mkdir -p "$out/cov/$c"
  GOCOVERDIR="$out/cov/$c" VERIF_DIR="$out/verifout" "$out/vcheck" run "$c" quick > "$out/$c.log" 2>&1
  go tool covdata textfmt -i="$out/cov/$c" -o "$out/$c.cov" 2>/dev/null
  echo "$c done: $(tail -1 "$out/$c.log" | cut -c1-120)"
done
