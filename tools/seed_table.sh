#!/bin/bash
# seed_table.sh <out.tsv>: every seeded change against its property's quick check and the checks that share
# anchored code with it (RELATED in tools/mutation_run.py). Uses tools/seed_matrix.sh (scratch worktree, /repo untouched).
out=$1; : > "$out"
for d in /verif/seeded/*/; do
  p=$(python3 -c "import json;print(json.load(open('$d/meta.json'))['property'])")
  rel=$(python3 - "$p" <<'PY'
import sys,re
src=open('/verif/tools/mutation_run.py').read()
m=re.search(r'RELATED = (\{.*?\n\s+.*?\n\s+.*?\})',src,re.S)
R=eval(m.group(1))
print(' '.join([sys.argv[1]]+R.get(sys.argv[1],[])))
PY
)
  CHECKS="$rel" /verif/tools/seed_matrix.sh "$out.part" "$d" >/dev/null 2>&1
  cat "$out.part" >> "$out"; rm -f "$out.part"
done
