#!/bin/bash
# run_seed.sh <seed-dir> <Cxx> [more checks...]: applies seeded/<..>/patch.diff to /repo, runs the quick checks, restores /repo.
dir=$1; shift
[ -z "$(git -C /repo status --porcelain)" ] || { echo "/repo is not clean"; exit 3; }
git -C /repo apply "$dir/patch.diff" || { echo "patch does not apply"; exit 3; }
trap 'git -C /repo checkout -- . ; git -C /repo clean -fdq' EXIT
for c in "$@"; do
  out=$(timeout 900 /verif/bin/check $c quick 2>&1); rc=$?
  nviol=$(echo "$out" | grep -c "^VIOLATION")
  echo "SEED $(basename $dir) CHECK $c rc=$rc violations=$nviol :: $(echo "$out" | grep -m2 'signature:' | tr '\n' ' ' | cut -c1-300)"
done
