#!/usr/bin/env python3
"""commit_hunks.py <file> <hunk,indices> <message-file>: stages only the given hunks (1-based, in `git diff` order)
of one file of /repo and commits them. Used to keep unrelated fixes in separate commits."""
import subprocess, sys, re
f, idx, msgf = sys.argv[1], [int(x) for x in sys.argv[2].split(',')], sys.argv[3]
diff = subprocess.run(['git', '-C', '/repo', 'diff', '--', f], capture_output=True, text=True).stdout
parts = re.split(r'(?m)^(?=@@ )', diff)
header, hunks = parts[0], parts[1:]
patch = header + ''.join(hunks[i-1] for i in idx)
p = subprocess.run(['git', '-C', '/repo', 'apply', '--cached', '--recount', '-'], input=patch, text=True, capture_output=True)
if p.returncode != 0:
    print(p.stderr); sys.exit(1)
subprocess.run(['git', '-C', '/repo', 'commit', '-q', '-F', msgf], check=True)
print(subprocess.run(['git', '-C', '/repo', 'log', '--oneline', '-1'], capture_output=True, text=True).stdout)
