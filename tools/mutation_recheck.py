#!/usr/bin/env python3
"""mutation_recheck.py <out.tsv> <stream> <nstreams>: re-runs every SURVIVOR of mutation/r1-*.tsv that no later
row reports as killed against the *current* quick checks (own + related). Development tool."""
import glob, os, subprocess, sys, tempfile, shutil
sys.path.insert(0, os.path.dirname(__file__))
import mutation_run as M
out, k, n = sys.argv[1], int(sys.argv[2]), int(sys.argv[3])
surv, killed = [], set()
for fn in sorted(glob.glob('/verif/mutation/r1-C*.tsv')):
    for l in open(fn):
        f = l.rstrip('\n').split('\t')
        if len(f) > 5 and f[5] == 'SURVIVOR' and tuple(f[:3]) not in [tuple(s[:3]) for s in surv]: surv.append(f)
        if len(f) > 5 and f[5].startswith('killed'): killed.add(tuple(f[:3]))
todo = [f for f in surv if tuple(f[:3]) not in killed][k::n]
mx = tempfile.mkdtemp(prefix='verif-mut.', dir='/tmp'); wt = mx + '/wt'
rc, o = M.sh(f'git -C /repo worktree add -q --detach {wt} HEAD')
if rc: raise SystemExit(o)
try:
    with open(out, 'a') as log:
        for f in todo:
            prop, file, num, line, desc = f[:5]
            funcs = dict(M.TARGETS[prop][1])[file]
            M.sh(f'git -C {wt} checkout -q -- . ; git -C {wt} clean -fdq')
            M.sh(f'/verif/bin/vmutate -file {wt}/{file} -funcs "{funcs}" -apply {num} -out {wt}/{file}')
            status, sig = 'SURVIVOR', ''
            for c in [prop] + M.RELATED.get(prop, []):
                env = dict(M.ENV, VERIF_REPO=wt, VERIF_OUT=mx + '/out')
                rc, o = M.sh(f'/verif/bin/check {c} quick', env=env, timeout=1800)
                if rc == 1 and 'VIOLATION' in o:
                    s = [x for x in o.splitlines() if 'signature:' in x]
                    status, sig = 'killed:' + c, (s[0].strip()[:160] if s else ''); break
            log.write('\t'.join([prop, file, num, line, desc, status, sig]) + '\n'); log.flush()
finally:
    M.sh(f'git -C /repo worktree remove --force {wt}'); shutil.rmtree(mx, ignore_errors=True)
