#!/usr/bin/env python3
"""adopt_findings.py <property> <rules.json>: appends `known` entries to known_findings.jsonl for the
violations currently in /verif/replays/<property>-*.json whose signature matches a rule (regex -> root-cause text).
Used only by hand, after triage; checks never write the file."""
import json, glob, re, sys, os
V = os.path.dirname(os.path.dirname(os.path.abspath(__file__)))
prop, rules = sys.argv[1], json.load(open(sys.argv[2]))
have = set()
for l in open(os.path.join(V, 'known_findings.jsonl')):
    l = l.strip()
    if l:
        d = json.loads(l); have.add((d.get('property'), d.get('signature'), d.get('status')))
out = []
for f in sorted(glob.glob(os.path.join(V, 'replays', prop + '-*.json'))):
    v = json.load(open(f))['violation']
    sig = v['signature']
    if (prop, sig, 'known') in have:
        continue
    for r in rules:
        if re.search(r['match'], sig):
            out.append({'status': 'known', 'property': prop, 'signature': sig, 'what': r['what'],
                        'witness': {'case': v.get('case'), 'observed': v.get('observed'), 'expected': v.get('expected'), 'detail': v.get('what')},
                        'why_not_fixed': r.get('why_not_fixed', '')})
            break
    else:
        print('UNMATCHED', sig)
with open(os.path.join(V, 'known_findings.jsonl'), 'a') as fh:
    for o in out:
        fh.write(json.dumps(o) + '\n')
print('adopted', len(out))
