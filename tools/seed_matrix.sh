#!/bin/bash
# seed_matrix.sh <out.tsv> [seed-dir ...]: for each seeded change, applies it in a scratch worktree of /repo's HEAD
# (never in /repo), runs every property's quick check against that tree (VERIF_REPO) with evidence redirected
# (VERIF_OUT), and records which checks report a violation. The scratch worktree is removed afterwards.
# The free-running -race pass of C18-C20 always builds /repo itself, so it does not see the seeded change here.
out=$1; shift
seeds=("$@"); [ ${#seeds[@]} -gt 0 ] || seeds=(/verif/seeded/*/)
mx=$(mktemp -d /tmp/verif-mx.XXXXXX); wt=$mx/wt
trap 'git -C /repo worktree remove --force "$wt" 2>/dev/null; rm -rf "$mx"' EXIT
git -C /repo worktree add -q --detach "$wt" HEAD || exit 3
: > "$out"
for d in "${seeds[@]}"; do
  sid=$(basename "$d")
  git -C "$wt" checkout -q -- . ; git -C "$wt" clean -fdq
  git -C "$wt" apply "$d/patch.diff" || { echo -e "$sid\tPATCH-DOES-NOT-APPLY" >> "$out"; continue; }
  for c in ${CHECKS:-C01 C02 C03 C04 C05 C06 C07 C08 C09 C10 C11 C12 C13 C14 C15 C16 C17 C18 C19 C20}; do
    o=$(VERIF_REPO=$wt VERIF_OUT=$mx/out timeout 1200 /verif/bin/check $c quick 2>&1); rc=$?
    nv=$(echo "$o" | grep -c "^VIOLATION")
    sig=$(echo "$o" | grep -m1 'signature:' | sed 's/^ *signature: *//' | cut -c1-200)
    echo -e "$sid\t$c\trc=$rc\tviolations=$nv\t$sig" >> "$out"
  done
done
