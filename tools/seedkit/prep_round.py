import json,sys,os,subprocess
n=int(sys.argv[1])
root='/tmp/seed%d'%n
os.makedirs(root,exist_ok=True)
tmpl=open('/tmp/seed/prompt.tmpl').read()
letters='abcdefghijklmnop'
for i in range(1,21):
    id='C%02d'%i
    prop=open('/tmp/seed/%s.prop.txt'%id).read()
    used=[]
    dirs=['/verif/seeded/%s'%id]+['/verif/seeded/%s-r%d'%(id,k) for k in range(2,n)]
    for d in dirs:
        if not os.path.exists(d+'/meta.json'):
            d='/tmp/seed%s/out-%s'%(d.split('-r')[-1],id)
        m=json.load(open(d+'/meta.json'))
        used.append(m['summary'][:110].replace('\n',' '))
    p=tmpl.replace('{WT}',root+'/wt-'+id).replace('{OUT}',root+'/out-'+id).replace('{PROP}',prop)
    lst=' ; '.join('(%s) %s ...'%(letters[k],u) for k,u in enumerate(used))
    p=p.replace('Deliverables - write them','4. %d other engineers have already seeded defects here: %s . Choose a DIFFERENT location and a different mechanism from all of them (a different function, a different kind of slip, a different kind of triggering input, configuration, query shape or API usage); do not vary those.\n\nDeliverables - write them'%(len(used),lst))
    open(root+'/prompt-%s.txt'%id,'w').write(p)
    subprocess.run(['git','-C','/repo','worktree','add','-q','--detach',root+'/wt-'+id,'HEAD'])
print('ok')
