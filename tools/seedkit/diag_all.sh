#!/bin/bash
# diag_all.sh <round> [ids...]: own check + related checks for each seed of the round
n=$1; shift; ids=("$@"); [ ${#ids[@]} -gt 0 ] || ids=($(seq -w 1 20 | sed 's/^/C/'))
for id in "${ids[@]}"; do
  [ -f /tmp/seed$n/out-$id/patch.diff ] || { echo "$id: no patch yet"; continue; }
  rel=$(python3 - "$id" <<'PY'
import sys,re
src=open('/verif/tools/mutation_run.py').read()
m=re.search(r'RELATED = (\{.*?\})\n',src,re.S)
R=eval(m.group(1))
extra={'C16':['C11'],'C05':['C06','C13','C11'],'C07':['C03','C11'],'C13':['C05','C20','C06'],'C10':['C02'],'C14':['C20'],'C15':['C20']}
id=sys.argv[1]
out=[id]
for c in R.get(id,[])+extra.get(id,[]):
    if c not in out: out.append(c)
print(' '.join(out))
PY
)
  CHECKS="$rel" /verif/tools/seed_matrix.sh /tmp/seed$n/diag-all-$id.tsv /tmp/seed$n/out-$id/ >/dev/null 2>&1
  awk -F'\t' -v id=$id 'BEGIN{s=""} {if ($4!="violations=0") s=s" "$2"✓("substr($5,1,60)")"; else s=s" "$2"✗"} END{print id":"s}' /tmp/seed$n/diag-all-$id.tsv
done
