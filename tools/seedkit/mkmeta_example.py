import json,os,re,shutil
blind={'C11','C20'}
related={}
also_neighbour={'C04':'C17'}
notcaught=set()
strengthened={
 'C04':'the global kind of half of the tuple alphabets uses a compound trigger over unselected aggregates',
 'C05':'a quoted map key with leading and trailing blanks',
 'C06':'text literals holding the other quote character, commas and parentheses as function arguments',
 'C07':'HAVING CASE over an aggregate that is not selected',
 'C09':'the count written with a leading zero',
 'C12':'TRIGGER WHEN over the same aggregate function of two columns, against a reference',
 'C15':'events that lack the column a DEFINE condition names',
 'C16':'RegisterTable under a registered name replaces the table',
}
for id in ['C04','C05','C06','C07','C09','C11','C12','C15','C16','C20']:
    m=json.load(open('/tmp/seed14/out-%s/meta.json'%id))
    res=open('/tmp/seed14/verify-%s.log'%id).read()
    r=re.search(r'RESULT \S+ suite_rc=(\d) demo_with_rc=(\d) demo_without_rc=(\d)',res)
    d='/verif/seeded/%s-r14'%id
    os.makedirs(d,exist_ok=True)
    shutil.copy('/tmp/seed14/out-%s/patch.diff'%id,d+'/patch.diff')
    shutil.copy('/tmp/seed14/out-%s/demo_test.go'%id,d+'/demo_test.go')
    out={
     'property':id,'round':14,'origin':'fresh sub-agent given only the property text, a scratch worktree and the locations of the changes of the earlier rounds to avoid',
     'summary':m.get('summary'),'needs':m.get('needs'),
     'demo_path':m.get('demo_path'),
     'demo_cmd':re.sub(r'/tmp/seed14/wt-C\d\d','<repo>',m.get('demo_cmd','')),
     'base_commit':'the HEAD of /repo when round 14 started (patch applies to the current HEAD)',
     'verified_by_me':{'how':'tools/verify_seed.sh in the scratch worktree: full suite with the change, demonstration with and without it',
        'suite_with_change':'pass' if r.group(1)=='0' else 'FAIL','demo_with_change':'FAIL' if r.group(2)!='0' else 'pass','demo_without_change':'pass' if r.group(3)=='0' else 'FAIL'},
     'caught_before_any_change_to_the_check': id in blind or id in related or id in also_neighbour,
     'check_strengthened': strengthened.get(id,''),
     'caught_by':[] if id in notcaught else ([related[id]] if id in related else ([id, also_neighbour[id]] if id in also_neighbour else [id])),
     'caught_by_own_check_now': id not in related and id not in notcaught,
     'not_caught_reason': 'the unchanged engine keeps late rows inside a not-yet-fired interval too, so which late rows survive is schedule-dependent before and after the change; the property lets a late-on-arrival row be dropped or reported, and no oracle over sink-observable events separates the two versions without alarming on other correct schedules of the unchanged code ' if id in notcaught else '',
    }
    json.dump(out,open(d+'/meta.json','w'),indent=1,ensure_ascii=False)
