import json,os,re,shutil
blind={'C02','C10','C13','C14','C17','C18'}
related={'C09':'C19'}
also_neighbour={'C05':'C19','C06':'C13'}
notcaught=set()
strengthened={
 'C01':'processing-time window-object scripts with a consumer that holds the first delivery for 4.5 windows',
 'C03':'parameterised aggregates in the middle and at the end of the expression-argument list',
 'C04':'batches next to one whose aggregate argument panics report exactly their own groups',
 'C05':'three Emits into an input buffer of one row under drop / expand: no row twice, order kept (C19 reported the change as it stood)',
 'C06':'case-variant expression pairs evaluated in one process (C13 reported the change as it stood)',
 'C07':'text sort keys that read as numbers',
 'C08':'streams that simply stop (no sentinel), sizes that are no multiple of the slide',
 'C09':'(not strengthened: a result channel of capacity 0 is outside the scheduler\'s model; reported by the free-running accounting pass registered under C19)',
 'C11':'reluctant quantifiers, also spelt with blanks between all tokens',
 'C12':'TRIGGER WHEN literals holding foreign quotes, operators and keywords, against a reference',
 'C15':'an exact count next to a variable-length part',
 'C16':'upserts whose row prints like the stored one',
 'C19':'rows without any column',
 'C20':'FROM alias without a JOIN',
}
for i in range(1,21):
    id='C%02d'%i
    m=json.load(open('/tmp/seed13/out-%s/meta.json'%id))
    res=open('/tmp/seed13/verify-%s.log'%id).read()
    r=re.search(r'RESULT \S+ suite_rc=(\d) demo_with_rc=(\d) demo_without_rc=(\d)',res)
    d='/verif/seeded/%s-r13'%id
    os.makedirs(d,exist_ok=True)
    shutil.copy('/tmp/seed13/out-%s/patch.diff'%id,d+'/patch.diff')
    shutil.copy('/tmp/seed13/out-%s/demo_test.go'%id,d+'/demo_test.go')
    out={
     'property':id,'round':13,'origin':'fresh sub-agent given only the property text, a scratch worktree and the locations of the changes of the earlier rounds to avoid',
     'summary':m.get('summary'),'needs':m.get('needs'),
     'demo_path':m.get('demo_path'),
     'demo_cmd':re.sub(r'/tmp/seed13/wt-C\d\d','<repo>',m.get('demo_cmd','')),
     'base_commit':'the HEAD of /repo when round 13 started (patch applies to the current HEAD)',
     'verified_by_me':{'how':'tools/verify_seed.sh in the scratch worktree: full suite with the change, demonstration with and without it',
        'suite_with_change':'pass' if r.group(1)=='0' else 'FAIL','demo_with_change':'FAIL' if r.group(2)!='0' else 'pass','demo_without_change':'pass' if r.group(3)=='0' else 'FAIL'},
     'caught_before_any_change_to_the_check': id in blind or id in related or id in also_neighbour,
     'check_strengthened': strengthened.get(id,''),
     'caught_by':[] if id in notcaught else ([related[id]] if id in related else ([id, also_neighbour[id]] if id in also_neighbour else [id])),
     'caught_by_own_check_now': id not in related and id not in notcaught,
     'not_caught_reason': 'the unchanged engine keeps late rows inside a not-yet-fired interval too, so which late rows survive is schedule-dependent before and after the change; the property lets a late-on-arrival row be dropped or reported, and no oracle over sink-observable events separates the two versions without alarming on other correct schedules of the unchanged code ' if id in notcaught else '',
    }
    json.dump(out,open(d+'/meta.json','w'),indent=1,ensure_ascii=False)
