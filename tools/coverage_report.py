#!/usr/bin/env python3
"""coverage_report.py <covdir> [Cxx ...]: for each property, the statements of its anchored functions
(the TARGETS table of mutation_run.py) that the property's quick check never executes."""
import re, sys, os, collections
sys.argv_saved = sys.argv
src = open(os.path.join(os.path.dirname(os.path.abspath(__file__)), 'mutation_run.py')).read().split('ENV = dict')[0]
ns = {}
exec(src.replace('import json, os, subprocess, sys, tempfile, shutil', 'import json, os, subprocess, sys, tempfile, shutil'), ns)
TARGETS = ns['TARGETS']
covdir = sys.argv[1]
props = sys.argv[2:] or sorted(TARGETS)
MOD = 'github.com/rulego/streamsql/'
fre = re.compile(r'^func (\((\w+) \*?(\w+)(\[.*?\])?\) )?(\w+)')
for prop in props:
    cov = os.path.join(covdir, prop + '.cov')
    if not os.path.exists(cov):
        print(prop, 'no coverage file'); continue
    blocks = collections.defaultdict(dict)  # file -> (sl,sc,el,ec) -> (n, count)
    for l in open(cov):
        if not l.startswith(MOD): continue
        m = re.match(r'(.*?):(\d+)\.(\d+),(\d+)\.(\d+) (\d+) (\d+)', l)
        f = m.group(1)[len(MOD):]
        key = tuple(int(x) for x in m.group(2, 3, 4, 5))
        n, c = int(m.group(6)), int(m.group(7))
        old = blocks[f].get(key, (n, 0))
        blocks[f][key] = (n, old[1] + c)
    print('=' * 100); print(prop)
    for file, funcs in TARGETS[prop][1]:
        want = set(x.strip() for x in funcs.split(',') if x.strip())
        path = os.path.join(covdir, 'repo', file)
        lines = open(path).read().split('\n')
        # function ranges
        starts = []
        for i, l in enumerate(lines):
            m = fre.match(l)
            if m:
                name = m.group(5); full = (m.group(3) + '.' + name) if m.group(3) else name
                starts.append((i + 1, name, full))
        starts.append((len(lines) + 1, None, None))
        never = []
        for si in range(len(starts) - 1):
            s, name, full = starts[si]; e = starts[si + 1][0] - 1
            if want and name not in want and full not in want: continue
            tot = cov_n = 0; unc = []
            for (sl, sc, el, ec), (n, c) in sorted(blocks.get(file, {}).items()):
                if sl >= s and el <= e:
                    tot += n
                    if c > 0: cov_n += n
                    else: unc.append((sl, el))
            if tot == 0: continue
            pct = 100.0 * cov_n / tot
            if cov_n == 0:
                never.append(full); continue
            if unc:
                print(f'  {file} {full}: {cov_n}/{tot} statements ({pct:.0f}%)')
                for sl, el in unc:
                    text = ' / '.join(x.strip() for x in lines[sl - 1:min(el, sl + 2)])[:150]
                    print(f'      L{sl}-{el}: {text}')
        if never:
            print(f'  {file} never executed: ' + ', '.join(never))
