// vmutate enumerates first-order syntactic mutants of selected functions of one Go file and
// writes one of them. It is a development tool of /verif (tools/mutation_run.py): the mutants
// are applied to a scratch worktree only, to measure which realistic slips the checks report.
//
//	vmutate -file f.go -funcs A,B,T.M -list           one line per mutant: <n>\t<line>\t<description>
//	vmutate -file f.go -funcs A,B -apply <n> -out g.go  writes the file with mutant n applied
package main

import (
	"flag"
	"fmt"
	"go/ast"
	"go/parser"
	"go/token"
	"os"
	"sort"
	"strings"
)

type mutant struct {
	start, end int // byte offsets to replace
	repl       string
	line       int
	desc       string
}

var swaps = map[token.Token]token.Token{
	token.LSS: token.LEQ, token.LEQ: token.LSS, token.GTR: token.GEQ, token.GEQ: token.GTR,
	token.EQL: token.NEQ, token.NEQ: token.EQL, token.LAND: token.LOR, token.LOR: token.LAND,
	token.ADD: token.SUB, token.SUB: token.ADD,
}

func main() {
	file := flag.String("file", "", "")
	funcs := flag.String("funcs", "", "comma separated function or Type.Method names; empty = all")
	list := flag.Bool("list", false, "")
	apply := flag.Int("apply", -1, "")
	out := flag.String("out", "", "")
	flag.Parse()
	src, err := os.ReadFile(*file)
	if err != nil {
		fmt.Fprintln(os.Stderr, err)
		os.Exit(2)
	}
	fset := token.NewFileSet()
	f, err := parser.ParseFile(fset, *file, src, 0)
	if err != nil {
		fmt.Fprintln(os.Stderr, err)
		os.Exit(2)
	}
	want := map[string]bool{}
	for _, n := range strings.Split(*funcs, ",") {
		if n = strings.TrimSpace(n); n != "" {
			want[n] = true
		}
	}
	var ms []mutant
	off := func(p token.Pos) int { return fset.Position(p).Offset }
	for _, d := range f.Decls {
		fd, ok := d.(*ast.FuncDecl)
		if !ok || fd.Body == nil {
			continue
		}
		name := fd.Name.Name
		full := name
		if fd.Recv != nil && len(fd.Recv.List) == 1 {
			t := fd.Recv.List[0].Type
			if s, ok := t.(*ast.StarExpr); ok {
				t = s.X
			}
			if ix, ok := t.(*ast.IndexExpr); ok {
				t = ix.X
			}
			if id, ok := t.(*ast.Ident); ok {
				full = id.Name + "." + name
			}
		}
		if len(want) > 0 && !want[name] && !want[full] {
			continue
		}
		ast.Inspect(fd.Body, func(n ast.Node) bool {
			switch x := n.(type) {
			case *ast.BinaryExpr:
				if to, ok := swaps[x.Op]; ok {
					s := off(x.OpPos)
					ms = append(ms, mutant{s, s + len(x.Op.String()), to.String(), fset.Position(x.OpPos).Line,
						fmt.Sprintf("%s: %s -> %s", full, x.Op, to)})
				}
			case *ast.UnaryExpr:
				if x.Op == token.NOT {
					s := off(x.OpPos)
					ms = append(ms, mutant{s, s + 1, "", fset.Position(x.OpPos).Line, full + ": drop !"})
				}
			case *ast.BranchStmt:
				if x.Label == nil && (x.Tok == token.BREAK || x.Tok == token.CONTINUE) {
					to := "continue"
					if x.Tok == token.CONTINUE {
						to = "break"
					}
					s := off(x.TokPos)
					ms = append(ms, mutant{s, s + len(x.Tok.String()), to, fset.Position(x.TokPos).Line,
						fmt.Sprintf("%s: %s -> %s", full, x.Tok, to)})
				}
			case *ast.AssignStmt:
				// delete a plain (re)assignment of a field / index / variable: `x.f = v`, `m[k] = v`, `x += v`
				if x.Tok != token.DEFINE && len(x.Lhs) == 1 {
					if id, ok := x.Lhs[0].(*ast.Ident); ok && id.Name == "_" {
						return true
					}
					ms = append(ms, mutant{off(x.Pos()), off(x.End()), "{}", fset.Position(x.Pos()).Line,
						full + ": delete assignment " + strings.Join(strings.Fields(string(src[off(x.Pos()):off(x.End())])), " ")})
				}
			case *ast.IncDecStmt:
				ms = append(ms, mutant{off(x.Pos()), off(x.End()), "{}", fset.Position(x.Pos()).Line,
					full + ": delete " + string(src[off(x.Pos()):off(x.End())])})
			case *ast.BasicLit:
				if x.Kind == token.INT && (x.Value == "0" || x.Value == "1") {
					to := "1"
					if x.Value == "1" {
						to = "0"
					}
					ms = append(ms, mutant{off(x.Pos()), off(x.End()), to, fset.Position(x.Pos()).Line,
						fmt.Sprintf("%s: literal %s -> %s", full, x.Value, to)})
				}
			}
			return true
		})
	}
	sort.SliceStable(ms, func(i, j int) bool { return ms[i].start < ms[j].start })
	if *list {
		for i, m := range ms {
			d := m.desc
			if len(d) > 140 {
				d = d[:140]
			}
			fmt.Printf("%d\t%d\t%s\n", i, m.line, d)
		}
		return
	}
	if *apply < 0 || *apply >= len(ms) {
		fmt.Fprintln(os.Stderr, "no such mutant")
		os.Exit(2)
	}
	m := ms[*apply]
	res := string(src[:m.start]) + m.repl + string(src[m.end:])
	if err := os.WriteFile(*out, []byte(res), 0o644); err != nil {
		fmt.Fprintln(os.Stderr, err)
		os.Exit(2)
	}
}
