module vmutate

go 1.23
