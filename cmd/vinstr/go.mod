module verif/vinstr

go 1.23

require golang.org/x/tools v0.29.0
