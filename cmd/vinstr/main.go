// vinstr rewrites the non-test Go files of the module under test so that every go statement,
// channel operation and select goes through verifrt/sched and the sync, sync/atomic and time
// imports resolve to the scheduler-aware shims. It never touches the source tree: rewritten
// files go to -out and a `go build -overlay` file maps them (and the runtime and accessor
// files) into place.
package main

import (
	"bytes"
	"encoding/json"
	"flag"
	"fmt"
	"go/ast"
	"go/format"
	"go/parser"
	"go/token"
	"os"
	"path/filepath"
	"sort"
	"strconv"
	"strings"

	"golang.org/x/tools/go/ast/astutil"
)

const modPath = "github.com/rulego/streamsql"
const schedImport = modPath + "/verifrt/sched"
const schedName = "verifsched"

var importSwap = map[string]string{
	"sync":        modPath + "/verifrt/sync",
	"sync/atomic": modPath + "/verifrt/atomic",
	"time":        modPath + "/verifrt/time",
}

type rewriter struct {
	fset    *token.FileSet
	n       int
	used    bool
	skip    map[ast.Node]bool
	file    string
	failure error
}

func (r *rewriter) tmp(prefix string) *ast.Ident {
	r.n++
	return ast.NewIdent(fmt.Sprintf("__vf_%s%d", prefix, r.n))
}

func (r *rewriter) sched(name string) ast.Expr {
	r.used = true
	return &ast.SelectorExpr{X: ast.NewIdent(schedName), Sel: ast.NewIdent(name)}
}

func isSimpleValue(e ast.Expr) bool {
	switch v := e.(type) {
	case *ast.BasicLit:
		return true
	case *ast.Ident:
		return v.Name == "nil" || v.Name == "true" || v.Name == "false"
	case *ast.CompositeLit:
		return len(v.Elts) == 0
	case *ast.FuncLit:
		return true
	}
	return false
}

func define(lhs *ast.Ident, rhs ast.Expr) ast.Stmt {
	return &ast.AssignStmt{Lhs: []ast.Expr{lhs}, Tok: token.DEFINE, Rhs: []ast.Expr{rhs}}
}

func call(fun ast.Expr, args ...ast.Expr) *ast.CallExpr {
	return &ast.CallExpr{Fun: fun, Args: args}
}

// rewriteGo: go f(a, b) -> { __f := f; __a := a; __b := b; sched.Go(func() { __f(__a, __b) }) }
func (r *rewriter) rewriteGo(g *ast.GoStmt) ast.Stmt {
	var pre []ast.Stmt
	c := g.Call
	fun := c.Fun
	if _, lit := fun.(*ast.FuncLit); !lit {
		if pe, ok := fun.(*ast.ParenExpr); ok {
			if _, lit2 := pe.X.(*ast.FuncLit); lit2 {
				goto args
			}
		}
		f := r.tmp("f")
		pre = append(pre, define(f, fun))
		fun = f
	}
args:
	args := make([]ast.Expr, len(c.Args))
	for i, a := range c.Args {
		if isSimpleValue(a) {
			args[i] = a
			continue
		}
		t := r.tmp("a")
		pre = append(pre, define(t, a))
		args[i] = t
	}
	inner := &ast.CallExpr{Fun: fun, Args: args, Ellipsis: c.Ellipsis}
	if c.Ellipsis != token.NoPos {
		inner.Ellipsis = 1
	}
	lit := &ast.FuncLit{
		Type: &ast.FuncType{Params: &ast.FieldList{}},
		Body: &ast.BlockStmt{List: []ast.Stmt{&ast.ExprStmt{X: inner}}},
	}
	pre = append(pre, &ast.ExprStmt{X: call(r.sched("Go"), lit)})
	return &ast.BlockStmt{List: pre}
}

// rewriteSend: ch <- v -> { __c := ch; __v := v; sched.SendPoint(__c); __c <- __v }
func (r *rewriter) rewriteSend(s *ast.SendStmt) ast.Stmt {
	c := r.tmp("c")
	list := []ast.Stmt{define(c, s.Chan)}
	val := s.Value
	if !isSimpleValue(val) {
		v := r.tmp("v")
		list = append(list, define(v, val))
		val = v
	}
	list = append(list,
		&ast.ExprStmt{X: call(r.sched("SendPoint"), c)},
		&ast.SendStmt{Chan: c, Value: val})
	return &ast.BlockStmt{List: list}
}

func recvOf(e ast.Expr) *ast.UnaryExpr {
	for {
		if p, ok := e.(*ast.ParenExpr); ok {
			e = p.X
			continue
		}
		break
	}
	if u, ok := e.(*ast.UnaryExpr); ok && u.Op == token.ARROW {
		return u
	}
	return nil
}

func (r *rewriter) rewriteSelect(sel *ast.SelectStmt) ast.Stmt {
	var pre []ast.Stmt
	var cases []ast.Expr
	var clauses []ast.Stmt
	hasDefault := false
	idx := 0
	for _, st := range sel.Body.List {
		cc := st.(*ast.CommClause)
		if cc.Comm == nil {
			hasDefault = true
			clauses = append(clauses, &ast.CaseClause{
				List: []ast.Expr{&ast.UnaryExpr{Op: token.SUB, X: &ast.BasicLit{Kind: token.INT, Value: "1"}}},
				Body: cc.Body,
			})
			continue
		}
		c := r.tmp("c")
		var comm ast.Stmt
		caseLit := &ast.CompositeLit{Type: r.sched("Case"), Elts: []ast.Expr{&ast.KeyValueExpr{Key: ast.NewIdent("Ch"), Value: c}}}
		switch cs := cc.Comm.(type) {
		case *ast.SendStmt:
			pre = append(pre, define(c, cs.Chan))
			val := cs.Value
			if !isSimpleValue(val) {
				v := r.tmp("v")
				pre = append(pre, define(v, val))
				val = v
			}
			caseLit.Elts = append(caseLit.Elts, &ast.KeyValueExpr{Key: ast.NewIdent("Send"), Value: ast.NewIdent("true")})
			comm = &ast.SendStmt{Chan: c, Value: val}
		case *ast.ExprStmt:
			u := recvOf(cs.X)
			if u == nil {
				r.failure = fmt.Errorf("%s: unsupported select comm expression", r.pos(cs))
				return sel
			}
			pre = append(pre, define(c, u.X))
			comm = &ast.ExprStmt{X: &ast.UnaryExpr{Op: token.ARROW, X: c}}
		case *ast.AssignStmt:
			if len(cs.Rhs) != 1 || recvOf(cs.Rhs[0]) == nil {
				r.failure = fmt.Errorf("%s: unsupported select comm assignment", r.pos(cs))
				return sel
			}
			u := recvOf(cs.Rhs[0])
			pre = append(pre, define(c, u.X))
			comm = &ast.AssignStmt{Lhs: cs.Lhs, Tok: cs.Tok, Rhs: []ast.Expr{&ast.UnaryExpr{Op: token.ARROW, X: c}}}
		default:
			r.failure = fmt.Errorf("%s: unsupported select comm statement %T", r.pos(cc.Comm), cc.Comm)
			return sel
		}
		cases = append(cases, caseLit)
		body := append([]ast.Stmt{comm}, cc.Body...)
		clauses = append(clauses, &ast.CaseClause{
			List: []ast.Expr{&ast.BasicLit{Kind: token.INT, Value: strconv.Itoa(idx)}},
			Body: body,
		})
		idx++
	}
	def := "false"
	if hasDefault {
		def = "true"
	}
	args := append([]ast.Expr{ast.NewIdent(def)}, cases...)
	// keep the statement "terminating" when the original select was (all clauses return)
	clauses = append(clauses, &ast.CaseClause{Body: []ast.Stmt{&ast.ExprStmt{X: call(ast.NewIdent("panic"), &ast.BasicLit{Kind: token.STRING, Value: `"verif: unreachable select clause"`})}}})
	sw := &ast.SwitchStmt{Tag: call(r.sched("Select"), args...), Body: &ast.BlockStmt{List: clauses}}
	pre = append(pre, sw)
	return &ast.BlockStmt{List: pre}
}

func (r *rewriter) pos(n ast.Node) string { return r.fset.Position(n.Pos()).String() }

func (r *rewriter) rewriteFile(f *ast.File) bool {
	changed := false
	// imports
	for _, imp := range f.Imports {
		p, _ := strconv.Unquote(imp.Path.Value)
		if np, ok := importSwap[p]; ok {
			imp.Path.Value = strconv.Quote(np)
			if imp.Name == nil && p == "sync/atomic" {
				// package name of the shim is "atomic" as well: nothing to do
			}
			changed = true
		}
	}
	r.skip = map[ast.Node]bool{}
	pre := func(c *astutil.Cursor) bool {
		switch n := c.Node().(type) {
		case *ast.CommClause:
			if n.Comm != nil {
				r.skip[n.Comm] = true
				switch cs := n.Comm.(type) {
				case *ast.ExprStmt:
					if u := recvOf(cs.X); u != nil {
						r.skip[u] = true
					}
				case *ast.AssignStmt:
					if len(cs.Rhs) == 1 {
						if u := recvOf(cs.Rhs[0]); u != nil {
							r.skip[u] = true
						}
					}
				}
			}
		case *ast.LabeledStmt:
			if _, ok := n.Stmt.(*ast.SelectStmt); ok {
				r.failure = fmt.Errorf("%s: labelled select is not supported by the instrumenter", r.pos(n))
			}
			if _, ok := n.Stmt.(*ast.GoStmt); ok {
				r.failure = fmt.Errorf("%s: labelled go statement is not supported", r.pos(n))
			}
		case *ast.AssignStmt:
			if len(n.Lhs) == 2 && len(n.Rhs) == 1 {
				if u := recvOf(n.Rhs[0]); u != nil && !r.skip[u] {
					// v, ok := <-ch outside a select: mark for Recv2
					r.skip[u] = false
					recv2[u] = true
				}
			}
		case *ast.ValueSpec:
			if len(n.Names) == 2 && len(n.Values) == 1 {
				if u := recvOf(n.Values[0]); u != nil {
					recv2[u] = true
				}
			}
		case *ast.RangeStmt:
			// a range over a channel cannot be recognised syntactically; flag obvious names
			if id, ok := n.X.(*ast.Ident); ok && strings.HasSuffix(strings.ToLower(id.Name), "chan") {
				r.failure = fmt.Errorf("%s: range over what looks like a channel is not supported", r.pos(n))
			}
		}
		return true
	}
	post := func(c *astutil.Cursor) bool {
		n := c.Node()
		if n == nil || r.skip[n] {
			return true
		}
		switch v := n.(type) {
		case *ast.GoStmt:
			c.Replace(r.rewriteGo(v))
			changed = true
		case *ast.SendStmt:
			c.Replace(r.rewriteSend(v))
			changed = true
		case *ast.SelectStmt:
			c.Replace(r.rewriteSelect(v))
			changed = true
		case *ast.UnaryExpr:
			if v.Op == token.ARROW {
				name := "Recv"
				if recv2[v] {
					name = "Recv2"
				}
				c.Replace(call(r.sched(name), v.X))
				changed = true
			}
		case *ast.CallExpr:
			if id, ok := v.Fun.(*ast.Ident); ok && id.Name == "close" && len(v.Args) == 1 && id.Obj == nil {
				c.Replace(call(r.sched("Close"), v.Args[0]))
				changed = true
			}
			// len(ch)/cap(ch): recognised by the operand's name (no type information here); the
			// replacement works on any value with a length, so a false positive is harmless.
			if id, ok := v.Fun.(*ast.Ident); ok && (id.Name == "len" || id.Name == "cap") && len(v.Args) == 1 && id.Obj == nil {
				if chanLikeName(v.Args[0]) {
					name := "Len"
					if id.Name == "cap" {
						name = "Cap"
					}
					c.Replace(call(r.sched(name), v.Args[0]))
					changed = true
				}
			}
		}
		return true
	}
	astutil.Apply(f, pre, post)
	if r.used {
		astutil.AddNamedImport(r.fset, f, schedName, schedImport)
	}
	return changed
}

var recv2 = map[*ast.UnaryExpr]bool{}

func chanLikeName(e ast.Expr) bool {
	var name string
	switch v := e.(type) {
	case *ast.Ident:
		name = v.Name
	case *ast.SelectorExpr:
		name = v.Sel.Name
	default:
		return false
	}
	l := strings.ToLower(name)
	return strings.HasSuffix(l, "chan") || strings.HasSuffix(l, "workerpool") || l == "ch"
}

func main() {
	src := flag.String("src", "/repo", "module root to read")
	dst := flag.String("dst", "/repo", "module root the overlay keys refer to")
	out := flag.String("out", "", "directory for rewritten files")
	rt := flag.String("rt", "/verif/rt", "runtime sources (mapped to <dst>/verifrt)")
	inject := flag.String("inject", "/verif/inject", "accessor files (mapped into their packages as zz_verif_*.go)")
	overlayPath := flag.String("overlay", "", "overlay file to write")
	flag.Parse()
	if *out == "" || *overlayPath == "" {
		fmt.Fprintln(os.Stderr, "usage: vinstr -out DIR -overlay FILE [-src /repo]")
		os.Exit(3)
	}
	replace := map[string]string{}
	fset := token.NewFileSet()
	var files []string
	err := filepath.Walk(*src, func(p string, info os.FileInfo, err error) error {
		if err != nil {
			return err
		}
		rel, _ := filepath.Rel(*src, p)
		if info.IsDir() {
			base := filepath.Base(p)
			if rel != "." && (strings.HasPrefix(base, ".") || base == "examples" || base == "testdata" || base == "verifrt") {
				return filepath.SkipDir
			}
			return nil
		}
		if strings.HasSuffix(p, ".go") && !strings.HasSuffix(p, "_test.go") {
			files = append(files, rel)
		}
		return nil
	})
	if err != nil {
		fmt.Fprintln(os.Stderr, "vinstr:", err)
		os.Exit(3)
	}
	sort.Strings(files)
	nRewritten := 0
	for _, rel := range files {
		path := filepath.Join(*src, rel)
		f, err := parser.ParseFile(fset, path, nil, parser.ParseComments)
		if err != nil {
			fmt.Fprintln(os.Stderr, "vinstr: parse:", err)
			os.Exit(3)
		}
		hasDirective := false
		for _, cg := range f.Comments {
			for _, c := range cg.List {
				if strings.HasPrefix(c.Text, "//go:") || strings.HasPrefix(c.Text, "// +build") {
					hasDirective = true
				}
			}
		}
		if !hasDirective {
			f.Comments = nil // generated statements have no positions; floating comments would land inside them
		}
		r := &rewriter{fset: fset, file: rel}
		if !r.rewriteFile(f) {
			if *src != *dst {
				replace[filepath.Join(*dst, rel)] = path
			}
			continue
		}
		if r.failure != nil {
			fmt.Fprintln(os.Stderr, "vinstr: unsupported construct:", r.failure)
			os.Exit(3)
		}
		var buf bytes.Buffer
		if err := format.Node(&buf, fset, f); err != nil {
			fmt.Fprintln(os.Stderr, "vinstr: print:", rel, err)
			os.Exit(3)
		}
		o := filepath.Join(*out, rel)
		os.MkdirAll(filepath.Dir(o), 0o755)
		if err := os.WriteFile(o, buf.Bytes(), 0o644); err != nil {
			fmt.Fprintln(os.Stderr, "vinstr:", err)
			os.Exit(3)
		}
		replace[filepath.Join(*dst, rel)] = o
		nRewritten++
	}
	// runtime packages
	filepath.Walk(*rt, func(p string, info os.FileInfo, err error) error {
		if err == nil && !info.IsDir() && strings.HasSuffix(p, ".go") && !strings.HasSuffix(p, "_test.go") {
			rel, _ := filepath.Rel(*rt, p)
			replace[filepath.Join(*dst, "verifrt", rel)] = p
		}
		return nil
	})
	// accessor files
	filepath.Walk(*inject, func(p string, info os.FileInfo, err error) error {
		if err == nil && !info.IsDir() && strings.HasSuffix(p, ".go") {
			rel, _ := filepath.Rel(*inject, p)
			dir, base := filepath.Split(rel)
			if dir == "root/" {
				dir = ""
			}
			replace[filepath.Join(*dst, dir, "zz_verif_"+base)] = p
		}
		return nil
	})
	data, _ := json.MarshalIndent(map[string]any{"Replace": replace}, "", " ")
	if err := os.WriteFile(*overlayPath, data, 0o644); err != nil {
		fmt.Fprintln(os.Stderr, "vinstr:", err)
		os.Exit(3)
	}
	fmt.Fprintf(os.Stderr, "vinstr: %d files scanned, %d rewritten, overlay entries %d\n", len(files), nRewritten, len(replace))
}
