// Package fw is the check framework: a check plans work units, units run in worker
// processes (so that leaked goroutines and memory of abandoned executions are reclaimed by
// process exit), and the parent aggregates results into the evidence file, replay files and
// the VIOLATION / KNOWN-FINDING lines of the interface.
package fw

import (
	"bufio"
	"bytes"
	"context"
	"crypto/sha1"
	"encoding/hex"
	"encoding/json"
	"fmt"
	"os"
	"os/exec"
	"path/filepath"
	"runtime"
	"sort"
	"strings"
	"sync"
	"time"
)

// Unit is one piece of work, executed by one worker process.
type Unit struct {
	Check string          `json:"check"`
	Kind  string          `json:"kind"`
	Tier  string          `json:"tier"`
	Spec  json.RawMessage `json:"spec"`
}

// Violation is one failing case.
type Violation struct {
	Property  string `json:"property"`
	Harness   string `json:"harness"`
	Signature string `json:"signature"` // value-abstracted description, matched against known_findings.jsonl
	What      string `json:"what"`
	Case      any    `json:"case"` // everything needed to replay: inputs, choices
	Expected  any    `json:"expected,omitempty"`
	Observed  any    `json:"observed,omitempty"`
	Reproduced int   `json:"reproduced"`
	// Unit is the work unit that produced the violation; a replay re-runs exactly this unit.
	Unit *Unit `json:"unit,omitempty"`
}

// Result of one unit.
type Result struct {
	Evaluations int64          `json:"evaluations"` // executions / cases run on the implementation
	States      int64          `json:"states"`      // distinct DFS nodes or distinct enumerated cases
	Transitions int64          `json:"transitions"` // scheduler steps or engine operations applied
	Nontrivial  int64          `json:"nontrivial"`  // distinct cases that are non-trivial by the check's rule
	Outcomes    []string       `json:"outcomes,omitempty"` // hashes of distinct observation vectors (capped)
	Samples     []any          `json:"samples,omitempty"`
	Violations  []Violation    `json:"violations,omitempty"`
	Leftover    []Unit         `json:"leftover,omitempty"`
	Caps        []string       `json:"caps,omitempty"`
	Divergences int64          `json:"divergences,omitempty"`
	Skipped     int64          `json:"skipped,omitempty"`
	Extra       map[string]int64 `json:"extra,omitempty"`
	Err         string         `json:"err,omitempty"`
}

// Check is implemented by every property check.
type Check interface {
	ID() string
	// Plan returns the work units of a tier.
	Plan(tier string) []Unit
	// Run executes one unit inside a worker process.
	Run(u Unit) Result
	// Describe fills the static parts of the evidence.
	Describe(tier string) Description
}

type Description struct {
	Level       string   // evidence level
	Rule        string   // how cases are enumerated and what makes one non-trivial
	Bounds      any      // stated bounds
	Assumptions []string
}

var registry = map[string]Check{}

func Register(c Check) { registry[c.ID()] = c }
func Get(id string) Check { return registry[id] }
func IDs() []string {
	var ids []string
	for k := range registry {
		ids = append(ids, k)
	}
	sort.Strings(ids)
	return ids
}

func Spec(v any) json.RawMessage {
	b, err := json.Marshal(v)
	if err != nil {
		panic(err)
	}
	return b
}

func Hash(v any) string {
	b, _ := json.Marshal(v)
	h := sha1.Sum(b)
	return hex.EncodeToString(h[:8])
}

// ---- known findings ----

type Finding struct {
	Status    string `json:"status"` // known | fixed
	Property  string `json:"property"`
	Signature string `json:"signature"`
	What      string `json:"what"`
	Witness   any    `json:"witness,omitempty"`
	Commit    string `json:"commit,omitempty"`
}

func LoadFindings(path string) []Finding {
	f, err := os.Open(path)
	if err != nil {
		return nil
	}
	defer f.Close()
	var out []Finding
	sc := bufio.NewScanner(f)
	sc.Buffer(make([]byte, 1<<20), 1<<24)
	for sc.Scan() {
		line := strings.TrimSpace(sc.Text())
		if line == "" || strings.HasPrefix(line, "#") {
			continue
		}
		var fd Finding
		if json.Unmarshal([]byte(line), &fd) == nil {
			out = append(out, fd)
		}
	}
	return out
}

// ---- parent driver ----

type runOpts struct {
	Self    string
	Workers int
	Dir     string // /verif
	Seed    int64
}

// Drive runs all units of the check for the tier in worker processes and writes the evidence.
func Drive(c Check, tier string, verifDir string, deadline time.Duration) int {
	start := time.Now()
	self, _ := os.Executable()
	units := c.Plan(tier)
	workers := runtime.NumCPU()
	if workers > 16 {
		workers = 16
	}
	if v := os.Getenv("VERIF_WORKERS"); v != "" {
		fmt.Sscan(v, &workers)
	}
	var mu sync.Mutex
	queue := append([]Unit(nil), units...)
	inflight := 0
	total := Result{Extra: map[string]int64{}}
	outcomes := map[string]bool{}
	capsSet := map[string]bool{}
	planned := len(units)
	done := 0
	timedOut := false
	cond := sync.NewCond(&mu)
	var wg sync.WaitGroup
	for w := 0; w < workers; w++ {
		wg.Add(1)
		go func() {
			defer wg.Done()
			for {
				mu.Lock()
				for len(queue) == 0 && inflight > 0 {
					cond.Wait()
				}
				if len(queue) == 0 {
					mu.Unlock()
					cond.Broadcast()
					return
				}
				if deadline > 0 && time.Since(start) > deadline {
					timedOut = true
					total.Skipped += int64(len(queue))
					queue = nil
					mu.Unlock()
					cond.Broadcast()
					return
				}
				u := queue[len(queue)-1]
				queue = queue[:len(queue)-1]
				inflight++
				mu.Unlock()
				r := runWorker(self, u)
				mu.Lock()
				inflight--
				done++
				total.Evaluations += r.Evaluations
				total.States += r.States
				total.Transitions += r.Transitions
				total.Nontrivial += r.Nontrivial
				total.Divergences += r.Divergences
				total.Skipped += r.Skipped
				for k, v := range r.Extra {
					if strings.HasPrefix(k, "max_") || strings.HasPrefix(k, "long_") {
						if v > total.Extra[k] {
							total.Extra[k] = v
						}
						continue
					}
					total.Extra[k] += v
				}
				for _, o := range r.Outcomes {
					if len(outcomes) < 100000 {
						outcomes[o] = true
					}
				}
				for _, cp := range r.Caps {
					capsSet[cp] = true
				}
				if len(total.Samples) < 6 {
					for _, s := range r.Samples {
						if len(total.Samples) < 6 {
							total.Samples = append(total.Samples, s)
						}
					}
				}
				total.Violations = append(total.Violations, r.Violations...)
				if r.Err != "" {
					total.Err += r.Err + "\n"
				}
				queue = append(queue, r.Leftover...)
				planned += len(r.Leftover)
				mu.Unlock()
				cond.Broadcast()
			}
		}()
	}
	wg.Wait()
	if timedOut {
		capsSet[fmt.Sprintf("time cap %s reached: %d units not run", deadline, total.Skipped)] = true
	}
	return finishRun(c, tier, verifDir, &total, outcomes, capsSet, planned, time.Since(start))
}

// runWorker runs one unit in a worker process. A unit that exceeds its wall-clock limit, or whose worker
// dies (fatal error, stack overflow, out of memory), is run a second time with twice the limit; if that
// fails the same way the code under test hangs or crashes on this unit, which is reported as a violation
// (signature <check>|hang|... or <check>|worker-crash|...) with the unit as the replayable case.
func runWorker(self string, u Unit) Result {
	limit := 4 * time.Minute
	if u.Tier == "thorough" {
		limit = 20 * time.Minute
	}
	r, hung, crashed := runWorkerOnce(self, u, limit)
	if !hung && !crashed {
		return r
	}
	first := r.Err
	r2, hung2, crashed2 := runWorkerOnce(self, u, 2*limit)
	if !hung2 && !crashed2 {
		return r2 // load or a transient failure of the worker: the second run decides
	}
	uu := u
	kind := "hang"
	if crashed2 {
		kind = "worker-crash"
	}
	var out Result
	out.Violations = append(out.Violations, Violation{
		Property: u.Check, Harness: "worker", Signature: fmt.Sprintf("%s|%s|unit=%s", u.Check, kind, u.Kind),
		What: fmt.Sprintf("the unit did not complete twice (limits %s and %s): %s ;; second run: %s", limit, 2*limit, firstLineOf(first), firstLineOf(r2.Err)),
		Case: map[string]any{"unit_kind": u.Kind, "unit_spec": json.RawMessage(u.Spec)}, Reproduced: 2, Unit: &uu,
	})
	return out
}

func firstLineOf(s string) string {
	if len(s) > 1500 {
		s = s[:1500]
	}
	return strings.ReplaceAll(s, "\n", " | ")
}

func runWorkerOnce(self string, u Unit, limit time.Duration) (r Result, hung, crashed bool) {
	in, _ := json.Marshal(u)
	ctx, cancel := context.WithTimeout(context.Background(), limit)
	defer cancel()
	cmd := exec.CommandContext(ctx, self, "worker")
	cmd.Stdin = bytes.NewReader(in)
	var out, errb bytes.Buffer
	cmd.Stdout = &out
	cmd.Stderr = &errb
	cmd.Env = append(os.Environ(), "GOMAXPROCS=2", "GOGC=200")
	err := cmd.Run()
	var payload []byte
	if i := bytes.LastIndex(out.Bytes(), []byte("@@RESULT ")); i >= 0 {
		payload = out.Bytes()[i+len("@@RESULT "):]
	}
	if ctx.Err() != nil {
		r.Err = fmt.Sprintf("worker for unit %s/%s %s exceeded %s of wall clock and was killed (a hang in the code under test or a unit sized too large)", u.Check, u.Kind, string(u.Spec), limit)
		return r, true, false
	}
	if payload == nil || json.Unmarshal(bytes.TrimSpace(payload), &r) != nil {
		tail := errb.String()
		if len(tail) > 3000 {
			tail = tail[:1500] + " ... " + tail[len(tail)-1500:] // a Go fatal error names its cause in the first lines
		}
		r = Result{Err: fmt.Sprintf("worker for unit %s/%s failed: %v\nstderr: %s", u.Check, u.Kind, err, tail)}
		return r, false, true
	}
	return r, false, false
}

// WorkerMain is the entry point of a worker process.
func WorkerMain() {
	var u Unit
	dec := json.NewDecoder(os.Stdin)
	if err := dec.Decode(&u); err != nil {
		fmt.Fprintln(os.Stderr, "worker: bad unit:", err)
		os.Exit(3)
	}
	c := Get(u.Check)
	if c == nil {
		fmt.Fprintln(os.Stderr, "worker: unknown check", u.Check)
		os.Exit(3)
	}
	r := c.Run(u)
	for i := range r.Violations {
		if r.Violations[i].Unit == nil {
			uu := u
			r.Violations[i].Unit = &uu
		}
	}
	b, err := json.Marshal(r)
	if err != nil {
		// NaN/Inf or other unencodable values in a witness: stringify the witnesses
		for i := range r.Violations {
			v := &r.Violations[i]
			v.Case, v.Expected, v.Observed = fmt.Sprintf("%v", v.Case), fmt.Sprintf("%v", v.Expected), fmt.Sprintf("%v", v.Observed)
		}
		for i := range r.Samples {
			r.Samples[i] = fmt.Sprintf("%v", r.Samples[i])
		}
		b, err = json.Marshal(r)
		if err != nil {
			b, _ = json.Marshal(Result{Err: "result not encodable: " + err.Error()})
		}
	}
	fmt.Printf("\n@@RESULT %s\n", b)
}

func finishRun(c Check, tier, verifDir string, total *Result, outcomes map[string]bool, caps map[string]bool, units int, wall time.Duration) int {
	id := c.ID()
	d := c.Describe(tier)
	findings := LoadFindings(filepath.Join(verifDir, "known_findings.jsonl"))
	known := map[string]Finding{}
	for _, f := range findings {
		if f.Status == "known" && f.Property == id {
			known[f.Signature] = f
		}
	}
	exit := 0
	if total.Err != "" {
		fmt.Fprintln(os.Stderr, "INFRASTRUCTURE ERROR:\n"+total.Err)
		exit = 3
	}
	// group violations by signature
	bySig := map[string][]Violation{}
	var sigs []string
	for _, v := range total.Violations {
		if _, ok := bySig[v.Signature]; !ok {
			sigs = append(sigs, v.Signature)
		}
		bySig[v.Signature] = append(bySig[v.Signature], v)
	}
	sort.Strings(sigs)
	var knownHit []string
	nViol := 0
	os.MkdirAll(filepath.Join(verifDir, "replays"), 0o755)
	for _, sig := range sigs {
		vs := bySig[sig]
		if f, ok := known[sig]; ok {
			fmt.Printf("KNOWN-FINDING: property=%s %s [%s] (%d cases this run)\n", id, f.What, sig, len(vs))
			knownHit = append(knownHit, sig)
			continue
		}
		nViol++
		v := vs[0]
		b, _ := json.MarshalIndent(map[string]any{"property": id, "tier": tier, "violation": v, "cases_with_this_signature": len(vs)}, "", " ")
		path := filepath.Join(verifDir, "replays", fmt.Sprintf("%s-%s.json", id, Hash(sig)))
		os.WriteFile(path, b, 0o644)
		fmt.Printf("VIOLATION property=%s replay=%s\n", id, path)
		fmt.Printf("  signature: %s\n  what: %s\n", sig, v.What)
		exit1 := 1
		if exit < exit1 {
			exit = exit1
		}
	}
	var capList []string
	for k := range caps {
		capList = append(capList, k)
	}
	sort.Strings(capList)
	exhaustive := len(capList) == 0 && total.Divergences == 0 && total.Err == ""
	cov := map[string]any{
		"states":                        total.States,
		"transitions":                   total.Transitions,
		"traces_validated_against_impl": total.Evaluations,
		"evaluations":                   total.Evaluations,
		"distinct_nontrivial":           total.Nontrivial,
		"rule":                          d.Rule,
		"samples":                       total.Samples,
		"exhaustive":                    exhaustive,
		"bounds":                        d.Bounds,
		"distinct_outcomes":             len(outcomes),
		"caps_hit":                      capList,
		"work_units":                    units,
		"replay_divergences":            total.Divergences,
		"known_findings_hit":            knownHit,
		"extra":                         total.Extra,
	}
	if v := os.Getenv("VERIF_RACE_RUNS"); v != "" {
		cov["race_pass"] = map[string]any{"free_running_harness_runs": v, "data_races_reported": os.Getenv("VERIF_RACE_FOUND"), "note": "auxiliary evidence, not the deciding step: uninstrumented build under go -race"}
	}
	if len(total.Samples) == 0 {
		cov["samples"] = []any{"(no sample recorded)"}
	}
	seed := int64(0)
	fmt.Sscan(os.Getenv("VERIF_SEED"), &seed)
	ev := map[string]any{
		"property_id": id,
		"tier":        tier,
		"seed":        seed,
		"level":       d.Level,
		"coverage":    cov,
		"assumptions": d.Assumptions,
		"wall_s":      wall.Seconds(),
		"violations":  nViol,
	}
	b, _ := json.MarshalIndent(ev, "", " ")
	os.MkdirAll(filepath.Join(verifDir, "evidence"), 0o755)
	os.WriteFile(filepath.Join(verifDir, "evidence", id+".json"), b, 0o644)
	fmt.Printf("%s %s: evaluations=%d states=%d transitions=%d nontrivial=%d outcomes=%d units=%d exhaustive=%v known=%d violations=%d wall=%.1fs\n",
		id, tier, total.Evaluations, total.States, total.Transitions, total.Nontrivial, len(outcomes), units, exhaustive, len(knownHit), nViol, wall.Seconds())
	for _, cp := range capList {
		fmt.Println("  cap:", cp)
	}
	return exit
}
