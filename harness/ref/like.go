package ref

import (
	"regexp"
	"strings"
)

// Like is SQL LIKE: % = any (possibly empty) sequence, _ = exactly one character, everything
// else matches itself; the whole text must match.
func Like(text, pattern string) bool {
	var sb strings.Builder
	sb.WriteString(`(?s)\A`)
	for _, r := range pattern {
		switch r {
		case '%':
			sb.WriteString(`.*`)
		case '_':
			sb.WriteString(`.`)
		default:
			sb.WriteString(regexp.QuoteMeta(string(r)))
		}
	}
	sb.WriteString(`\z`)
	return regexp.MustCompile(sb.String()).MatchString(text)
}
