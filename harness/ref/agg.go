// Package ref holds the reference models: deliberately boring Go written from the property
// statements and the repository documentation, never from the implementation.
package ref

import (
	"math"
	"sort"
)

// Val is one input of an aggregate: a number, an explicit NULL or a missing field.
type Val struct {
	Present bool    // the field exists in the row
	Null    bool    // the field exists and is NULL
	F       float64 // numeric value when Present && !Null
}

func Num(f float64) Val { return Val{Present: true, F: f} }
func Null() Val        { return Val{Present: true, Null: true} }
func Missing() Val     { return Val{} }

func (v Val) Usable() bool { return v.Present && !v.Null }

// Usable returns the usable numbers in arrival order.
func Usable(vs []Val) []float64 {
	var out []float64
	for _, v := range vs {
		if v.Usable() {
			out = append(out, v.F)
		}
	}
	return out
}

func Sum(xs []float64) float64 {
	s := 0.0
	for _, x := range xs {
		s += x
	}
	return s
}

func Mean(xs []float64) float64 { return Sum(xs) / float64(len(xs)) }

func Min(xs []float64) float64 {
	m := xs[0]
	for _, x := range xs {
		if x < m {
			m = x
		}
	}
	return m
}

func Max(xs []float64) float64 {
	m := xs[0]
	for _, x := range xs {
		if x > m {
			m = x
		}
	}
	return m
}

// VarPop is the population variance (divide by n); VarSample divides by n-1.
func VarPop(xs []float64) float64 {
	m := Mean(xs)
	s := 0.0
	for _, x := range xs {
		s += (x - m) * (x - m)
	}
	return s / float64(len(xs))
}

func VarSample(xs []float64) float64 {
	m := Mean(xs)
	s := 0.0
	for _, x := range xs {
		s += (x - m) * (x - m)
	}
	return s / float64(len(xs)-1)
}

func StdPop(xs []float64) float64    { return math.Sqrt(VarPop(xs)) }
func StdSample(xs []float64) float64 { return math.Sqrt(VarSample(xs)) }

func Median(xs []float64) float64 {
	s := append([]float64(nil), xs...)
	sort.Float64s(s)
	n := len(s)
	if n%2 == 1 {
		return s[n/2]
	}
	return (s[n/2-1] + s[n/2]) / 2
}

// PercentileBracket returns the two order statistics any reasonable percentile definition
// must lie between (the documentation fixes no interpolation rule).
func PercentileBracket(xs []float64, p float64) (lo, hi float64) {
	s := append([]float64(nil), xs...)
	sort.Float64s(s)
	pos := p * float64(len(s)-1)
	return s[int(math.Floor(pos))], s[int(math.Ceil(pos))]
}

func Dedup(xs []float64) []float64 {
	seen := map[float64]bool{}
	var out []float64
	for _, x := range xs {
		if !seen[x] {
			seen[x] = true
			out = append(out, x)
		}
	}
	return out
}

// Close compares floats with a relative tolerance.
func Close(a, b float64) bool {
	if a == b {
		return true
	}
	d := math.Abs(a - b)
	m := math.Max(math.Abs(a), math.Abs(b))
	return d <= 1e-9*math.Max(m, 1)
}
