package ref

import "sort"

// Event is one input row of a windowed query (times in milliseconds of event time).
type Event struct {
	ID  int
	Key string
	TS  int64
	V   float64
}

// Accepted marks, in arrival order, the events that are not late on arrival: the timestamp
// is not older than the largest timestamp seen so far (itself included) minus ooo.
func Accepted(evs []Event, ooo int64) []bool {
	out := make([]bool, len(evs))
	maxTS := int64(-1 << 62)
	for i, e := range evs {
		if e.TS > maxTS {
			maxTS = e.TS
		}
		out[i] = e.TS >= maxTS-ooo
	}
	return out
}

// FinalWatermark is max(ts) - ooo over all events.
func FinalWatermark(evs []Event, ooo int64) int64 {
	maxTS := int64(-1 << 62)
	for _, e := range evs {
		if e.TS > maxTS {
			maxTS = e.TS
		}
	}
	return maxTS - ooo
}

// Interval is one expected window result.
type Interval struct {
	Key        string
	Start, End int64
	Must       []int // ids of accepted events inside: must be reported
	May        []int // ids of late-on-arrival events inside: may be reported
}

func floorDiv(a, b int64) int64 {
	q := a / b
	if a%b != 0 && (a < 0) != (b < 0) {
		q--
	}
	return q
}

// Tumbling returns the expected results: one per (key, size-aligned interval) that contains an
// accepted event and whose end the final watermark has reached.
func Tumbling(evs []Event, size, ooo int64) []Interval {
	acc := Accepted(evs, ooo)
	wm := FinalWatermark(evs, ooo)
	type kk struct {
		key string
		k   int64
	}
	m := map[kk]*Interval{}
	var order []kk
	for i, e := range evs {
		k := kk{e.Key, floorDiv(e.TS, size)}
		iv := m[k]
		if iv == nil {
			iv = &Interval{Key: e.Key, Start: k.k * size, End: (k.k + 1) * size}
			m[k] = iv
			order = append(order, k)
		}
		if acc[i] {
			iv.Must = append(iv.Must, e.ID)
		} else {
			iv.May = append(iv.May, e.ID)
		}
	}
	var out []Interval
	for _, k := range order {
		iv := m[k]
		if len(iv.Must) > 0 && iv.End <= wm {
			out = append(out, *iv)
		}
	}
	sort.Slice(out, func(i, j int) bool {
		if out[i].Start != out[j].Start {
			return out[i].Start < out[j].Start
		}
		return out[i].Key < out[j].Key
	})
	return out
}

// Sliding returns the expected results of a sliding window: intervals [s, s+size) with s a
// multiple of slide, not earlier than the slide-aligned start of the earliest accepted event,
// containing an accepted event, with end <= the final watermark; per key.
func Sliding(evs []Event, size, slide, ooo int64) []Interval {
	acc := Accepted(evs, ooo)
	wm := FinalWatermark(evs, ooo)
	minTS := int64(1 << 62)
	maxTS := int64(-1 << 62)
	any := false
	for i, e := range evs {
		if acc[i] {
			any = true
			if e.TS < minTS {
				minTS = e.TS
			}
		}
		if e.TS > maxTS {
			maxTS = e.TS
		}
	}
	if !any {
		return nil
	}
	keys := map[string]bool{}
	for _, e := range evs {
		keys[e.Key] = true
	}
	var out []Interval
	first := floorDiv(minTS, slide) * slide
	for s := first; s <= maxTS; s += slide {
		if s+size > wm {
			break
		}
		for key := range keys {
			iv := Interval{Key: key, Start: s, End: s + size}
			for i, e := range evs {
				if e.Key == key && e.TS >= s && e.TS < s+size {
					if acc[i] {
						iv.Must = append(iv.Must, e.ID)
					} else {
						iv.May = append(iv.May, e.ID)
					}
				}
			}
			if len(iv.Must) > 0 {
				out = append(out, iv)
			}
		}
	}
	sort.Slice(out, func(i, j int) bool {
		if out[i].Start != out[j].Start {
			return out[i].Start < out[j].Start
		}
		return out[i].Key < out[j].Key
	})
	return out
}
