package ref

import (
	"fmt"
	"strings"
)

// ---- pattern AST ----

type Pat interface{ String() string }

type PVar struct{ Name string }
type PSeq struct{ Items []Pat }
type PAlt struct{ Items []Pat }
type PRep struct {
	X        Pat
	Min, Max int // Max < 0: unbounded
}
type PPermute struct{ Items []Pat }

func (p PVar) String() string { return p.Name }
func (p PSeq) String() string {
	var s []string
	for _, x := range p.Items {
		s = append(s, wrap(x))
	}
	return strings.Join(s, " ")
}
func (p PAlt) String() string {
	var s []string
	for _, x := range p.Items {
		s = append(s, x.String())
	}
	return strings.Join(s, " | ")
}
func wrap(x Pat) string {
	switch x.(type) {
	case PAlt:
		return "(" + x.String() + ")"
	}
	return x.String()
}
func (p PRep) String() string {
	inner := p.X.String()
	if _, ok := p.X.(PVar); !ok {
		inner = "(" + inner + ")"
	}
	switch {
	case p.Min == 0 && p.Max == 1:
		return inner + "?"
	case p.Min == 0 && p.Max < 0:
		return inner + "*"
	case p.Min == 1 && p.Max < 0:
		return inner + "+"
	case p.Min == p.Max:
		return fmt.Sprintf("%s{%d}", inner, p.Min)
	case p.Max < 0:
		return fmt.Sprintf("%s{%d,}", inner, p.Min)
	}
	return fmt.Sprintf("%s{%d,%d}", inner, p.Min, p.Max)
}
func (p PPermute) String() string {
	var s []string
	for _, x := range p.Items {
		s = append(s, x.String())
	}
	return "PERMUTE(" + strings.Join(s, ", ") + ")"
}

// ---- DEFINE conditions ----

// MREvent is one event of a partition.
type MREvent struct {
	ID int
	V  float64
	TS int64 // event time (ms); only used with WITHIN
}

// DefCtx is what a DEFINE condition sees: the partition's events, the match start, the
// labels of the rows matched so far including the row under test (last element).
type DefCtx struct {
	Ev     []MREvent
	Start  int
	Labels []string // Labels[i] classifies Ev[Start+i]; the last one is the row under test
}

func (c DefCtx) Cur() MREvent { return c.Ev[c.Start+len(c.Labels)-1] }

// Prev returns the previous row of the match so far (false at the first row of the match).
func (c DefCtx) Prev() (MREvent, bool) {
	if len(c.Labels) < 2 {
		return MREvent{}, false
	}
	return c.Ev[c.Start+len(c.Labels)-2], true
}

// PrevN returns the row n positions before the row under test inside the match so far.
func (c DefCtx) PrevN(n int) (MREvent, bool) {
	if len(c.Labels) < n+1 {
		return MREvent{}, false
	}
	return c.Ev[c.Start+len(c.Labels)-1-n], true
}

// FirstOf returns the first row classified as name in the match so far.
func (c DefCtx) FirstOf(name string) (MREvent, bool) {
	for i, l := range c.Labels {
		if l == name {
			return c.Ev[c.Start+i], true
		}
	}
	return MREvent{}, false
}

// SumOf: the sum of V over the rows classified as name in the match so far, the row under test included.
func (c DefCtx) SumOf(name string) float64 {
	t := 0.0
	for i, l := range c.Labels {
		if l == name {
			t += c.Ev[c.Start+i].V
		}
	}
	return t
}

func (c DefCtx) CountOf(name string) int {
	n := 0
	for _, l := range c.Labels {
		if l == name {
			n++
		}
	}
	return n
}

type Define map[string]func(c DefCtx) bool

// ---- brute-force matcher ----

type mrState struct {
	pos    int
	labels []string
}

type matcher struct {
	ev  []MREvent
	def Define
	s   int
}

func (m *matcher) run(p Pat, st mrState, k func(mrState)) {
	switch x := p.(type) {
	case PVar:
		if st.pos >= len(m.ev) {
			return
		}
		labels := append(append([]string{}, st.labels...), x.Name)
		if cond, ok := m.def[x.Name]; ok && !cond(DefCtx{Ev: m.ev, Start: m.s, Labels: labels}) {
			return
		}
		k(mrState{st.pos + 1, labels})
	case PSeq:
		var rec func(i int, s mrState)
		rec = func(i int, s mrState) {
			if i == len(x.Items) {
				k(s)
				return
			}
			m.run(x.Items[i], s, func(n mrState) { rec(i+1, n) })
		}
		rec(0, st)
	case PAlt:
		for _, it := range x.Items {
			m.run(it, st, k)
		}
	case PRep:
		var rec func(n int, s mrState)
		rec = func(n int, s mrState) {
			if n >= x.Min {
				k(s)
			}
			if x.Max >= 0 && n >= x.Max {
				return
			}
			m.run(x.X, s, func(nx mrState) {
				if nx.pos == s.pos {
					return // an empty iteration cannot make progress
				}
				rec(n+1, nx)
			})
		}
		rec(0, st)
	case PPermute:
		perms(len(x.Items), func(order []int) {
			items := make([]Pat, len(order))
			for i, o := range order {
				items[i] = x.Items[o]
			}
			m.run(PSeq{items}, st, k)
		})
	}
}

func perms(n int, f func([]int)) {
	idx := make([]int, n)
	for i := range idx {
		idx[i] = i
	}
	var rec func(k int)
	rec = func(k int) {
		if k == n {
			f(append([]int{}, idx...))
			return
		}
		for i := k; i < n; i++ {
			idx[k], idx[i] = idx[i], idx[k]
			rec(k + 1)
			idx[k], idx[i] = idx[i], idx[k]
		}
	}
	rec(0)
}

// MatchesFrom returns, for start s, every valid (end, labeling): end is exclusive.
func MatchesFrom(p Pat, def Define, ev []MREvent, s int) map[int][][]string {
	m := &matcher{ev: ev, def: def, s: s}
	out := map[int][][]string{}
	m.run(p, mrState{pos: s}, func(st mrState) {
		if st.pos > s {
			out[st.pos] = append(out[st.pos], st.labels)
		}
	})
	return out
}

// MRMatch is one expected match: rows [Start, End) of the partition.
type MRMatch struct {
	Start, End int
	Labelings  [][]string // all valid labelings of that run
}

// Skip modes.
const (
	SkipPastLast = "PAST LAST ROW"
	SkipNextRow  = "TO NEXT ROW"
)

// ExpectedMatches: starts leftmost-first, longest match per start, then the AFTER MATCH SKIP
// rule. skip is SkipPastLast, SkipNextRow, "TO FIRST X" or "TO LAST X". defined=false when the
// skip target is ambiguous among the valid labelings or would not advance.
func ExpectedMatches(p Pat, def Define, ev []MREvent, skip string) (ms []MRMatch, defined bool) {
	return ExpectedMatchesWithin(p, def, ev, skip, 0)
}

// ExpectedMatchesWithin: as ExpectedMatches; with within > 0 a run is a valid match only if its last
// event is at most within ms after its first one.
func ExpectedMatchesWithin(p Pat, def Define, ev []MREvent, skip string, within int64) (ms []MRMatch, defined bool) {
	s := 0
	for s < len(ev) {
		all := MatchesFrom(p, def, ev, s)
		best := -1
		for e := range all {
			if within > 0 && ev[e-1].TS-ev[s].TS > within {
				continue
			}
			if e > best {
				best = e
			}
		}
		if best < 0 {
			s++
			continue
		}
		m := MRMatch{Start: s, End: best, Labelings: all[best]}
		ms = append(ms, m)
		switch {
		case skip == SkipPastLast:
			s = best
		case skip == SkipNextRow:
			s++
		default:
			f := strings.Fields(skip) // TO FIRST X / TO LAST X / TO X (= TO LAST X)
			if len(f) == 2 {
				f = []string{"TO", "LAST", f[1]}
			}
			target := -1
			for _, lab := range m.Labelings {
				t := -1
				for i, l := range lab {
					if l == f[2] {
						t = i
						if f[1] == "FIRST" {
							break
						}
					}
				}
				if t < 0 {
					return ms, false
				}
				if target >= 0 && target != t {
					return ms, false // ambiguous labeling
				}
				target = t
			}
			if target <= 0 {
				return ms, false // would not advance (the standard raises an error)
			}
			s = m.Start + target
		}
	}
	return ms, true
}

// LabelingValid reports whether labels is one of the valid labelings of the match.
func (m MRMatch) LabelingValid(labels []string) bool {
	for _, l := range m.Labelings {
		if strings.Join(l, ",") == strings.Join(labels, ",") {
			return true
		}
	}
	return false
}
