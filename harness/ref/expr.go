package ref

import (
	"fmt"
	"strconv"
	"strings"
)

// SQL value: nil = NULL, float64, string, bool. Unknown (three-valued logic) is represented
// as nil in boolean position.

type Node interface {
	SQL() string
	Eval(row map[string]any) (any, bool) // value, defined (false = the reference declines: mixed types, text arithmetic, ...)
}

type Col struct{ Name string }
type NumLit struct{ Text string }
type StrLit struct{ S string }
type Bin struct {
	Op   string // + - * / > >= < <= = != AND OR
	L, R Node
}
type Not struct{ X Node }
type Paren struct{ X Node }
type Case struct {
	Subject Node // nil for searched CASE
	Whens   []Node
	Thens   []Node
	Else    Node // may be nil
}

func (c Col) SQL() string    { return c.Name }
func (n NumLit) SQL() string { return n.Text }
func (s StrLit) SQL() string { return "'" + s.S + "'" }
func (b Bin) SQL() string    { return b.L.SQL() + " " + b.Op + " " + b.R.SQL() }
func (n Not) SQL() string    { return "NOT " + n.X.SQL() }
func (p Paren) SQL() string  { return "(" + p.X.SQL() + ")" }
func (c Case) SQL() string {
	var sb strings.Builder
	sb.WriteString("CASE")
	if c.Subject != nil {
		sb.WriteString(" " + c.Subject.SQL())
	}
	for i := range c.Whens {
		sb.WriteString(" WHEN " + c.Whens[i].SQL() + " THEN " + c.Thens[i].SQL())
	}
	if c.Else != nil {
		sb.WriteString(" ELSE " + c.Else.SQL())
	}
	sb.WriteString(" END")
	return sb.String()
}

// ToNum converts row values of any Go numeric type.
func ToNum(v any) (float64, bool) {
	switch x := v.(type) {
	case int:
		return float64(x), true
	case int32:
		return float64(x), true
	case int64:
		return float64(x), true
	case float32:
		return float64(x), true
	case float64:
		return x, true
	}
	return 0, false
}

func (c Col) Eval(row map[string]any) (any, bool) {
	v, ok := row[c.Name]
	if !ok || v == nil {
		return nil, true
	}
	if f, ok := ToNum(v); ok {
		return f, true
	}
	switch x := v.(type) {
	case string:
		return x, true
	case bool:
		return x, true
	}
	return nil, false
}

func (n NumLit) Eval(map[string]any) (any, bool) {
	f, err := strconv.ParseFloat(n.Text, 64)
	return f, err == nil
}
func (s StrLit) Eval(map[string]any) (any, bool) { return s.S, true }
func (p Paren) Eval(row map[string]any) (any, bool) { return p.X.Eval(row) }

func (n Not) Eval(row map[string]any) (any, bool) {
	v, ok := n.X.Eval(row)
	if !ok {
		return nil, false
	}
	if v == nil {
		return nil, true
	}
	b, isb := v.(bool)
	if !isb {
		return nil, false
	}
	return !b, true
}

func (b Bin) Eval(row map[string]any) (any, bool) {
	l, ok1 := b.L.Eval(row)
	r, ok2 := b.R.Eval(row)
	if !ok1 || !ok2 {
		return nil, false
	}
	switch b.Op {
	case "AND", "OR":
		lb, lok := l.(bool)
		rb, rok := r.(bool)
		if (l != nil && !lok) || (r != nil && !rok) {
			return nil, false
		}
		if b.Op == "AND" {
			if (l != nil && !lb) || (r != nil && !rb) {
				return false, true
			}
			if l == nil || r == nil {
				return nil, true
			}
			return true, true
		}
		if (l != nil && lb) || (r != nil && rb) {
			return true, true
		}
		if l == nil || r == nil {
			return nil, true
		}
		return false, true
	case "+", "-", "*", "/":
		if l == nil || r == nil {
			return nil, true
		}
		lf, lok := l.(float64)
		rf, rok := r.(float64)
		if !lok || !rok {
			return nil, false // text or boolean operands: outside "SQL semantics over float64"
		}
		switch b.Op {
		case "+":
			return lf + rf, true
		case "-":
			return lf - rf, true
		case "*":
			return lf * rf, true
		default:
			if rf == 0 {
				return nil, false // division by zero is excluded by the property
			}
			return lf / rf, true
		}
	default: // comparisons
		if l == nil || r == nil {
			return nil, true // UNKNOWN
		}
		lf, lnum := l.(float64)
		rf, rnum := r.(float64)
		ls, lstr := l.(string)
		rs, rstr := r.(string)
		var c int
		switch {
		case lnum && rnum:
			switch {
			case lf < rf:
				c = -1
			case lf > rf:
				c = 1
			}
		case lstr && rstr:
			c = strings.Compare(ls, rs)
		default:
			return nil, false // mixed types: not defined by the property
		}
		switch b.Op {
		case ">":
			return c > 0, true
		case ">=":
			return c >= 0, true
		case "<":
			return c < 0, true
		case "<=":
			return c <= 0, true
		case "=", "==":
			return c == 0, true
		case "!=", "<>":
			return c != 0, true
		}
	}
	return nil, false
}

func (c Case) Eval(row map[string]any) (any, bool) {
	for i := range c.Whens {
		var cond any
		var ok bool
		if c.Subject != nil {
			cond, ok = Bin{Op: "=", L: c.Subject, R: c.Whens[i]}.Eval(row)
		} else {
			cond, ok = c.Whens[i].Eval(row)
		}
		if !ok {
			return nil, false
		}
		if b, isb := cond.(bool); isb && b {
			return c.Thens[i].Eval(row)
		}
	}
	if c.Else != nil {
		return c.Else.Eval(row)
	}
	return nil, true
}

// Describe is used in signatures: the operator shape without data values.
func Shape(n Node) string {
	switch x := n.(type) {
	case Col:
		return "col"
	case NumLit:
		return "num"
	case StrLit:
		return "str"
	case Paren:
		return "(" + Shape(x.X) + ")"
	case Not:
		return "NOT " + Shape(x.X)
	case Bin:
		op := x.Op
		switch op {
		case ">", ">=", "<", "<=", "=", "!=", "<>", "==":
			op = "cmp"
		case "+", "-":
			op = "add"
		case "*", "/":
			op = "mul"
		}
		return Shape(x.L) + " " + op + " " + Shape(x.R)
	case Case:
		if x.Subject != nil {
			return fmt.Sprintf("CASE-simple(%d)", len(x.Whens))
		}
		e := ""
		if x.Else == nil {
			e = "-noelse"
		}
		return fmt.Sprintf("CASE-searched(%d)%s", len(x.Whens), e)
	}
	return "?"
}
