// vcheck is the single harness binary: `vcheck run <id> <tier>`, `vcheck worker`, `vcheck replay <file>`.
package main

import (
	"encoding/json"
	"fmt"
	"os"
	"time"

	"verifharness/checks"
	"verifharness/fw"
)

func main() {
	if len(os.Args) < 2 {
		fmt.Fprintln(os.Stderr, "usage: vcheck run <id> <quick|thorough> | worker | replay <file> | list")
		os.Exit(3)
	}
	verifDir := os.Getenv("VERIF_DIR")
	if verifDir == "" {
		verifDir = "/verif"
	}
	switch os.Args[1] {
	case "worker":
		fw.WorkerMain()
	case "probe":
		// vcheck probe '<sql>' '<json array of rows>' [eager]
		fmt.Println(checks.Probe(os.Args[2], os.Args[3], len(os.Args) > 4))
	case "list":
		for _, id := range fw.IDs() {
			fmt.Println(id)
		}
	case "run":
		if len(os.Args) < 4 {
			fmt.Fprintln(os.Stderr, "usage: vcheck run <id> <tier>")
			os.Exit(3)
		}
		c := fw.Get(os.Args[2])
		if c == nil {
			fmt.Fprintln(os.Stderr, "unknown check", os.Args[2])
			os.Exit(3)
		}
		tier := os.Args[3]
		deadline := 150 * time.Second
		if tier == "thorough" {
			deadline = 12 * time.Minute
		}
		if v := os.Getenv("VERIF_DEADLINE_S"); v != "" {
			var s int
			fmt.Sscan(v, &s)
			deadline = time.Duration(s) * time.Second
		}
		os.Exit(fw.Drive(c, tier, verifDir, deadline))
	case "replay":
		b, err := os.ReadFile(os.Args[2])
		if err != nil {
			fmt.Fprintln(os.Stderr, err)
			os.Exit(3)
		}
		var doc struct {
			Property  string       `json:"property"`
			Violation fw.Violation `json:"violation"`
		}
		if err := json.Unmarshal(b, &doc); err != nil {
			fmt.Fprintln(os.Stderr, err)
			os.Exit(3)
		}
		out, failed := checks.Replay(doc.Property, doc.Violation)
		fmt.Println(out)
		if failed {
			fmt.Printf("VIOLATION property=%s replay=%s\n", doc.Property, os.Args[2])
			os.Exit(1)
		}
	default:
		fmt.Fprintln(os.Stderr, "unknown command", os.Args[1])
		os.Exit(3)
	}
}
