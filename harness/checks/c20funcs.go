package checks

import (
	"fmt"
	"sort"
	"strings"

	"verifharness/fw"

	"github.com/rulego/streamsql"
	"github.com/rulego/streamsql/functions"
	"github.com/rulego/streamsql/logger"
	"github.com/rulego/streamsql/verifrt/sched"
	vtime "github.com/rulego/streamsql/verifrt/time"
)

// c20Functions: every registered function applied to columns that hold the caller's own slices and maps. Whatever
// the function computes (C06 decides that), the slices and maps reachable from the caller's row must read the same
// afterwards. Scalar functions: SELECT f(a1[,a2[,a3]]) over all tuples of 6 container/scalar arguments through
// EmitSync and Emit; aggregate functions: f(col) over CountingWindow(2); analytic functions: SELECT f(col).

type c20Arg struct {
	Name string
	V    any
}

func c20Args() []c20Arg {
	return []c20Arg{
		{"[]any{3,1,3,2,1,4}", []any{3, 1, 3, 2, 1, 4}},
		{"[]any{b,a,b,c}", []any{"b", "a", "b", "c"}},
		{"map", map[string]any{"k": 1, "b": "x", "in": map[string]any{"y": []any{2, 1}}}},
		{"[]any{{p:2},{p:1},{p:2}}", []any{map[string]any{"p": 2}, map[string]any{"p": 1}, map[string]any{"p": 2}}},
		{"2", 2},
		{"'b'", "b"},
	}
}

func c20FunctionList(types ...functions.FunctionType) []functions.Function {
	var out []functions.Function
	for _, f := range functions.ListAll() {
		for _, t := range types {
			if f.GetType() == t {
				out = append(out, f)
			}
		}
	}
	sort.Slice(out, func(i, j int) bool { return out[i].GetName() < out[j].GetName() })
	return out
}

func c20Functions(u fw.Unit) fw.Result {
	sp := parseEnum(u)
	a := newAcc("C20", "immutability-functions")
	args := c20Args()
	run := func(sql, mode string, rows []Row, fname string, descs []string) {
		var before []string
		for _, r := range rows {
			before = append(before, js(r))
		}
		var execErr string
		st, pv := inSched(func() {
			s := streamsql.New(streamsql.WithLogger(logger.NewDiscardLogger()))
			if err := s.Execute(sql); err != nil {
				execErr = err.Error()
				return
			}
			s.AddSyncSink(func([]map[string]any) {})
			for _, r := range rows {
				func() {
					defer func() { recover() }() // totality is C06's subject
					if mode == "emitsync" {
						s.EmitSync(r)
					} else {
						s.Emit(r)
					}
				}()
			}
			sched.Quiesce()
			vtime.Sleep(50 * vtime.Millisecond)
			sched.Quiesce()
			s.Stop()
		})
		if execErr != "" {
			a.r.Skipped += int64(len(rows)) // arity / argument kinds the function's validator refuses
			return
		}
		a.r.Evaluations += int64(len(rows))
		a.r.States += int64(len(rows))
		a.r.Transitions += int64(len(rows))
		cs := map[string]any{"sql": sql, "api": mode}
		if st != sched.StatusOK {
			a.fail("C20|immutability|exec|function="+fname, st.String()+" "+firstLine(pv), cs, nil, nil)
			return
		}
		for i, r := range rows {
			a.r.Nontrivial++
			if after := js(r); after != before[i] {
				a.fail(fmt.Sprintf("C20|input-mutated|function=%s|api=%s", fname, mode), fmt.Sprintf("%s via %s with arguments (%s): the caller's row was %s before and is %s after", sql, mode, descs[i], before[i], after),
					map[string]any{"sql": sql, "api": mode, "args": descs[i]}, before[i], after)
				return
			}
		}
		a.outcome(fname + mode)
	}
	scalars := c20FunctionList(functions.TypeMath, functions.TypeString, functions.TypeConversion, functions.TypeDateTime, functions.TypeCustom)
	for fi, f := range scalars {
		if fi%sp.Shards != sp.Shard {
			continue
		}
		name := f.GetName()
		minA, maxA := f.GetMinArgs(), f.GetMaxArgs()
		if minA < 1 {
			minA = 1
		}
		if maxA < 0 || maxA > 3 {
			maxA = 3
		}
		for arity := minA; arity <= maxA; arity++ {
			if arity == 3 && u.Tier == "quick" && f.GetMinArgs() < 3 && f.GetMaxArgs() >= 0 {
				continue
			}
			cols := []string{"a1", "a2", "a3"}[:arity]
			sql := fmt.Sprintf("SELECT %s(%s) AS r FROM stream", name, strings.Join(cols, ", "))
			for _, mode := range []string{"emitsync", "emit"} {
				var rows []Row
				var descs []string
				sequences(arity, len(args), func(ix []int) {
					row := Row{}
					var d []string
					for i, x := range ix {
						row[cols[i]] = copyVal(args[x].V)
						d = append(d, args[x].Name)
					}
					rows = append(rows, row)
					descs = append(descs, strings.Join(d, ", "))
				})
				run(sql, mode, rows, name, descs)
			}
		}
	}
	if sp.Shard == 0 {
		for _, f := range c20FunctionList(functions.TypeAggregation, functions.TypeAnalytical, functions.TypeWindow) {
			name := f.GetName()
			for _, form := range []string{"%s(a1)", "%s(a1, 1)", "%s(a1, a2)"} {
				call := fmt.Sprintf(form, name)
				sqls := []string{"SELECT " + call + " AS r FROM stream GROUP BY CountingWindow(2)", "SELECT " + call + " AS r FROM stream"}
				for _, sql := range sqls {
					var rows []Row
					var descs []string
					for i := 0; i < 4; i++ { // containers only; each twice so that a window of two rows sees equal and different inputs
						for rep := 0; rep < 2; rep++ {
							rows = append(rows, Row{"a1": copyVal(args[i].V), "a2": copyVal(args[(i+1)%4].V)})
							descs = append(descs, args[i].Name+", "+args[(i+1)%4].Name)
						}
					}
					run(sql, "emit", rows, name, descs)
				}
			}
		}
	}
	a.sample(map[string]any{"scalar_functions": len(scalars), "arguments": []string{args[0].Name, args[1].Name, args[2].Name, args[3].Name, args[4].Name, args[5].Name}})
	return a.result()
}
