package checks

import (
	"fmt"
	"strings"

	"verifharness/fw"
	"verifharness/ref"

	"github.com/rulego/streamsql/verifrt/sched"
)

// C13: LIKE and IS [NOT] NULL have SQL semantics on every evaluation path.

var c13Chars = []string{"%", "_", "a", "b", "."}

func c13Strings(maxLen int) []string {
	out := []string{""}
	var rec func(prefix string, n int)
	rec = func(prefix string, n int) {
		if n == 0 {
			return
		}
		for _, c := range c13Chars {
			s := prefix + c
			out = append(out, s)
			rec(s, n-1)
		}
	}
	rec("", maxLen)
	return out
}

var c13Contexts = []string{"where", "case", "select", "having"}

func c13SQL(ctx, pattern string) string {
	switch ctx {
	case "where":
		return fmt.Sprintf("SELECT s FROM stream WHERE s LIKE '%s'", pattern)
	case "case":
		return fmt.Sprintf("SELECT CASE WHEN s LIKE '%s' THEN 1 ELSE 0 END AS r FROM stream", pattern)
	case "select":
		return fmt.Sprintf("SELECT s LIKE '%s' AS r FROM stream", pattern)
	case "having":
		return fmt.Sprintf("SELECT id, first_value(s) AS f FROM stream GROUP BY id, CountingWindow(1) HAVING f LIKE '%s'", pattern)
	}
	return ""
}

func truthy(v any) (bool, bool) {
	switch x := v.(type) {
	case bool:
		return x, true
	case nil:
		return false, false
	default:
		if f, ok := num(x); ok {
			return f != 0, true
		}
	}
	return false, false
}

type c13 struct{}

func (c13) ID() string { return "C13" }

type c13Spec struct {
	Ctx    string `json:"ctx"`
	Shard  int    `json:"shard"`
	Shards int    `json:"shards"`
	MaxLen int    `json:"max_len"`
	// Case: the alphabet {%,_,a,A,.}: patterns and texts that differ only in the case of a letter, all evaluated in
	// one process in sequence (the rewriting caches are process-wide)
	Case bool `json:"letter_case,omitempty"`
	// Nested: the LIKE operand is the nested path d.s (every row carries its text there as well)
	Nested bool `json:"nested_operand,omitempty"`
}

func (c13) Plan(tier string) []fw.Unit {
	maxLen := 3
	shards := 4
	if tier == "thorough" {
		maxLen, shards = 4, 16
	}
	var us []fw.Unit
	for _, ctx := range c13Contexts {
		ml, sh := maxLen, shards
		if tier == "quick" && (ctx == "where" || ctx == "case") {
			ml, sh = 4, 16 // a false start after '%' needs a literal of two characters: pattern and text of length 4
		}
		for s := 0; s < sh; s++ {
			us = append(us, fw.Unit{Check: "C13", Kind: "like", Tier: tier, Spec: fw.Spec(c13Spec{Ctx: ctx, Shard: s, Shards: sh, MaxLen: ml})})
		}
	}
	for _, ctx := range c13Contexts {
		us = append(us, fw.Unit{Check: "C13", Kind: "like", Tier: tier, Spec: fw.Spec(c13Spec{Ctx: ctx, Shard: 0, Shards: 1, MaxLen: 3, Case: true})})
	}
	for _, ctx := range []string{"where", "case", "select"} {
		for s := 0; s < 2; s++ {
			us = append(us, fw.Unit{Check: "C13", Kind: "like", Tier: tier, Spec: fw.Spec(c13Spec{Ctx: ctx, Shard: s, Shards: 2, MaxLen: 3, Nested: true})})
		}
	}
	us = append(us, fw.Unit{Check: "C13", Kind: "null", Tier: tier, Spec: fw.Spec(c13Spec{})})
	return us
}

// c13Shape abstracts a failing (pattern,text) pair.
func c13Shape(pattern, text string) string {
	var f []string
	if strings.ContainsAny(text, "%_") {
		f = append(f, "text-contains-wildcard-char")
	}
	if strings.Contains(pattern, "%%") {
		f = append(f, "pattern-has-%%")
	}
	if pattern == "" {
		f = append(f, "empty-pattern")
	}
	if text == "" {
		f = append(f, "empty-text")
	}
	if strings.Contains(pattern, ".") && !strings.Contains(text, ".") {
		f = append(f, "dot-in-pattern")
	}
	if len(f) == 0 {
		return "plain"
	}
	return strings.Join(f, "+")
}

func (c13) Run(u fw.Unit) fw.Result {
	var sp c13Spec
	remarshalRaw(u.Spec, &sp)
	a := newAcc("C13", "like-"+sp.Ctx)
	if u.Kind == "null" {
		c13Null(a)
		return a.result()
	}
	if sp.Case {
		c13Chars = []string{"%", "_", "a", "A", "."} // one unit per worker process: the package-level alphabet is this unit's
	}
	strs := c13Strings(sp.MaxLen)
	rows := make([]Row, len(strs))
	for i, t := range strs {
		rows[i] = Row{"s": t, "id": i, "d": map[string]any{"s": t, "x": "other"}}
	}
	// two more rows without a text: s NULL and s missing - no pattern matches them (a NULL answer counts as not true)
	nText := len(strs)
	rows = append(rows, Row{"s": nil, "id": nText, "d": map[string]any{"s": nil}}, Row{"id": nText + 1})
	for pi, p := range strs {
		if pi%sp.Shards != sp.Shard {
			continue
		}
		sql := c13SQL(sp.Ctx, p)
		if sp.Nested {
			sql = strings.Replace(sql, "s LIKE", "d.s LIKE", 1)
		}
		decisions := make([]int, len(rows)) // 1 true, 0 false, -1 unknown
		if sp.Ctx == "having" {
			r := detExec(sql, detOpts{Eager: true}, func(e *Env) {
				for _, row := range rows {
					e.Emit(row)
				}
			})
			a.r.Transitions += int64(r.Steps)
			if r.ExecErr != "" || r.Status != sched.StatusOK {
				a.fail("C13|having|exec", r.ExecErr+" "+r.Status.String()+" "+firstLine(r.Panic), map[string]any{"sql": sql}, nil, nil)
				continue
			}
			for _, b := range r.Batches {
				for _, row := range b {
					decisions[toInt(row["id"])] = 1
				}
			}
		} else {
			res, execErr, st, pv := syncEval(sql, rows)
			if execErr != "" || st != sched.StatusOK {
				a.fail("C13|"+sp.Ctx+"|exec", execErr+" "+st.String()+" "+firstLine(pv), map[string]any{"sql": sql}, nil, nil)
				continue
			}
			for i, sr := range res {
				if strings.HasPrefix(sr.Err, "PANIC") {
					a.fail("C13|"+sp.Ctx+"|panic", sr.Err, map[string]any{"sql": sql, "row": js(rows[i])}, nil, nil)
					decisions[i] = -1
					continue
				}
				switch sp.Ctx {
				case "where":
					if sr.Row != nil {
						decisions[i] = 1
					}
				default:
					if sr.Row == nil {
						decisions[i] = -1
						continue
					}
					t, ok := truthy(sr.Row["r"])
					if !ok {
						decisions[i] = -1
					} else if t {
						decisions[i] = 1
					}
				}
			}
		}
		for i := nText; i < len(rows); i++ {
			a.r.Evaluations++
			a.r.States++
			if decisions[i] == 1 {
				a.fail(fmt.Sprintf("C13|like|%s|null-text-matches", sp.Ctx), fmt.Sprintf("s LIKE '%s' is true in %s context for a row whose s is %s", p, sp.Ctx, map[bool]string{true: "NULL", false: "missing"}[i == nText]),
					map[string]any{"sql": sql, "pattern": p, "context": sp.Ctx, "row": js(rows[i])}, false, true)
			}
		}
		for i, t := range strs {
			a.r.Evaluations++
			a.r.States++
			want := ref.Like(t, p)
			if want {
				a.r.Nontrivial++
			}
			got := decisions[i]
			if got == -1 {
				a.fail("C13|"+sp.Ctx+"|no-boolean", fmt.Sprintf("'%s' LIKE '%s' produced no boolean result", t, p), map[string]any{"sql": sql, "text": t, "pattern": p}, want, nil)
				continue
			}
			if (got == 1) != want {
				a.fail(fmt.Sprintf("C13|like|%s|%s|engine-says-%v", sp.Ctx, c13Shape(p, t), got == 1),
					fmt.Sprintf("'%s' LIKE '%s' is %v in %s context, SQL semantics (regexp reference) says %v", t, p, got == 1, sp.Ctx, want),
					map[string]any{"sql": sql, "text": t, "pattern": p, "context": sp.Ctx}, want, got == 1)
			}
		}
		a.outcome(fmt.Sprint(p, decisions))
		if pi == 40 {
			a.sample(map[string]any{"sql": sql, "texts": len(strs), "matching_texts": countOnes(decisions)})
		}
	}
	return a.result()
}

func countOnes(d []int) int {
	n := 0
	for _, x := range d {
		if x == 1 {
			n++
		}
	}
	return n
}

// c13Null: IS NULL / IS NOT NULL over present, NULL and missing columns in every context.
func c13Null(a *acc) {
	type rv struct {
		name string
		row  Row
		null bool // s is absent or NULL
		dx   bool // d.x is absent or NULL
		deep bool // p.q.r is absent or NULL (root, middle link or leaf)
	}
	rowsV := []rv{
		{"s='a',d.x=1,p.q.r=1", Row{"s": "a", "d": map[string]any{"x": 1}, "p": map[string]any{"q": map[string]any{"r": 1}}}, false, false, false},
		{"s='',d.x=0,p.q.r=NULL", Row{"s": "", "d": map[string]any{"x": 0}, "p": map[string]any{"q": map[string]any{"r": nil}}}, false, false, true},
		{"s=0,p.q=NULL", Row{"s": 0, "d": map[string]any{}, "p": map[string]any{"q": nil}}, false, true, true},
		{"s=false,d.x=NULL,p.q missing", Row{"s": false, "d": map[string]any{"x": nil}, "p": map[string]any{"other": 1}}, false, true, true},
		{"s=NULL,d=NULL,p=NULL", Row{"s": nil, "d": nil, "p": nil}, true, true, true},
		{"s missing,d missing,p missing", Row{"other": 1}, true, true, true},
		{"p.q.r missing", Row{"s": "b", "d": map[string]any{"x": 2}, "p": map[string]any{"q": map[string]any{}}}, false, false, true},
	}
	var rows []Row
	for i, r := range rowsV {
		r.row["id"] = i
		rows = append(rows, r.row)
	}
	type q struct {
		name, sql string
		expect    func(r rv) (wantTrue bool)
		mode      string // where | col
		col       string
	}
	qs := []q{
		{"where-is-null", "SELECT id FROM stream WHERE s IS NULL", func(r rv) bool { return r.null }, "where", ""},
		{"where-is-not-null", "SELECT id FROM stream WHERE s IS NOT NULL", func(r rv) bool { return !r.null }, "where", ""},
		{"where-nested-is-null", "SELECT id FROM stream WHERE d.x IS NULL", func(r rv) bool { return r.dx }, "where", ""},
		{"where-nested-is-not-null", "SELECT id FROM stream WHERE d.x IS NOT NULL", func(r rv) bool { return !r.dx }, "where", ""},
		{"select-is-null", "SELECT s IS NULL AS n FROM stream", func(r rv) bool { return r.null }, "col", "n"},
		{"select-is-not-null", "SELECT s IS NOT NULL AS n FROM stream", func(r rv) bool { return !r.null }, "col", "n"},
		{"case-is-null", "SELECT CASE WHEN s IS NULL THEN 1 ELSE 0 END AS n FROM stream", func(r rv) bool { return r.null }, "col", "n"},
		{"case-is-not-null", "SELECT CASE WHEN s IS NOT NULL THEN 1 ELSE 0 END AS n FROM stream", func(r rv) bool { return !r.null }, "col", "n"},
		{"where-deep-is-null", "SELECT id FROM stream WHERE p.q.r IS NULL", func(r rv) bool { return r.deep }, "where", ""},
		{"where-deep-is-not-null", "SELECT id FROM stream WHERE p.q.r IS NOT NULL", func(r rv) bool { return !r.deep }, "where", ""},
		{"case-deep-is-null", "SELECT CASE WHEN p.q.r IS NULL THEN 1 ELSE 0 END AS n FROM stream", func(r rv) bool { return r.deep }, "col", "n"},
		{"where-deep-or", "SELECT id FROM stream WHERE p.q.r IS NULL OR d.x IS NULL", func(r rv) bool { return r.deep || r.dx }, "where", ""},
		{"where-and", "SELECT id FROM stream WHERE s IS NOT NULL AND d.x IS NULL", func(r rv) bool { return !r.null && r.dx }, "where", ""},
	}
	// the same statements with the predicate keywords in lower and mixed case
	for _, qq := range qs[:len(qs):len(qs)] {
		lo := qq
		lo.name += "-lower-case"
		lo.sql = strings.ReplaceAll(strings.ReplaceAll(qq.sql, " IS NOT NULL", " is not null"), " IS NULL", " is null")
		mi := qq
		mi.name += "-mixed-case"
		mi.sql = strings.ReplaceAll(strings.ReplaceAll(qq.sql, " IS NOT NULL", " Is not Null"), " IS NULL", " iS nULL")
		qs = append(qs, lo, mi)
	}
	for _, qq := range qs {
		res, execErr, st, pv := syncEval(qq.sql, rows)
		if execErr != "" || st != sched.StatusOK {
			a.fail("C13|null|"+qq.name+"|exec", execErr+" "+st.String()+" "+firstLine(pv), map[string]any{"sql": qq.sql}, nil, nil)
			continue
		}
		for i, sr := range res {
			a.r.Evaluations++
			a.r.States++
			a.r.Nontrivial++
			want := qq.expect(rowsV[i])
			var got, ok bool
			if qq.mode == "where" {
				got, ok = sr.Row != nil, true
			} else if sr.Row != nil {
				got, ok = truthy(sr.Row[qq.col])
			}
			a.outcome(fmt.Sprint(qq.name, i, got, ok))
			if !ok || got != want {
				a.fail(fmt.Sprintf("C13|null|%s|row=%s", qq.name, rowsV[i].name), fmt.Sprintf("%s on row %s: engine %v (boolean=%v), SQL semantics %v; result %s err %q", qq.sql, rowsV[i].name, got, ok, want, js(sr.Row), sr.Err),
					map[string]any{"sql": qq.sql, "row": rowsV[i].name}, want, got)
			}
		}
	}
	// HAVING f IS [NOT] NULL over first_value of present / NULL values
	for _, neg := range []bool{false, true} {
		pred := "f IS NULL"
		if neg {
			pred = "f IS NOT NULL"
		}
		sql := "SELECT id, first_value(s) AS f FROM stream GROUP BY id, CountingWindow(1) HAVING " + pred
		r := detExec(sql, detOpts{Eager: true}, func(e *Env) {
			for _, row := range rows {
				e.Emit(row)
			}
		})
		if r.ExecErr != "" || r.Status != sched.StatusOK {
			a.fail("C13|null|having|exec", r.ExecErr+" "+r.Status.String(), map[string]any{"sql": sql}, nil, nil)
			continue
		}
		passed := map[int]bool{}
		for _, b := range r.Batches {
			for _, row := range b {
				passed[toInt(row["id"])] = true
			}
		}
		for i, rr := range rowsV {
			a.r.Evaluations++
			a.r.States++
			a.r.Nontrivial++
			want := rr.null != neg
			if passed[i] != want {
				a.fail(fmt.Sprintf("C13|null|having-%v|row=%s", pred, rr.name), fmt.Sprintf("%s on group with first_value(s) from row %s: kept=%v, SQL semantics %v", sql, rr.name, passed[i], want), map[string]any{"sql": sql, "row": rr.name}, want, passed[i])
			}
		}
	}
	// LIKE and IS [NOT] NULL combined in one predicate (each rewrite must survive the other), in WHERE and in HAVING
	type crow struct {
		s any
		t any
	}
	var crows []crow
	for _, sv := range []any{"ab", "b", "a", nil} {
		for _, tv := range []any{1, nil} {
			crows = append(crows, crow{sv, tv})
		}
	}
	like := func(v any, p string) bool { x, ok := v.(string); return ok && ref.Like(x, p) }
	combos := []struct {
		pred string
		want func(c crow) bool
	}{
		{"%s LIKE 'a%%' AND %s IS NOT NULL", func(c crow) bool { return like(c.s, "a%") && c.t != nil }},
		{"%s LIKE 'a%%' OR %s IS NULL", func(c crow) bool { return like(c.s, "a%") || c.t == nil }},
		{"%[2]s IS NULL AND %[1]s LIKE '%%b'", func(c crow) bool { return c.t == nil && like(c.s, "%b") }},
		{"%[2]s IS NOT NULL AND %[1]s LIKE '_' AND %[1]s IS NOT NULL", func(c crow) bool { return c.t != nil && like(c.s, "_") && c.s != nil }},
	}
	for _, cb := range combos {
		for _, ctx := range []string{"where", "having"} {
			sql := "SELECT id FROM stream WHERE " + fmt.Sprintf(cb.pred, "s", "t")
			if ctx == "having" {
				sql = "SELECT id, first_value(s) AS f, first_value(t) AS g FROM stream GROUP BY id, CountingWindow(1) HAVING " + fmt.Sprintf(cb.pred, "f", "g")
			}
			r := detExec(sql, detOpts{Eager: true}, func(e *Env) {
				for i, c := range crows {
					row := Row{"id": i, "s": c.s}
					if c.t != nil {
						row["t"] = c.t
					}
					e.Emit(row)
				}
			})
			if r.ExecErr != "" || r.Status != sched.StatusOK {
				a.fail("C13|combined|"+ctx+"|exec", r.ExecErr+" "+r.Status.String(), map[string]any{"sql": sql}, nil, nil)
				continue
			}
			passed := map[int]bool{}
			for _, b := range r.Batches {
				for _, row := range b {
					passed[toInt(row["id"])] = true
				}
			}
			for i, c := range crows {
				a.r.Evaluations++
				a.r.States++
				if cb.want(c) {
					a.r.Nontrivial++
				}
				if passed[i] != cb.want(c) {
					a.fail("C13|combined|"+ctx+"|like-with-is-null", fmt.Sprintf("%s on s=%v t=%v: kept=%v, SQL semantics %v", sql, c.s, c.t, passed[i], cb.want(c)), map[string]any{"sql": sql, "s": c.s, "t": c.t}, cb.want(c), passed[i])
				}
			}
		}
	}
	// patterns, texts and column names that spell SQL keywords (the engine picks evaluators by looking for
	// keywords in the predicate text): the answer is the reference's in every context
	kwTexts := []string{"casex", "case", "showcase", "other", "when", "order by", "andy", "is null", ""}
	kwPats := []string{"case%", "%case", "%case%", "c_se", "when", "%and%", "order%", "%null", "is%"}
	for _, ctx := range c13Contexts {
		for _, col := range []string{"s", "caseNote", "orders", "case_id", "use_case"} {
			for pi, p := range kwPats {
				sql := strings.ReplaceAll(strings.ReplaceAll(c13SQL(ctx, p), "first_value(s)", "first_value("+col+")"), " s LIKE", " "+col+" LIKE")
				// the LIKE keyword itself in lower and mixed case for two thirds of the patterns
				sql = strings.Replace(sql, " LIKE ", []string{" LIKE ", " like ", " Like "}[pi%3], 1)
				if ctx == "having" {
					// the HAVING text itself names the keyword-bearing identifier
					sql = strings.Replace(strings.Replace(sql, " AS f ", " AS "+col+"_f ", 1), "HAVING f ", "HAVING "+col+"_f ", 1)
				}
				got := map[int]int{} // id -> 1 true, 0 false/absent, -1 no boolean
				if ctx == "having" {
					r := detExec(sql, detOpts{Eager: true}, func(e *Env) {
						for i, t := range kwTexts {
							e.Emit(Row{"id": i, col: t})
						}
					})
					if r.ExecErr != "" || r.Status != sched.StatusOK {
						a.fail("C13|keyword-like-text|"+ctx+"|exec", r.ExecErr+" "+r.Status.String(), map[string]any{"sql": sql}, nil, nil)
						continue
					}
					for _, b := range r.Batches {
						for _, row := range b {
							got[toInt(row["id"])] = 1
						}
					}
				} else {
					var rows []Row
					for i, t := range kwTexts {
						rows = append(rows, Row{"id": i, col: t})
					}
					res, execErr, st, _ := syncEval(sql, rows)
					if execErr != "" || st != sched.StatusOK {
						a.fail("C13|keyword-like-text|"+ctx+"|exec", execErr+" "+st.String(), map[string]any{"sql": sql}, nil, nil)
						continue
					}
					for i, sr := range res {
						switch {
						case ctx == "where":
							if sr.Row != nil {
								got[i] = 1
							}
						case sr.Row == nil:
							got[i] = -1
						default:
							if t, ok := truthy(sr.Row["r"]); !ok {
								got[i] = -1
							} else if t {
								got[i] = 1
							}
						}
					}
				}
				for i, t := range kwTexts {
					a.r.Evaluations++
					a.r.States++
					want := ref.Like(t, p)
					if want {
						a.r.Nontrivial++
					}
					if got[i] == -1 || (got[i] == 1) != want {
						a.fail("C13|keyword-like-text|"+ctx+"|like-wrong", fmt.Sprintf("%s on %s = %q: engine says %v, SQL semantics %v", sql, col, t, map[int]string{1: "true", 0: "false", -1: "no boolean"}[got[i]], want),
							map[string]any{"sql": sql, "text": t, "pattern": p, "column": col}, want, got[i])
					}
				}
			}
		}
	}
	a.sample(map[string]any{"queries": len(qs) + 2 + 2*len(combos), "rows": len(rows), "example": qs[0].sql})
}

func (c13) Describe(tier string) fw.Description {
	return fw.Description{
		Level: "model_checking",
		Rule: "exhaustive product: all patterns of length <= n over {%,_,a,b,.} x all texts of length <= n over the same alphabet x 4 contexts (WHERE, CASE WHEN, SELECT x LIKE p, HAVING) evaluated by the real engine (EmitSync / CountingWindow(1)+HAVING) against an anchored-regexp reference (ref.Like); IS NULL / IS NOT NULL over present (incl. '', 0, false), NULL and missing columns and nested paths in WHERE, SELECT, CASE, HAVING and an AND combination, each statement also with IS [NOT] NULL written in lower and in mixed case; the same with upper/lower/mixed-case keywords, NULL and missing text, LIKE combined with IS NULL, and columns, aliases and HAVING texts whose names contain keywords (caseNote, orders, case_id, use_case); a case = (pattern,text,context); non-trivial = the reference says the text matches",
		Bounds:      map[string]any{"max_len": map[string]any{"quick": "4 in WHERE and CASE, 3 in SELECT and HAVING", "thorough": 4}, "alphabet": c13Chars, "contexts": c13Contexts},
		Assumptions: []string{"patterns and texts contain no quote characters", "LIKE over NULL/missing text is not asserted here"},
	}
}

func init() { fw.Register(c13{}) }
