package checks

import (
	"fmt"
	"strings"

	"verifharness/fw"

	"github.com/rulego/streamsql/verifrt/sched"
	vtime "github.com/rulego/streamsql/verifrt/time"
)

// Aggregates whose definition does not depend on the value being a number, over a text column t:
// count(t) counts the rows with a non-NULL t, collect(t) lists those values in arrival order, first_value / last_value
// report t of the first / last row that has the column (an explicit NULL is reported, a row without the column is
// skipped - the reading C03 uses for numbers), deduplicate(t) keeps first occurrences, merge_agg(t)
// joins the non-NULL values with commas.

const textAggList = "count(t) AS ct, collect(t) AS colt, first_value(t) AS fvt, last_value(t) AS lvt, deduplicate(t) AS ddt, merge_agg(t) AS mgt"

type textMissing struct{}

var textAggAlphabet = []any{"on", "off", "o,n", nil, textMissing{}} // nil: an explicit NULL; textMissing: the row carries no t

// textAggCheck compares one result row with the definitions; ts holds the batch's t values in arrival order.
func textAggCheck(row Row, ts []any) (col, what string) {
	var present []string
	var having []any // the rows that carry the column, NULL included
	for _, t := range ts {
		if _, miss := t.(textMissing); miss {
			continue
		}
		having = append(having, t)
		if t != nil {
			present = append(present, t.(string))
		}
	}
	if c, ok := num(row["ct"]); !ok || int(c) != len(present) {
		return "count-of-text", fmt.Sprintf("count(t) = %v, %d rows carry a text", row["ct"], len(present))
	}
	var col2 []string
	if l, ok := row["colt"].([]any); ok {
		for _, x := range l {
			col2 = append(col2, fmt.Sprint(x))
		}
	}
	if strings.Join(col2, "\x00") != strings.Join(present, "\x00") {
		return "collect-of-text", fmt.Sprintf("collect(t) = %v, the texts in arrival order are %q", row["colt"], present)
	}
	if len(having) > 0 {
		if js(row["fvt"]) != js(having[0]) {
			return "first-value-of-text", fmt.Sprintf("first_value(t) = %v, the first row with the column has %v", row["fvt"], having[0])
		}
		if js(row["lvt"]) != js(having[len(having)-1]) {
			return "last-value-of-text", fmt.Sprintf("last_value(t) = %v, the last row with the column has %v", row["lvt"], having[len(having)-1])
		}
	}
	var dd []string
	seen := map[string]bool{}
	for _, p := range present {
		if !seen[p] {
			seen[p] = true
			dd = append(dd, p)
		}
	}
	var dd2 []string
	if l, ok := row["ddt"].([]any); ok {
		for _, x := range l {
			dd2 = append(dd2, fmt.Sprint(x))
		}
	}
	if strings.Join(dd2, "\x00") != strings.Join(dd, "\x00") {
		return "deduplicate-of-text", fmt.Sprintf("deduplicate(t) = %v, first occurrences are %q", row["ddt"], dd)
	}
	if len(present) > 0 {
		if mg, _ := row["mgt"].(string); mg != strings.Join(present, ",") {
			return "merge-agg-of-text", fmt.Sprintf("merge_agg(t) = %v, the texts joined with commas are %q", row["mgt"], strings.Join(present, ","))
		}
	}
	return "", ""
}

// textAggUnit: all t sequences of length 1..maxL in one counting window (stream aggregator) or one global-window
// fire (the global window's own aggregators), one group.
func textAggUnit(prop, harness, sqlTmpl string, maxL int) fw.Result {
	a := newAcc(prop, harness)
	for L := 1; L <= maxL; L++ {
		sql := fmt.Sprintf(sqlTmpl, textAggList, L)
		sequences(L, len(textAggAlphabet), func(ix []int) {
			var ts []any
			var rows []Row
			for i, x := range ix {
				row := Row{"k": "a", "id": i + 1}
				if _, miss := textAggAlphabet[x].(textMissing); !miss {
					row["t"] = textAggAlphabet[x]
				}
				ts = append(ts, textAggAlphabet[x])
				rows = append(rows, row)
			}
			r := detExec(sql, detOpts{Eager: true, Horizon: 100 * vtime.Millisecond}, func(e *Env) {
				for _, row := range rows {
					e.Emit(copyVal(row).(map[string]any))
				}
			})
			a.r.Evaluations++
			a.r.States++
			a.r.Nontrivial++
			a.r.Transitions += int64(r.Steps)
			cs := map[string]any{"sql": sql, "t": fmt.Sprintf("%v", ts)}
			if r.ExecErr != "" || r.Status != sched.StatusOK {
				a.fail(prop+"|text-aggregates|exec", r.ExecErr+" "+r.Status.String()+" "+firstLine(r.Panic), cs, nil, nil)
				return
			}
			var out []Row
			for _, b := range r.Batches {
				out = append(out, b...)
			}
			a.outcome(js(out))
			if len(out) != 1 {
				a.fail(prop+"|text-aggregates|result-count", fmt.Sprintf("%s over t = %v: %d results, reference 1", sql, ts, len(out)), cs, 1, len(out))
				return
			}
			if col, what := textAggCheck(out[0], ts); col != "" {
				a.fail(prop+"|text-aggregates|col="+col, fmt.Sprintf("%s over t = %v: %s", sql, ts, what), cs, nil, out[0])
			}
		})
	}
	a.sample(map[string]any{"aggregates": textAggList, "alphabet": textAggAlphabet, "max_len": maxL})
	return a.result()
}

// triggerLiteralUnit: TRIGGER WHEN last_value(t) = '<literal>' with literals that hold the other quote characters,
// operators and keywords. The group fires exactly at the rows whose t is the literal (all t sequences of length <= 4
// over {the literal, another text}); the result reports the rows since the last fire.
func triggerLiteralUnit(prop, harness string) fw.Result {
	a := newAcc(prop, harness)
	lits := []string{"on", "5\" or more", "say \"a and b\"", "k\"=v", "a`=b", "x` and `y", "it\"s = 1 or 2", "o,n", "a = b", "not (x)", "1 >= 2"}
	for _, lit := range lits {
		sql := "SELECT k, count(*) AS n, last_value(t) AS lt FROM stream GROUP BY k, GLOBAL WINDOW TRIGGER WHEN last_value(t) = '" + lit + "'"
		for L := 1; L <= 4; L++ {
			sequences(L, 2, func(ix []int) {
				var rows []Row
				var want []string
				n := 0
				for i, x := range ix {
					t := "other"
					if x == 1 {
						t = lit
					}
					rows = append(rows, Row{"k": "a", "id": i + 1, "t": t})
					n++
					if x == 1 {
						want = append(want, fmt.Sprintf("n=%d lt=%s", n, lit))
						n = 0
					}
				}
				r := detExec(sql, detOpts{Eager: true, Horizon: 100 * vtime.Millisecond}, func(e *Env) {
					for _, row := range rows {
						e.Emit(copyVal(row).(map[string]any))
					}
				})
				a.r.Evaluations++
				a.r.States++
				a.r.Transitions += int64(r.Steps)
				if len(want) > 0 {
					a.r.Nontrivial++
				}
				cs := map[string]any{"sql": sql, "rows": rows}
				if r.ExecErr != "" || r.Status != sched.StatusOK {
					a.fail(prop+"|trigger-literal|exec", r.ExecErr+" "+r.Status.String()+" "+firstLine(r.Panic), cs, nil, nil)
					return
				}
				var got []string
				for _, b := range r.Batches {
					for _, row := range b {
						c, _ := num(row["n"])
						got = append(got, fmt.Sprintf("n=%d lt=%v", int(c), row["lt"]))
					}
				}
				a.outcome(strings.Join(got, ";"))
				if strings.Join(got, ";") != strings.Join(want, ";") {
					a.fail(prop+"|trigger-literal|wrong-fires", fmt.Sprintf("%s over t = %s: fired %q, reference %q", sql, js(rows), got, want), cs, want, got)
				}
			})
		}
	}
	a.sample(map[string]any{"literals": lits, "predicate": "last_value(t) = '<literal>'"})
	return a.result()
}

// c05FromAlias: FROM stream AS s / FROM stream s without a JOIN. The alias is part of the accepted grammar; a column
// qualified with it (s.a) is the row's column a, in the SELECT list and in WHERE; unqualified names keep working and
// SELECT * returns exactly the row's columns.
func c05FromAlias() fw.Result {
	a := newAcc("C05", "sync-projection-from-alias")
	rows := []Row{{"id": 1, "a": 1, "k": "x"}, {"id": 2, "a": 2, "k": "y"}, {"id": 3, "a": nil, "k": "z"}, {"id": 4, "k": "w"}}
	type q struct {
		sql  string
		keep func(r Row) bool
		proj func(r Row) Row
		qual bool // uses a qualified reference
	}
	gt1 := func(r Row) bool { f, ok := num(r["a"]); return ok && f > 1 }
	all := func(Row) bool { return true }
	var qs []q
	for _, from := range []string{"stream AS s", "stream s"} {
		qs = append(qs,
			q{"SELECT s.id, s.a AS x FROM " + from, all, func(r Row) Row { return Row{"id": r["id"], "x": r["a"]} }, true},
			q{"SELECT id, a FROM " + from + " WHERE s.a > 1", gt1, func(r Row) Row { return Row{"id": r["id"], "a": r["a"]} }, true},
			q{"SELECT s.id, s.k FROM " + from + " WHERE a > 1", gt1, func(r Row) Row { return Row{"id": r["id"], "k": r["k"]} }, true},
			q{"SELECT id, a AS x FROM " + from + " WHERE a > 1", gt1, func(r Row) Row { return Row{"id": r["id"], "x": r["a"]} }, false},
			q{"SELECT * FROM " + from, all, func(r Row) Row { return copyVal(r).(Row) }, false})
	}
	for _, qq := range qs {
		res, execErr, st, pv := syncEval(qq.sql, rows)
		a.r.Evaluations += int64(len(rows))
		a.r.States += int64(len(rows))
		cs := map[string]any{"sql": qq.sql, "rows": rows}
		if execErr != "" || st != sched.StatusOK {
			a.fail("C05|from-alias|exec", execErr+" "+st.String()+" "+firstLine(pv), cs, nil, nil)
			continue
		}
		for i, r := range rows {
			a.r.Nontrivial++
			var want Row
			if qq.keep(r) {
				want = qq.proj(r)
				for k, v := range want {
					if f, ok := num(v); ok {
						want[k] = f
					}
				}
			}
			got := res[i].Row
			if got != nil {
				g := Row{}
				for k, v := range got {
					if f, ok := num(v); ok {
						g[k] = f
					} else {
						g[k] = v
					}
				}
				got = g
			}
			a.outcome(qq.sql + js(got))
			if js(got) != js(want) {
				kind := "unqualified"
				if qq.qual {
					kind = "qualified-reference"
				}
				a.fail("C05|from-alias|"+kind+"|wrong-result", fmt.Sprintf("%s over %s yields %s, reference %s", qq.sql, js(r), js(got), js(want)), cs, want, got)
				break
			}
		}
	}
	a.sample(map[string]any{"queries": len(qs), "rows": rows})
	return a.result()
}
