package checks

import (
	"syscall"
	"encoding/json"
	"fmt"
	"os"
	"reflect"
	"regexp"
	"strconv"
	"strings"
	"sync/atomic"
	"time"

	"verifharness/fw"

	"github.com/rulego/streamsql/rsql"
	"github.com/rulego/streamsql/types"
)

// C11: the SQL parser is total, layout-insensitive and faithful to the clauses written.

var c11Tokens = []string{
	"SELECT", "FROM", "WHERE", "GROUP", "BY", "HAVING", "ORDER", "LIMIT", "WITH", "AS", "AND", "DISTINCT",
	"a", "stream", "count(*)", "5", "'x'", ",", "(", ")", "=", "*", "TumblingWindow('2s')", "'", "`",
}

var c11HostileBytes = []byte{'\'', '"', '`', '(', ')', ',', ';', '\\', 0, '\n', '%', '.', '-', '*', 0xff, ' '}
// c11CutStatements: valid statements of every clause family; the totality sweep cuts them after each token.
var c11CutStatements = []string{
	"SELECT a, `b` AS x, m.loc AS loc FROM stream s LEFT JOIN meta m ON s.dev = m.dev AND `site` = m.`site` WHERE a > 1 AND s LIKE 'a%' LIMIT 3",
	"SELECT k, lag(v, 1, 0) OVER (PARTITION BY `k`, d.x WHEN v > 1) AS p, acc_sum(v) OVER (PARTITION BY k) AS t FROM stream WHERE had_changed(true, v)",
	"SELECT * FROM stream MATCH_RECOGNIZE (PARTITION BY `k`, site ORDER BY ts MEASURES MATCH_NUMBER() AS mn, LAST(A.v) AS `l` ALL ROWS PER MATCH AFTER MATCH SKIP TO LAST B PATTERN (A B+ | C) SUBSET u = (A, B) WITHIN '5s' DEFINE A AS v > 1, B AS v > PREV(v))",
	"SELECT k, count(*) AS c, sum(v * 2) + 1 AS s FROM stream GROUP BY k, upper(`k2`), SlidingWindow('4s', '2s') HAVING c > 1 AND max(v) < 5 WITH (TIMESTAMP='ts', TIMEUNIT='ms', MAXOUTOFORDERNESS='1s') ORDER BY s DESC, k LIMIT 2",
	"SELECT DISTINCT CASE WHEN a > 1 THEN 'hi' WHEN a IS NULL THEN \"nil\" ELSE concat(s, '-x') END AS r, arr[0] AS f, d['x'] AS g FROM stream WHERE NOT (a > 5 OR s IS NOT NULL)",
	"SELECT k, sum(v) AS s FROM stream GROUP BY k, GLOBAL WINDOW TRIGGER WHEN sum(v) >= 4 OR count(*) = 3 WITH (STATETTL='1m')",
	"SELECT k, unnest(arr) AS el, changed_cols(\"c_\", true, a, s) FROM stream GROUP BY k, SessionWindow('5s') WITH (TIMESTAMP='ts', IDLETIMEOUT='5s')",
}

var c11Prefixes = []string{
	"SELECT a FROM stream WHERE a > ",
	"SELECT ",
	"SELECT a FROM stream GROUP BY k, TumblingWindow('2s') WITH (TIMESTAMP='ts', TIMEUNIT=",
	"SELECT a AS ",
	"SELECT * FROM stream MATCH_RECOGNIZE (PATTERN (A ",
	"SELECT a FROM stream ORDER BY ",
}

var c11Current atomic.Value // string being parsed (for the hang watchdog)

// c11Parse calls the parser under panic capture.
func c11Parse(sql string) (cfg *types.Config, cond string, err error, panicked string) {
	defer func() {
		if p := recover(); p != nil {
			panicked = fmt.Sprint(p)
		}
	}()
	c11Current.Store(sql)
	cfg, cond, err = rsql.Parse(sql)
	return
}

func c11Watchdog(res *fw.Result) {
	// A parse that never returns is an endless loop: it burns CPU. The watchdog therefore measures the CPU time
	// the process spent on one input (not wall-clock time, which also passes while a loaded machine starves the
	// process - an earlier 5 s wall-clock limit raised a false alarm on a 60 µs parse under load). A parse that
	// blocks without burning CPU is caught by the framework's per-unit limit instead.
	cpu := func() time.Duration {
		var ru syscall.Rusage
		if syscall.Getrusage(syscall.RUSAGE_SELF, &ru) != nil {
			return 0
		}
		return time.Duration(ru.Utime.Nano() + ru.Stime.Nano())
	}
	go func() {
		var last string
		var since time.Duration
		for {
			time.Sleep(500 * time.Millisecond)
			cur, _ := c11Current.Load().(string)
			if cur != last {
				last, since = cur, cpu()
				continue
			}
			if cur != "" && cpu()-since > 20*time.Second {
				r := fw.Result{Violations: []fw.Violation{{Property: "C11", Harness: "totality", Signature: "C11|hang", What: fmt.Sprintf("Parse did not return after 20 s of CPU time for %q", cur), Case: map[string]any{"sql": cur}, Reproduced: 1}}, Evaluations: 1, States: 1, Transitions: 1, Nontrivial: 1}
				b, _ := json.Marshal(r)
				fmt.Printf("\n@@RESULT %s\n", b)
				os.Exit(0)
			}
		}
	}()
}

// ---- grammar statements ----

type c11Stmt struct {
	Distinct bool
	Items    []string // raw items
	Names    []string // expected FieldOrder
	Alias    string
	Join     string
	Where    string
	WhereLow string // expected lowered condition
	Group    string // "" or "k"
	Window   string // "", tumbling, sliding, counting, session, global
	Having   string
	HavLow   string
	With     int // 0 none, 1 ts+unit, 2 all options
	Order    [][2]string
	Limit    int
	Renamed  map[string]string // identifier renaming applied to the base statement (nil: neutral names)
	WithFirst bool             // WITH (...) written before HAVING (the repository's own tests write both orders)
	WinFirst  bool             // GROUP BY <window>, <column>: the list ends in a plain column
	WithRev   bool             // the WITH options written in the reverse order (TIMEUNIT before TIMESTAMP)
	WinForm   int              // window parameters: 0 as durations ('2s'), 1 as bare numbers of seconds (2), 2 as quoted numbers ('2')
}

func (s c11Stmt) parts() []string {
	var p []string
	p = append(p, "SELECT")
	if s.Distinct {
		p = append(p, "DISTINCT")
	}
	p = append(p, strings.Join(s.Items, ", "))
	p = append(p, "FROM", "stream")
	if s.Alias != "" {
		p = append(p, s.Alias)
	}
	if s.Join != "" {
		p = append(p, s.Join)
	}
	if s.Where != "" {
		p = append(p, "WHERE", s.Where)
	}
	if s.Window != "" {
		w := map[string]string{"tumbling": "TumblingWindow('2s')", "sliding": "SlidingWindow('4s', '2s')", "counting": "CountingWindow(3)", "session": "SessionWindow('5s')",
			"global": "GLOBAL WINDOW TRIGGER WHEN count(*) >= 2"}[s.Window]
		switch s.WinForm {
		case 1:
			w = map[string]string{"tumbling": "TumblingWindow(2)", "sliding": "SlidingWindow(4, 2)", "counting": "CountingWindow('3')", "session": "SessionWindow(5)", "global": w}[s.Window]
		case 2:
			w = map[string]string{"tumbling": "TumblingWindow('2')", "sliding": "SlidingWindow('4s', 2)", "counting": "CountingWindow(3)", "session": "SessionWindow('5')", "global": w}[s.Window]
		}
		if s.WinFirst {
			p = append(p, "GROUP", "BY", w+",", s.Group)
		} else {
			p = append(p, "GROUP", "BY", s.Group+",", w)
		}
	}
	if s.Having != "" && !s.WithFirst {
		p = append(p, "HAVING", s.Having)
	}
	switch {
	case s.With == 1 && s.WithRev:
		p = append(p, "WITH", "(TIMEUNIT='ms', TIMESTAMP='ts')")
	case s.With == 2 && s.WithRev:
		// (the durations in other units than the default spelling: the same values)
		p = append(p, "WITH", "(IDLETIMEOUT='5000ms', ALLOWEDLATENESS='2000ms', MAXOUTOFORDERNESS='1000ms', TIMEUNIT='ms', TIMESTAMP='ts')")
	case s.With == 1:
		p = append(p, "WITH", "(TIMESTAMP='ts', TIMEUNIT='ms')")
	case s.With == 2:
		p = append(p, "WITH", "(TIMESTAMP='ts', TIMEUNIT='ms', MAXOUTOFORDERNESS='1s', ALLOWEDLATENESS='2s', IDLETIMEOUT='5s')")
	}
	if s.Having != "" && s.WithFirst {
		p = append(p, "HAVING", s.Having)
	}
	if len(s.Order) > 0 {
		var ks []string
		for _, o := range s.Order {
			k := o[0]
			if o[1] != "" {
				k += " " + o[1]
			}
			ks = append(ks, k)
		}
		p = append(p, "ORDER", "BY", strings.Join(ks, ", "))
	}
	if s.Limit > 0 {
		p = append(p, "LIMIT", fmt.Sprint(s.Limit))
	}
	return p
}

var c11Keywords = map[string]bool{}

func init() {
	for _, k := range strings.Fields("SELECT DISTINCT FROM WHERE GROUP BY HAVING WITH ORDER LIMIT AS AND OR NOT JOIN LEFT INNER ON ASC DESC LIKE IS NULL " +
		"CASE WHEN THEN ELSE END GLOBAL WINDOW TRIGGER TIMESTAMP TIMEUNIT MAXOUTOFORDERNESS ALLOWEDLATENESS IDLETIMEOUT STATETTL " +
		"MATCH_RECOGNIZE PARTITION MEASURES ONE ROW PER MATCH ALL ROWS AFTER SKIP PAST LAST NEXT TO FIRST PATTERN DEFINE") {
		c11Keywords[k] = true
	}
}

// c11Relayout rewrites a statement token-wise: every keyword outside string literals and backticked
// identifiers gets the keyword case, every run of blanks outside them becomes sep.
func c11Relayout(stmt string, kwCase int, sep string) string {
	var sb strings.Builder
	isWord := func(c byte) bool {
		return c == '_' || c >= 'a' && c <= 'z' || c >= 'A' && c <= 'Z' || c >= '0' && c <= '9'
	}
	for i := 0; i < len(stmt); {
		c := stmt[i]
		switch {
		case c == '\'' || c == '`' || c == '"':
			j := i + 1
			for j < len(stmt) && stmt[j] != c {
				j++
			}
			if j < len(stmt) {
				j++
			}
			sb.WriteString(stmt[i:j])
			i = j
		case c == ' ':
			for i < len(stmt) && stmt[i] == ' ' {
				i++
			}
			sb.WriteString(sep)
		case isWord(c):
			j := i
			for j < len(stmt) && isWord(stmt[j]) {
				j++
			}
			w := stmt[i:j]
			if c11Keywords[strings.ToUpper(w)] && !(j < len(stmt) && stmt[j] == '(') {
				switch kwCase {
				case 0:
					w = strings.ToUpper(w)
				case 1:
					w = strings.ToLower(w)
				case 2:
					w = strings.ToUpper(w[:1]) + strings.ToLower(w[1:])
				}
			}
			sb.WriteString(w)
			i = j
		default:
			sb.WriteByte(c)
			i++
		}
	}
	return sb.String()
}

// c11PadParens puts a blank after every "(" and before every ")" outside quoted text.
func c11PadParens(stmt string) string {
	var sb strings.Builder
	var quote byte
	for i := 0; i < len(stmt); i++ {
		c := stmt[i]
		switch {
		case quote != 0:
			if c == quote {
				quote = 0
			}
			sb.WriteByte(c)
		case c == '\'' || c == '"' || c == '`':
			quote = c
			sb.WriteByte(c)
		case c == '(':
			sb.WriteString("( ")
		case c == ')':
			sb.WriteString(" )")
		default:
			sb.WriteByte(c)
		}
	}
	return sb.String()
}

// c11Tokenize splits a statement into tokens: quoted runs, words, and single punctuation bytes (blanks dropped).
func c11Tokenize(stmt string) []string {
	var out []string
	isWord := func(c byte) bool {
		return c == '_' || c == '.' || c >= 'a' && c <= 'z' || c >= 'A' && c <= 'Z' || c >= '0' && c <= '9'
	}
	for i := 0; i < len(stmt); {
		c := stmt[i]
		switch {
		case c == '\'' || c == '`' || c == '"':
			j := i + 1
			for j < len(stmt) && stmt[j] != c {
				j++
			}
			if j < len(stmt) {
				j++
			}
			out = append(out, stmt[i:j])
			i = j
		case c == ' ':
			i++
		case isWord(c):
			j := i
			for j < len(stmt) && isWord(stmt[j]) {
				j++
			}
			out = append(out, stmt[i:j])
			i = j
		default:
			out = append(out, string(c))
			i++
		}
	}
	return out
}

// c11Join renders tokens with single blanks, or densely: a blank only where two word-like tokens would fuse.
func c11Join(toks []string, dense bool) string {
	if !dense {
		return strings.Join(toks, " ")
	}
	wordy := func(t string) bool {
		if t == "" {
			return false
		}
		c := t[0]
		e := t[len(t)-1]
		w := func(c byte) bool {
			return c == '_' || c == '.' || c >= 'a' && c <= 'z' || c >= 'A' && c <= 'Z' || c >= '0' && c <= '9'
		}
		return w(c) || w(e)
	}
	var sb strings.Builder
	for i, t := range toks {
		if i > 0 && wordy(toks[i-1]) && wordy(t) {
			sb.WriteByte(' ')
		}
		sb.WriteString(t)
	}
	return sb.String()
}

// c11EditStatements: the statements whose one-edit neighbourhood the totality sweep parses (c11CutStatements plus
// calls with many arguments at the very start and in WHERE).
var c11EditStatements = append(append([]string{}, c11CutStatements...),
	"SELECT concat(a, b, c, d, e, f, g, h) AS c8, x FROM stream WHERE coalesce(a, b, c, d, e, f, g, h, i, j) > 1",
	"SELECT round(a + b + c + d + e + f + g, 2) AS r, x FROM stream GROUP BY k, CountingWindow(3)")

// c11NameSets: identifiers that contain or begin with keywords (ORDER, FROM, DESC, GROUP, LIMIT, IS, NULL,
// AS, AND, WHERE, CASE, BY, HAVING, END, LIKE, NOT, IN, ON, SELECT, UNION ...). A statement written with them must
// parse like the same statement with neutral names.
var c11NameSets = []map[string]string{
	{"a": "orders", "b": "fromage", "s": "description", "k": "group1", "v": "valueOf", "note": "notes", "c": "counted", "x": "limits", "u": "unions", "e": "selected", "l": "likes", "lit": "literal"},
	{"a": "isActive", "b": "nullable", "s": "ascii", "k": "android", "v": "inStock", "note": "whereabouts", "c": "casex", "x": "byId", "u": "having1", "e": "endpoint", "l": "asc1", "lit": "notNull"},
}

// c11RenameText renames identifier tokens outside string literals and backticks.
func c11RenameText(t string, m map[string]string) string {
	var sb strings.Builder
	isWord := func(c byte) bool {
		return c == '_' || c >= 'a' && c <= 'z' || c >= 'A' && c <= 'Z' || c >= '0' && c <= '9'
	}
	for i := 0; i < len(t); {
		c := t[i]
		switch {
		case c == '\'' || c == '`' || c == '"':
			j := i + 1
			for j < len(t) && t[j] != c {
				j++
			}
			if j < len(t) {
				j++
			}
			sb.WriteString(t[i:j])
			i = j
		case isWord(c):
			j := i
			for j < len(t) && isWord(t[j]) {
				j++
			}
			w := t[i:j]
			if r, ok := m[w]; ok && !(j < len(t) && t[j] == '(') {
				w = r
			}
			sb.WriteString(w)
			i = j
		default:
			sb.WriteByte(c)
			i++
		}
	}
	return sb.String()
}

func (s c11Stmt) rename(m map[string]string) c11Stmt {
	r := s
	rn := func(t string) string { return c11RenameText(t, m) }
	r.Items, r.Names = nil, nil
	for _, it := range s.Items {
		r.Items = append(r.Items, rn(it))
	}
	for _, n := range s.Names {
		r.Names = append(r.Names, rn(n))
	}
	r.Where, r.WhereLow, r.Group, r.Having, r.HavLow = rn(s.Where), rn(s.WhereLow), rn(s.Group), rn(s.Having), rn(s.HavLow)
	r.Order = nil
	for _, o := range s.Order {
		r.Order = append(r.Order, [2]string{rn(o[0]), o[1]})
	}
	r.Renamed = m
	return r
}

// layout renders the statement with a keyword case and a separator.
func (s c11Stmt) layout(kwCase int, sep string) string {
	return c11Relayout(strings.Join(s.parts(), " "), kwCase, sep)
}

func c11Stmts(tier string) []c11Stmt {
	var out []c11Stmt
	type wh struct{ sql, low string }
	wheres := []wh{{"", ""}, {"a > 1", "a > 1"}, {"s = 'x' AND a <= 2", "s == 'x' && a <= 2"},
		{"note = 'LIMIT 5'", "note == 'LIMIT 5'"}, {"note = 'ORDER BY x'", "note == 'ORDER BY x'"}, {"note = 'a WHERE b'", "note == 'a WHERE b'"},
		{"note = 'FROM' OR a != 3", "note == 'FROM' || a != 3"}, {"note = 'GROUP BY k HAVING 1'", "note == 'GROUP BY k HAVING 1'"},
		// a literal of one quote kind that contains the other kind (and keywords behind it)
		{"note = 'say \"hi\" LIMIT 1'", "note == 'say \"hi\" LIMIT 1'"}, {"note = \"it's ORDER BY\" AND a > 0", "note == \"it's ORDER BY\" && a > 0"},
		// text that looks like a call of an unknown function, inside literals
		{"note = 'foo(x' OR note = \"bar(\"", "note == 'foo(x' || note == \"bar(\""}}
	// direct queries
	directItems := []struct{ items, names []string }{
		{[]string{"a"}, []string{"a"}},
		{[]string{"a AS x", "b"}, []string{"x", "b"}},
		{[]string{"b", "upper(s) AS u", "a + 1 AS e"}, []string{"b", "u", "e"}},
		{[]string{"`order`", "`limit` AS l"}, []string{"order", "l"}},
		{[]string{"'LIMIT 3' AS lit", "a"}, []string{"lit", "a"}},
		// keywords directly in front of numeric literals inside an item
		{[]string{"CASE WHEN a > 1 THEN 1 ELSE 0 END AS flag", "a"}, []string{"flag", "a"}},
	}
	for _, it := range directItems {
		for _, w := range wheres {
			for _, d := range []bool{false, true} {
				for _, lim := range []int{0, 2} {
					out = append(out, c11Stmt{Distinct: d, Items: it.items, Names: it.names, Where: w.sql, WhereLow: w.low, Limit: lim})
				}
			}
		}
	}
	out = append(out, c11Stmt{Items: []string{"s.a AS a"}, Names: []string{"a"}, Alias: "s"},
		c11Stmt{Items: []string{"a", "m.loc AS loc"}, Names: []string{"a", "loc"}, Alias: "s", Join: "JOIN meta m ON s.dev = m.dev", Where: "a > 1", WhereLow: "a > 1"},
		c11Stmt{Items: []string{"a", "m.loc AS loc"}, Names: []string{"a", "loc"}, Join: "LEFT JOIN meta m ON dev = m.dev AND site = m.site", Limit: 2},
		// no alias on the stream and/or the table: the word after the source / table is the next keyword
		c11Stmt{Items: []string{"a", "m.loc AS loc"}, Names: []string{"a", "loc"}, Join: "INNER JOIN meta m ON dev = m.dev"},
		c11Stmt{Items: []string{"a", "meta.loc AS loc"}, Names: []string{"a", "loc"}, Join: "JOIN meta ON dev = meta.dev", Where: "a > 1", WhereLow: "a > 1"},
		c11Stmt{Items: []string{"a", "meta.loc AS loc"}, Names: []string{"a", "loc"}, Alias: "s", Join: "LEFT JOIN meta ON s.dev = meta.dev AND s.site = meta.site"})
	// window queries
	havs := []wh{{"", ""}, {"c > 1", "c > 1"}, {"s >= 2 AND c < 5", "s >= 2 && c < 5"}}
	orders := [][][2]string{nil, {{"s", "DESC"}}, {{"k", "ASC"}, {"s", "DESC"}}, {{"c", ""}}, {{"s", "DESC"}, {"k", ""}}, {{"c", ""}, {"s", "DESC"}, {"k", ""}}}
	for _, win := range []string{"tumbling", "sliding", "counting", "session", "global"} {
		for _, w := range wheres[:4] {
			for _, h := range havs {
				for _, o := range orders {
					for _, lim := range []int{0, 2} {
						withs := []int{0}
						if win == "tumbling" || win == "sliding" || win == "session" {
							withs = []int{0, 1, 2}
						}
						for _, wi := range withs {
							if tier == "quick" && wi == 2 && (h.sql != "" && len(o) > 1) {
								continue
							}
							out = append(out, c11Stmt{Items: []string{"k", "count(*) AS c", "sum(v) AS s"}, Names: []string{"k", "c", "s"}, Where: w.sql, WhereLow: w.low,
								Group: "k", Window: win, Having: h.sql, HavLow: h.low, With: wi, Order: o, Limit: lim})
						}
					}
				}
			}
		}
	}
	// the GROUP BY list ends in a plain column, so every later clause keyword directly follows a pending column
	for i, n := 0, len(out); i < n; i++ {
		if out[i].Window != "" && out[i].Window != "global" && out[i].Group != "" && (i%2 == 0 || (out[i].Having == "" && out[i].With == 0)) {
			v := out[i]
			v.WinFirst = true
			out = append(out, v)
		}
	}
	// window parameters written as bare or quoted numbers of seconds
	for i, n := 0, len(out); i < n; i++ {
		if out[i].Window != "" && out[i].Window != "global" && i%5 == 0 {
			for f := 1; f <= 2; f++ {
				v := out[i]
				v.WinForm = f
				out = append(out, v)
			}
		}
	}
	// option order inside WITH (...): the options are a set
	for i, n := 0, len(out); i < n; i++ {
		if out[i].With > 0 && i%2 == 1 {
			v := out[i]
			v.WithRev = true
			out = append(out, v)
		}
	}
	// clause order: WITH (...) before HAVING
	for i, n := 0, len(out); i < n; i++ {
		if out[i].Having != "" && out[i].With > 0 && i%3 == 0 {
			v := out[i]
			v.WithFirst = true
			out = append(out, v)
		}
	}
	// the same statements with keyword-bearing identifiers (every 3rd one, shifted per name set; JOIN statements keep their names)
	base := len(out)
	for ni, m := range c11NameSets {
		for i := ni; i < base; i += 3 {
			if out[i].Join == "" && out[i].Alias == "" {
				out = append(out, out[i].rename(m))
			}
		}
	}
	return out
}

func normSpaces(s string) string { return strings.Join(strings.Fields(s), " ") }

// noSpaces: MEASURES / DEFINE texts are kept as re-joined tokens ("PREV ( v )"); only the token sequence is compared
func noSpaces(s string) string { return strings.Join(strings.Fields(s), "") }

// c11Fidelity compares the parsed configuration with what was written.
func c11Fidelity(s c11Stmt, cfg *types.Config, cond string) (field, what string) {
	if !reflect.DeepEqual(cfg.FieldOrder, s.Names) {
		stripped := make([]string, len(cfg.FieldOrder))
		for i, n := range cfg.FieldOrder {
			stripped[i] = strings.Trim(n, "`")
		}
		if reflect.DeepEqual(stripped, s.Names) {
			return "select-items-backticks-kept", fmt.Sprintf("FieldOrder %v keeps the quoting backticks of an unaliased identifier, written names %v", cfg.FieldOrder, s.Names)
		}
		return "select-items", fmt.Sprintf("FieldOrder %v, written %v", cfg.FieldOrder, s.Names)
	}
	if cfg.Distinct != s.Distinct {
		return "distinct", fmt.Sprintf("Distinct %v, written %v", cfg.Distinct, s.Distinct)
	}
	if cfg.Limit != s.Limit {
		return "limit", fmt.Sprintf("Limit %d, written %d", cfg.Limit, s.Limit)
	}
	if normSpaces(cond) != s.WhereLow {
		return "where", fmt.Sprintf("condition %q, written %q", cond, s.WhereLow)
	}
	if normSpaces(cfg.Having) != s.HavLow {
		return "having", fmt.Sprintf("Having %q, written %q", cfg.Having, s.HavLow)
	}
	if len(cfg.OrderBy) != len(s.Order) {
		return "order-by", fmt.Sprintf("OrderBy %v, written %v", cfg.OrderBy, s.Order)
	}
	for i, o := range s.Order {
		dir := o[1]
		if dir == "" {
			dir = "ASC"
		}
		if cfg.OrderBy[i].Expression != o[0] || string(cfg.OrderBy[i].Direction) != dir {
			return "order-by", fmt.Sprintf("OrderBy %v, written %v", cfg.OrderBy, s.Order)
		}
	}
	if s.Alias != "" && cfg.SourceAlias != s.Alias {
		return "source-alias", fmt.Sprintf("SourceAlias %q, written %q", cfg.SourceAlias, s.Alias)
	}
	if (s.Join != "") != (len(cfg.JoinConfigs) > 0) {
		return "join", fmt.Sprintf("JoinConfigs %v for %q", cfg.JoinConfigs, s.Join)
	}
	if s.Join != "" {
		j := cfg.JoinConfigs[0]
		wantType := "INNER"
		pairs := 1
		if strings.HasPrefix(s.Join, "LEFT") {
			wantType, pairs = "LEFT", 2
		}
		wantAlias := "meta"
		if strings.Contains(s.Join, " meta m ") {
			wantAlias = "m"
		}
		if j.Table != "meta" || j.Alias != wantAlias || !strings.EqualFold(j.JoinType, wantType) || len(j.OnPairs) != pairs || j.OnPairs[0].TableField != "dev" || j.OnPairs[0].StreamField != "dev" {
			return "join", fmt.Sprintf("JoinConfigs %+v for %q", cfg.JoinConfigs, s.Join)
		}
	}
	if (s.Window != "") != cfg.NeedWindow {
		return "window", fmt.Sprintf("NeedWindow %v for window %q", cfg.NeedWindow, s.Window)
	}
	if s.Window != "" {
		if cfg.WindowConfig.Type != s.Window {
			return "window", fmt.Sprintf("window type %q, written %q", cfg.WindowConfig.Type, s.Window)
		}
		if !reflect.DeepEqual(cfg.GroupFields, []string{s.Group}) {
			return "group-by", fmt.Sprintf("GroupFields %v, written [%s]", cfg.GroupFields, s.Group)
		}
		var wantParams []any
		switch s.Window {
		case "tumbling":
			wantParams = []any{2 * time.Second}
		case "sliding":
			wantParams = []any{4 * time.Second, 2 * time.Second}
		case "counting":
			wantParams = []any{3}
		case "session":
			wantParams = []any{5 * time.Second}
		}
		if s.Window != "global" && fmt.Sprint(cfg.WindowConfig.Params) != fmt.Sprint(wantParams) {
			return "window-params", fmt.Sprintf("window params %v, written %v", cfg.WindowConfig.Params, wantParams)
		}
		if s.Window == "global" && normSpaces(cfg.WindowConfig.TriggerCondition) == "" {
			return "trigger", "TRIGGER WHEN predicate lost"
		}
		wc := cfg.WindowConfig
		switch s.With {
		case 0:
			if wc.TsProp != "" || wc.MaxOutOfOrderness != 0 || wc.AllowedLateness != 0 {
				return "with", fmt.Sprintf("WITH options set although none written: %+v", wc)
			}
		case 1, 2:
			if wc.TsProp != "ts" || wc.TimeUnit != time.Millisecond || wc.TimeCharacteristic != types.EventTime {
				return "with", fmt.Sprintf("TIMESTAMP/TIMEUNIT: ts=%q unit=%v char=%v", wc.TsProp, wc.TimeUnit, wc.TimeCharacteristic)
			}
			if s.With == 2 && (wc.MaxOutOfOrderness != time.Second || wc.AllowedLateness != 2*time.Second || wc.IdleTimeout != 5*time.Second) {
				return "with", fmt.Sprintf("MAXOUTOFORDERNESS/ALLOWEDLATENESS/IDLETIMEOUT: %v %v %v", wc.MaxOutOfOrderness, wc.AllowedLateness, wc.IdleTimeout)
			}
			if s.With == 1 && (wc.MaxOutOfOrderness != 0 || wc.AllowedLateness != 0 || wc.IdleTimeout != 0) {
				return "with", fmt.Sprintf("options not written are set: %v %v %v", wc.MaxOutOfOrderness, wc.AllowedLateness, wc.IdleTimeout)
			}
		}
	}
	return "", ""
}

func c11ConfigJSON(cfg *types.Config) string {
	c := *cfg
	c.Logger = nil
	b, err := json.Marshal(c)
	if err != nil {
		return "marshal error: " + err.Error()
	}
	// The configuration keeps the text of an expression item as written, so the letter case of the keywords INSIDE
	// an expression (CASE WHEN THEN ELSE END ...) is part of the text without being part of the structure: such words
	// are compared in upper case (the same mapping on both sides of every comparison).
	return c11ExprKeyword.ReplaceAllStringFunc(string(b), strings.ToUpper)
}

var c11ExprKeyword = regexp.MustCompile(`(?i)\b(case|when|then|else|end|and|or|not|like|is|null|in|between)\b`)

type c11 struct{}

func (c11) ID() string { return "C11" }

type c11Spec struct {
	Kind   string `json:"kind"`
	Shard  int    `json:"shard"`
	Shards int    `json:"shards"`
	Len    int    `json:"len"`
}

func (c11) Plan(tier string) []fw.Unit {
	tokLen, byteLen := 5, 4
	if tier == "thorough" {
		tokLen, byteLen = 6, 5
	}
	var us []fw.Unit
	shards := 64
	if tier == "thorough" {
		shards = 512
	}
	for s := 0; s < shards; s++ {
		us = append(us, fw.Unit{Check: "C11", Kind: "tokens", Tier: tier, Spec: fw.Spec(c11Spec{"tokens", s, shards, tokLen})})
	}
	for s := 0; s < 4; s++ {
		us = append(us, fw.Unit{Check: "C11", Kind: "bytes", Tier: tier, Spec: fw.Spec(c11Spec{"bytes", s, 4, byteLen})})
	}
	for s := 0; s < 8; s++ {
		us = append(us, fw.Unit{Check: "C11", Kind: "grammar", Tier: tier, Spec: fw.Spec(c11Spec{"grammar", s, 8, 0})})
	}
	us = append(us, fw.Unit{Check: "C11", Kind: "match", Tier: tier, Spec: fw.Spec(c11Spec{"match", 0, 1, 0})})
	return us
}

func (c11) Run(u fw.Unit) fw.Result {
	var sp c11Spec
	remarshalRaw(u.Spec, &sp)
	a := newAcc("C11", "parser-"+sp.Kind)
	c11Watchdog(&a.r)
	total := func(sql string) {
		a.r.Evaluations++
		a.r.States++
		a.r.Transitions++
		cfg, _, err, p := c11Parse(sql)
		if p != "" {
			a.fail("C11|panic|"+sp.Kind, fmt.Sprintf("Parse panicked on %q: %s", sql, firstLine(p)), map[string]any{"sql": sql}, nil, nil)
			return
		}
		if err == nil && cfg == nil {
			a.fail("C11|nil-config|"+sp.Kind, fmt.Sprintf("Parse returned neither an error nor a configuration for %q", sql), map[string]any{"sql": sql}, nil, nil)
		}
		if err == nil {
			a.r.Nontrivial++
		}
	}
	switch sp.Kind {
	case "tokens":
		idx := 0
		for L := 1; L <= sp.Len; L++ {
			sequences(L, len(c11Tokens), func(seq []int) {
				idx++
				if idx%sp.Shards != sp.Shard {
					return
				}
				var parts []string
				for _, x := range seq {
					parts = append(parts, c11Tokens[x])
				}
				total(strings.Join(parts, " "))
			})
		}
		a.sample(map[string]any{"token_alphabet": c11Tokens, "example": "SELECT a FROM stream"})
	case "bytes":
		idx := 0
		for L := 0; L <= sp.Len; L++ {
			sequences(L, len(c11HostileBytes), func(seq []int) {
				b := make([]byte, len(seq))
				for i, x := range seq {
					b[i] = c11HostileBytes[x]
				}
				for _, pre := range c11Prefixes {
					idx++
					if idx%sp.Shards != sp.Shard {
						continue
					}
					total(pre + string(b))
				}
			})
		}
		// truncations: every valid statement of c11CutStatements cut after each token, continued by every hostile
		// byte string of length 0..2 (a statement cut off right after an opening quote / backtick / parenthesis)
		for _, st := range c11CutStatements {
			for i := 0; i <= len(st); i++ {
				if i < len(st) && st[i] != ' ' {
					continue
				}
				pre := st[:i]
				for L := 0; L <= 2; L++ {
					sequences(L, len(c11HostileBytes), func(seq []int) {
						idx++
						if idx%sp.Shards != sp.Shard {
							return
						}
						b := make([]byte, len(seq))
						for j, x := range seq {
							b[j] = c11HostileBytes[x]
						}
						total(pre + " " + string(b))
						if L > 0 {
							total(pre + string(b))
						}
					})
				}
			}
		}
		// one-edit neighbourhood: every statement with one token deleted, duplicated, misspelt (a word gets a letter
		// appended: an unknown function, keyword or column) or replaced by one of five tokens, each in two layouts
		// (single blanks; dense - a blank only where two words would fuse)
		edits := 0
		for _, st := range c11EditStatements {
			toks := c11Tokenize(st)
			for i := range toks {
				var variants [][]string
				cut := append(append([]string{}, toks[:i]...), toks[i+1:]...)
				variants = append(variants, cut)
				dup := append(append(append([]string{}, toks[:i+1]...), toks[i]), toks[i+1:]...)
				variants = append(variants, dup)
				repl := []string{"(", ")", ",", "'", "1"}
				if c := toks[i][0]; c == '_' || c >= 'a' && c <= 'z' || c >= 'A' && c <= 'Z' {
					repl = append(repl, toks[i]+"t")
				}
				for _, r := range repl {
					v := append([]string{}, toks...)
					v[i] = r
					variants = append(variants, v)
				}
				for _, v := range variants {
					for _, dense := range []bool{false, true} {
						idx++
						if idx%sp.Shards != sp.Shard {
							continue
						}
						edits++
						total(c11Join(v, dense))
					}
				}
			}
		}
		a.sample(map[string]any{"prefixes": c11Prefixes, "hostile_bytes": fmt.Sprintf("%q", c11HostileBytes), "truncated_statements": len(c11CutStatements), "edited_statements": len(c11EditStatements), "edits_this_shard": edits})
	case "match":
		c11RunMatches(a)
		c11RunWithin(a)
	case "grammar":
		stmts := c11Stmts(u.Tier)
		seps := []string{" ", "\n", "\t ", "  ", "\r\n"}
		for si, s := range stmts {
			if si%sp.Shards != sp.Shard {
				continue
			}
			canonical := s.layout(0, " ")
			cfg0, cond0, err0, p0 := c11Parse(canonical)
			a.r.Evaluations++
			a.r.States++
			a.r.Transitions++
			cs := map[string]any{"sql": canonical}
			if p0 != "" {
				a.fail("C11|panic|grammar", "Parse panicked: "+firstLine(p0), cs, nil, nil)
				continue
			}
			if err0 != nil {
				a.fail("C11|grammar-statement-rejected|"+c11Shape(s), fmt.Sprintf("statement of the documented grammar rejected: %v", err0), cs, nil, nil)
				continue
			}
			a.r.Nontrivial++
			if f, what := c11Fidelity(s, cfg0, cond0); f != "" {
				sig := fmt.Sprintf("C11|fidelity|%s|%s", f, c11Shape(s))
				if f == "select-items-backticks-kept" {
					sig = "C11|fidelity|select-items-backticks-kept"
				}
				a.fail(sig, canonical+" : "+what, cs, nil, nil)
			}
			base := c11ConfigJSON(cfg0) + "|" + normSpaces(cond0)
			a.outcome(base)
			for kc := 0; kc < 3; kc++ {
				for _, sep := range seps {
					if kc == 0 && sep == " " {
						continue
					}
					sql := s.layout(kc, sep)
					cfg, cond, err, p := c11Parse(sql)
					a.r.Evaluations++
					a.r.Transitions++
					if p != "" || err != nil {
						a.fail("C11|layout|rejected", fmt.Sprintf("re-laid-out statement rejected (%v %s): %q", err, p, sql), map[string]any{"sql": sql, "canonical": canonical}, nil, nil)
						continue
					}
					if got := c11ConfigJSON(cfg) + "|" + normSpaces(cond); got != base {
						a.fail(fmt.Sprintf("C11|layout|config-differs|case=%d|sep=%q", kc, sep), fmt.Sprintf("layout %q parses differently from %q", sql, canonical), map[string]any{"sql": sql, "canonical": canonical}, base, got)
					}
				}
			}
			// blanks inside every pair of parentheses ("( x )"), in two keyword cases
			for kc := 0; kc < 2; kc++ {
				sql := c11PadParens(s.layout(kc, " "))
				cfg, cond, err, p := c11Parse(sql)
				a.r.Evaluations++
				a.r.Transitions++
				if p != "" || err != nil {
					a.fail("C11|layout|rejected", fmt.Sprintf("re-laid-out statement rejected (%v %s): %q", err, p, sql), map[string]any{"sql": sql, "canonical": canonical}, nil, nil)
					continue
				}
				if got := c11ConfigJSON(cfg) + "|" + normSpaces(cond); noSpaces(got) != noSpaces(base) {
					a.fail("C11|layout|config-differs|padded-parentheses", fmt.Sprintf("layout %q parses differently from %q", sql, canonical), map[string]any{"sql": sql, "canonical": canonical}, base, got)
				}
			}
			// execution equivalence of two layouts for direct queries
			if s.Window == "" && s.Join == "" && (si%5 == 0 || s.Renamed != nil) {
				rows := []Row{{"a": 2, "b": 1, "s": "x", "note": "LIMIT 5", "order": 1, "limit": 2}, {"a": 1, "b": 2, "s": "y", "note": "FROM", "order": 3, "limit": 4}, {"a": 3, "b": 3, "s": "x", "note": "ORDER BY x", "order": 5, "limit": 6},
					{"a": 4, "b": 1, "s": "y", "note": "say \"hi\" LIMIT 1", "order": 7, "limit": 8}, {"a": 5, "b": 2, "s": "x", "note": "it's ORDER BY", "order": 9, "limit": 10}}
				if s.Renamed != nil {
					var rr []Row
					for _, row := range rows {
						nr := Row{}
						for k, v := range row {
							if n, ok := s.Renamed[k]; ok {
								k = n
							}
							nr[k] = v
						}
						rr = append(rr, nr)
					}
					rows = rr
				}
				r1, e1, _, _ := syncEval(canonical, rows)
				r2, e2, _, _ := syncEval(s.layout(1, "\n"), rows)
				a.r.Evaluations += 2
				if js(r1) != js(r2) || e1 != e2 {
					a.fail("C11|layout|results-differ", fmt.Sprintf("%q gives %s %s ; lower-case/newline layout gives %s %s", canonical, js(r1), e1, js(r2), e2), cs, js(r1), js(r2))
				}
			}
			if si == 40 {
				a.sample(map[string]any{"statement": canonical, "layouts_compared": 11})
			}
		}
	}
	c11Current.Store("")
	return a.result()
}

// ---- MATCH_RECOGNIZE statements ----

type c11Match struct {
	Partition []string
	Measures  [][2]string // expr, alias
	AllRows   bool
	Skip      string // "", "PAST LAST ROW", "TO NEXT ROW", "TO FIRST B", "TO LAST B", "TO B"
	Pattern   string
	Defines   [][2]string
	Twin      string // the same pattern with blanks between every quantifier and its reluctant mark / between all tokens
}

func (m c11Match) sql() string {
	p := []string{"SELECT * FROM stream MATCH_RECOGNIZE ("}
	if len(m.Partition) > 0 {
		p = append(p, "PARTITION BY "+strings.Join(m.Partition, ", "))
	}
	p = append(p, "ORDER BY ts")
	var ms []string
	for _, x := range m.Measures {
		ms = append(ms, x[0]+" AS "+x[1])
	}
	p = append(p, "MEASURES "+strings.Join(ms, ", "))
	if m.AllRows {
		p = append(p, "ALL ROWS PER MATCH")
	} else {
		p = append(p, "ONE ROW PER MATCH")
	}
	if m.Skip != "" {
		p = append(p, "AFTER MATCH SKIP "+m.Skip)
	}
	p = append(p, "PATTERN ("+m.Pattern+")")
	var ds []string
	for _, d := range m.Defines {
		ds = append(ds, d[0]+" AS "+d[1])
	}
	p = append(p, "DEFINE "+strings.Join(ds, ", "), ")")
	return strings.Join(p, " ")
}

// c11RunWithin: every spelling of the WITHIN bound of MATCH_RECOGNIZE - quoted Go durations and <number> <unit> with
// integral and fractional counts over every documented unit name in upper and lower case - must give exactly the
// written duration; spellings of one duration give one configuration.
func c11RunWithin(a *acc) {
	type unit struct {
		names []string
		d     time.Duration
	}
	units := []unit{
		{[]string{"NS", "NANOSECONDS"}, time.Nanosecond}, {[]string{"US", "MICROS", "MICROSECONDS"}, time.Microsecond},
		{[]string{"MS", "MILLIS", "MILLISECOND", "MILLISECONDS"}, time.Millisecond}, {[]string{"S", "SEC", "SECS", "SECOND", "SECONDS"}, time.Second},
		{[]string{"M", "MIN", "MINS", "MINUTE", "MINUTES"}, time.Minute}, {[]string{"H", "HR", "HRS", "HOUR", "HOURS"}, time.Hour},
	}
	nums := []string{"1", "5", "90", "1500", "1.5", "0.5", "2.25", "0.001", "10.0"}
	stmt := func(w string) string {
		return "SELECT * FROM stream MATCH_RECOGNIZE (ORDER BY ts MEASURES LAST(id) AS l ONE ROW PER MATCH PATTERN (A B) WITHIN " + w + " DEFINE A AS v > 1, B AS v < 2)"
	}
	check := func(w string, want time.Duration) {
		sql := stmt(w)
		cfg, _, err, pn := c11Parse(sql)
		a.r.Evaluations++
		a.r.States++
		a.r.Transitions++
		cs := map[string]any{"sql": sql}
		if pn != "" || err != nil || cfg == nil || cfg.MatchRecognize == nil {
			a.fail("C11|grammar-statement-rejected|match_recognize-within", fmt.Sprintf("WITHIN %s rejected: %v %s", w, err, firstLine(pn)), cs, nil, nil)
			return
		}
		a.r.Nontrivial++
		a.outcome(cfg.MatchRecognize.Within.String())
		if cfg.MatchRecognize.Within != want {
			frac := strings.Contains(w, ".")
			a.fail(fmt.Sprintf("C11|fidelity|match_recognize-within|quoted=%v|fractional=%v", strings.HasPrefix(w, "'"), frac),
				fmt.Sprintf("WITHIN %s: configuration holds %v, written %v", w, cfg.MatchRecognize.Within, want), cs, want.String(), cfg.MatchRecognize.Within.String())
		}
	}
	for _, q := range []string{"5s", "1.5s", "1500ms", "2m", "1h30m", "250us", "0.5s", "100ns"} {
		d, _ := time.ParseDuration(q)
		check("'"+q+"'", d)
	}
	for _, u := range units {
		for _, name := range u.names {
			for _, n := range nums {
				f, _ := strconv.ParseFloat(n, 64)
				want := time.Duration(f * float64(u.d))
				if u.d == time.Nanosecond {
					want = time.Duration(f)
				}
				if want <= 0 {
					continue // below the resolution: the property does not say what a bound of zero means
				}
				check(n+" "+name, want)
				check(n+" "+strings.ToLower(name), want)
			}
		}
	}
	a.sample(map[string]any{"sql": stmt("1.5 SECONDS"), "within": "1.5s"})
}

func c11Matches() []c11Match {
	var out []c11Match
	for _, part := range [][]string{nil, {"k"}, {"k", "site"}} {
		for _, all := range []bool{false, true} {
			for _, skip := range []string{"", "PAST LAST ROW", "TO NEXT ROW", "TO FIRST B", "TO LAST B", "TO B"} {
				twins := map[string]string{"A+? B": "A + ? B", "A*? B+": "A * ? B +", "A{1,2}? B??": "A {1,2} ? B ? ?", "(A B)+? C": "( A B ) + ? C"}
				for pi, pat := range []string{"A B+", "A (B | C)* C", "A{2} B?", "A+? B", "A*? B+", "A{1,2}? B??", "(A B)+? C"} {
					if pi >= 3 && (len(part) == 2 || skip == "TO FIRST B" || skip == "TO B") {
						continue // the reluctant spellings on a subset of the clause combinations
					}
					m := c11Match{Partition: part, AllRows: all, Skip: skip, Pattern: pat, Twin: twins[pat],
						Measures: [][2]string{{"MATCH_NUMBER()", "mn"}, {"LAST(id)", "l"}, {"FIRST(A.v)", "fa"}},
						Defines:  [][2]string{{"A", "v > 1"}, {"B", "v < PREV(v)"}}}
					if pi == 1 {
						m.Defines = append(m.Defines, [2]string{"C", "note = 'DEFINE B AS x'"})
					}
					out = append(out, m)
				}
			}
		}
	}
	return out
}

func c11RunMatches(a *acc) {
	seps := []string{" ", "\n", "\t ", "  ", "\r\n"}
	skipWant := map[string]types.AfterMatchSkip{"": types.SkipPastLastRow, "PAST LAST ROW": types.SkipPastLastRow, "TO NEXT ROW": types.SkipToNextRow,
		"TO FIRST B": types.SkipToFirst, "TO LAST B": types.SkipToLast, "TO B": types.SkipToVariable}
	rows := []Row{{"id": 1, "k": "a", "site": "x", "v": 2, "ts": 1, "note": "n"}, {"id": 2, "k": "a", "site": "x", "v": 1, "ts": 2, "note": "DEFINE B AS x"},
		{"id": 3, "k": "a", "site": "x", "v": 3, "ts": 3, "note": "n"}, {"id": 4, "k": "a", "site": "x", "v": 2, "ts": 4, "note": "n"}, {"id": 5, "k": "a", "site": "x", "v": 1, "ts": 5, "note": "DEFINE B AS x"}}
	for mi, m := range c11Matches() {
		canonical := m.sql()
		cfg0, _, err0, p0 := c11Parse(canonical)
		a.r.Evaluations++
		a.r.States++
		a.r.Transitions++
		cs := map[string]any{"sql": canonical}
		if p0 != "" || err0 != nil || cfg0 == nil {
			a.fail("C11|grammar-statement-rejected|match_recognize", fmt.Sprintf("MATCH_RECOGNIZE statement of the documented grammar rejected: %v %s", err0, firstLine(p0)), cs, nil, nil)
			continue
		}
		a.r.Nontrivial++
		mr := cfg0.MatchRecognize
		bad := ""
		switch {
		case mr == nil:
			bad = "no MatchRecognize clause in the configuration"
		case !reflect.DeepEqual(append([]string{}, mr.PartitionBy...), append([]string{}, m.Partition...)):
			bad = fmt.Sprintf("PartitionBy %v, written %v", mr.PartitionBy, m.Partition)
		case len(mr.OrderBy) != 1 || mr.OrderBy[0].Expression != "ts":
			bad = fmt.Sprintf("OrderBy %v, written [ts]", mr.OrderBy)
		case len(mr.Measures) != len(m.Measures):
			bad = fmt.Sprintf("Measures %v, written %v", mr.Measures, m.Measures)
		case (mr.RowsPerMatch == types.RowsPerMatchAll) != m.AllRows:
			bad = fmt.Sprintf("RowsPerMatch %v, written all=%v", mr.RowsPerMatch, m.AllRows)
		case mr.Skip != skipWant[m.Skip]:
			bad = fmt.Sprintf("Skip %v, written %q", mr.Skip, m.Skip)
		case strings.HasSuffix(m.Skip, " B") && mr.SkipSymbol != "B":
			bad = fmt.Sprintf("SkipSymbol %q, written %q", mr.SkipSymbol, m.Skip)
		case mr.Pattern == nil:
			bad = "Pattern missing"
		case len(cfg0.OrderBy) != 0:
			bad = fmt.Sprintf("the statement has no query-level ORDER BY but the configuration's OrderBy is %v", cfg0.OrderBy)
		case len(mr.Defines) != len(m.Defines):
			bad = fmt.Sprintf("Defines %v, written %v", mr.Defines, m.Defines)
		}
		if bad == "" {
			for i, x := range m.Measures {
				if mr.Measures[i].Alias != x[1] || noSpaces(mr.Measures[i].Expr) != noSpaces(x[0]) {
					bad = fmt.Sprintf("Measures %v, written %v", mr.Measures, m.Measures)
				}
			}
			for i, d := range m.Defines {
				if mr.Defines[i].Symbol != d[0] || noSpaces(mr.Defines[i].Cond) != noSpaces(d[1]) {
					bad = fmt.Sprintf("Defines %+v, written %v", mr.Defines, m.Defines)
				}
			}
		}
		if bad != "" {
			a.fail("C11|fidelity|match_recognize", canonical+" : "+bad, cs, nil, nil)
		}
		base := c11ConfigJSON(cfg0)
		a.outcome(base)
		if m.Twin != "" {
			t := m
			t.Pattern = m.Twin
			tsql := t.sql()
			cfgT, _, errT, pT := c11Parse(tsql)
			a.r.Evaluations++
			a.r.Transitions++
			if pT != "" || errT != nil || cfgT == nil {
				a.fail("C11|layout|match_recognize|pattern-spacing-rejected", fmt.Sprintf("PATTERN (%s) is accepted, the same pattern written PATTERN (%s) is rejected: %v %s", m.Pattern, m.Twin, errT, firstLine(pT)), map[string]any{"sql": tsql}, nil, nil)
			} else if got := c11ConfigJSON(cfgT); got != base {
				a.fail("C11|layout|match_recognize|pattern-spacing-changes-configuration", fmt.Sprintf("PATTERN (%s) and PATTERN (%s) give different configurations", m.Pattern, m.Twin), map[string]any{"sql": tsql, "compact": canonical}, base, got)
			}
		}
		for kc := 0; kc < 3; kc++ {
			for _, sep := range seps {
				if kc == 0 && sep == " " {
					continue
				}
				sql := c11Relayout(canonical, kc, sep)
				cfg, _, err, p := c11Parse(sql)
				a.r.Evaluations++
				a.r.Transitions++
				if p != "" || err != nil {
					a.fail("C11|layout|rejected", fmt.Sprintf("re-laid-out statement rejected (%v %s): %q", err, p, sql), map[string]any{"sql": sql, "canonical": canonical}, nil, nil)
					continue
				}
				if got := c11ConfigJSON(cfg); got != base {
					a.fail(fmt.Sprintf("C11|layout|config-differs|case=%d|sep=%q", kc, sep), fmt.Sprintf("layout %q parses differently from %q", sql, canonical), map[string]any{"sql": sql, "canonical": canonical}, base, got)
				}
			}
		}
		if mi%6 == 0 {
			run := func(sql string) string {
				r := detExec(sql, detOpts{Eager: true}, func(e *Env) {
					for _, row := range rows {
						e.Emit(copyVal(row).(map[string]any))
					}
				})
				return js(r.Batches) + r.ExecErr + r.Status.String()
			}
			r1, r2 := run(canonical), run(c11Relayout(canonical, 1, "\n"))
			a.r.Evaluations += 2
			if r1 != r2 {
				a.fail("C11|layout|results-differ", fmt.Sprintf("%q gives %s ; lower-case/newline layout gives %s", canonical, r1, r2), cs, r1, r2)
			}
		}
		if mi == 7 {
			a.sample(map[string]any{"statement": canonical, "layouts_compared": 11})
		}
	}
}

func c11Shape(s c11Stmt) string {
	hostile := strings.Contains(s.Where, "'LIMIT") || strings.Contains(s.Where, "'ORDER") || strings.Contains(s.Where, "WHERE b") || strings.Contains(s.Where, "'FROM") || strings.Contains(s.Where, "'GROUP")
	return fmt.Sprintf("window=%s"+map[int]string{1: "-bare-numbers", 2: "-quoted-numbers"}[s.WinForm]+"|having=%v|with=%d%s|order=%d|limit=%v|join=%v|keyword-in-literal=%v", s.Window, s.Having != "", s.With, map[bool]string{true: "-reversed"}[s.WithRev], len(s.Order), s.Limit > 0, s.Join != "", hostile)
}

func (c11) Describe(tier string) fw.Description {
	return fw.Description{
		Level: "model_checking",
		Rule: "(a) totality: every token string of length 1..n over a 25-token alphabet (keywords, identifiers, literals, punctuation, a window call, a lone quote, a lone backtick) and every byte string of length 0..m over 16 hostile bytes appended to 6 valid prefixes, and to every truncation after a token of 7 valid statements covering every clause family (JOIN/ON, OVER/PARTITION BY, MATCH_RECOGNIZE, windows, CASE ...), is parsed (rsql.Parse) under panic capture and a hang watchdog (20 s of CPU time on one input); (b) fidelity: every statement generated from the documented grammar (DISTINCT, 5+1 select lists with aliases/backticked keyword identifiers/keyword-bearing literals, FROM alias, INNER/LEFT JOIN, 10 WHERE clauses incl. string literals containing LIMIT / ORDER BY / WHERE / FROM / GROUP BY and the other quote character, 5 window kinds, 3 HAVING, 3 WITH option sets, 6 ORDER BY lists (explicit and implicit directions mixed), LIMIT; a third of them again with two sets of keyword-bearing identifiers such as orders, fromage, description, group1, isActive, nullable, whereabouts) also with WITH (...) before HAVING and with the window written first in the GROUP BY list) is parsed and the returned configuration compared field by field with what was written; the one-edit neighbourhood (token deleted / doubled / swapped) of 9 valid statements in two layouts and padded parentheses are parsed for totality; (b2) 108 MATCH_RECOGNIZE statements (PARTITION BY 0..2 columns, MEASURES, ONE/ALL ROWS PER MATCH, every AFTER MATCH SKIP form, 3 patterns, DEFINE incl. a literal containing DEFINE) with the clause compared field by field; (c) layout: each statement in 3 keyword cases x 5 separators (blank, newline, tab, two blanks, CRLF) must give a deep-equal configuration, and equal EmitSync results for a subset; non-trivial = the input was accepted",
		Bounds:      map[string]any{"token_len": map[string]int{"quick": 5, "thorough": 6}, "byte_len": map[string]int{"quick": 4, "thorough": 5}},
		Assumptions: []string{"the grammar is the one accepted by rsql.Parser (clause order HAVING, WITH, ORDER BY, LIMIT; '*' only as the first select item)", "hang = a single Parse taking more than 5 s of wall clock"},
	}
}

func init() { fw.Register(c11{}) }
