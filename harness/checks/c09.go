package checks

import (
	"fmt"
	"strings"
	"reflect"

	"verifharness/explore"
	"verifharness/fw"

	"github.com/rulego/streamsql"
	"github.com/rulego/streamsql/logger"
	"github.com/rulego/streamsql/verifrt/sched"
	vtime "github.com/rulego/streamsql/verifrt/time"
)

// C09: counting windows emit, per key, consecutive batches of exactly N rows.

type c09Cfg struct {
	N     int  `json:"n"`
	Cols  int  `json:"group_cols"`
	Eager bool `json:"eager_feed"`
	MaxL  int  `json:"max_len"`
	// Sparse: two grouping columns where a column may be missing: (a,a), (a,missing), (missing,a)
	Sparse bool `json:"sparse_keys,omitempty"`
	// Func: the second grouping column is the function expression upper(k2) behind the bare column k
	Func bool `json:"function_key,omitempty"`
	// Mixed: one key value arrives as text and as a number with the same spelling ("7", 7); whether these are one
	// key or two is not fixed by the property, but the windowing and the aggregation must agree on it
	Mixed bool `json:"mixed_spelling,omitempty"`
	// GapMs: virtual time slept after every row (the default configuration never reaps key state, whatever the pauses)
	GapMs int `json:"gap_ms,omitempty"`
	// TTL: WITH (STATETTL=...) ; sequences in which some key stays idle for TTL or longer are outside the property and skipped
	TTL string `json:"state_ttl,omitempty"`
	// Block: overflow strategy block without a timeout, a window output buffer of one batch and a sink that takes
	// 20 ms of virtual time per batch: the window has to wait for its consumer and may not discard a cut batch
	Block bool `json:"block_slow_consumer,omitempty"`
	// Stats: GetStats, GetDetailedStats and Stream().ResetStats() are called after every row (statistics are not
	// window state: the batches are what they are without these calls)
	Stats bool `json:"stats_calls_between_rows,omitempty"`
	// PanicSink: a synchronous sink registered before the observing one panics on every batch; the engine recovers
	// such panics, and what the observing sink is given is what it is given without the panicking neighbour
	PanicSink bool `json:"panicking_neighbour_sink,omitempty"`
	// NestedKey: the grouping column is the nested path d.x (selected AS k); the key value sits one level down in the row
	NestedKey bool `json:"nested_path_key,omitempty"`
	// BigNum: float64 key values that differ only beyond float32 precision (ids decoded from JSON), next to a text key
	BigNum bool `json:"float64_keys_beyond_float32,omitempty"`
	// QuotedN: the count written as a quoted number, CountingWindow('3')
	QuotedN bool `json:"count_quoted,omitempty"`
}

func c09Opts(cfg c09Cfg) detOpts {
	o := detOpts{Eager: cfg.Eager, Horizon: 300 * vtime.Millisecond, PanicSink: cfg.PanicSink}
	if cfg.Block {
		p := smallPerf("block", 64, 64, 1)
		o.Perf = &p
		o.SinkDelay = 20 * vtime.Millisecond
		o.Horizon = 2 * vtime.Second
	}
	return o
}

func c09Configs(tier string) []c09Cfg {
	maxL := 7
	if tier == "thorough" {
		maxL = 9
	}
	var out []c09Cfg
	for _, n := range []int{1, 2, 3, 4} {
		for _, cols := range []int{1, 2} {
			for _, eager := range []bool{false, true} {
				if n == 4 && tier != "thorough" {
					continue
				}
				out = append(out, c09Cfg{N: n, Cols: cols, Eager: eager, MaxL: maxL})
			}
		}
	}
	for _, n := range []int{2, 3} {
		for _, eager := range []bool{false, true} {
			out = append(out, c09Cfg{N: n, Cols: 2, Eager: eager, MaxL: maxL, Sparse: true})
		}
		out = append(out, c09Cfg{N: n, Cols: 1, Eager: true, MaxL: maxL - 1, Mixed: true})
		out = append(out, c09Cfg{N: n, Cols: 2, Eager: true, MaxL: maxL - 1, Func: true})
		out = append(out, c09Cfg{N: n, Cols: 1, Eager: true, MaxL: maxL - 1, GapMs: 1500})
		out = append(out, c09Cfg{N: n, Cols: 1, Eager: true, MaxL: maxL - 1, GapMs: 1500, TTL: "1m"})
		out = append(out, c09Cfg{N: n, Cols: 1, Eager: true, MaxL: maxL - 1, GapMs: 25000, TTL: "1m"})
	}
	for _, n := range []int{1, 2} {
		out = append(out, c09Cfg{N: n, Cols: 1, Eager: false, MaxL: maxL, Block: true})
	}
	for _, n := range []int{2, 3} {
		out = append(out, c09Cfg{N: n, Cols: 1, Eager: true, MaxL: maxL - 1, Stats: true})
		out = append(out, c09Cfg{N: n, Cols: 1, Eager: false, MaxL: maxL - 1, PanicSink: true})
		out = append(out, c09Cfg{N: n, Cols: 1, Eager: true, MaxL: maxL - 1, NestedKey: true})
		out = append(out, c09Cfg{N: n, Cols: 1, Eager: true, MaxL: maxL - 1, BigNum: true})
		out = append(out, c09Cfg{N: n, Cols: 1, Eager: true, MaxL: maxL - 2, QuotedN: true})
	}
	return out
}

// growthStrings enumerates all key-index sequences of length 1..maxL over at most k keys in
// canonical form (a new key index is always the smallest unused one).
func growthStrings(maxL, k int, f func([]int)) {
	var rec func(seq []int, used int)
	rec = func(seq []int, used int) {
		if len(seq) > 0 {
			f(seq)
		}
		if len(seq) == maxL {
			return
		}
		for x := 0; x <= used && x < k; x++ {
			nu := used
			if x == used {
				nu++
			}
			rec(append(seq, x), nu)
		}
	}
	rec(nil, 0)
}

var c09Keys1 = []Row{{"k": "a"}, {"k": "b"}, {"k": "c"}}
var c09Keys2 = []Row{{"k": "a", "k2": "x"}, {"k": "a", "k2": "y"}, {"k": "b", "k2": "x"}}
var c09KeysMixed = []Row{{"k": "7"}, {"k": 7}, {"k": "b"}}
var c09KeysBig = []Row{{"k": 100000001.0}, {"k": 100000002.0}, {"k": 1234567.891}}
var c09KeysSparse = []Row{{"k": "a", "k2": "a"}, {"k": "a"}, {"k2": "a"}}

// c09InScope: with a STATETTL the property only speaks about runs in which no key is reaped, i.e. no
// key with a non-empty partial buffer stays idle for the TTL or longer (idle = distance x gap).
func c09InScope(cfg c09Cfg, seq []int) bool {
	if cfg.TTL == "" {
		return true
	}
	ttl, _ := vtime.ParseDuration(cfg.TTL)
	last := map[int]int{}
	for i, k := range seq {
		last[k] = i
	}
	prev := map[int]int{}
	for i, k := range seq {
		if j, ok := prev[k]; ok && int64(i-j)*int64(cfg.GapMs)*1e6 >= int64(ttl)-int64(vtime.Second) {
			return false
		}
		prev[k] = i
	}
	return true
}

func c09SQL(cfg c09Cfg) string {
	with := ""
	if cfg.TTL != "" {
		with = " WITH (STATETTL='" + cfg.TTL + "')"
	}
	if cfg.NestedKey {
		return fmt.Sprintf("SELECT d.x AS k, count(*) AS c, collect(id) AS ids, first_value(id) AS f, last_value(id) AS l FROM stream GROUP BY d.x, CountingWindow(%d)", cfg.N) + with
	}
	if cfg.Func {
		return fmt.Sprintf("SELECT k, upper(k2) AS k2, count(*) AS c, collect(id) AS ids, first_value(id) AS f, last_value(id) AS l FROM stream GROUP BY k, upper(k2), CountingWindow(%d)", cfg.N) + with
	}
	if cfg.Cols == 2 {
		return fmt.Sprintf("SELECT k, k2, count(*) AS c, collect(id) AS ids, first_value(id) AS f, last_value(id) AS l FROM stream GROUP BY k, k2, CountingWindow(%d)", cfg.N) + with
	}
	if cfg.QuotedN {
		return fmt.Sprintf("SELECT k, count(*) AS c, collect(id) AS ids, first_value(id) AS f, last_value(id) AS l FROM stream GROUP BY k, CountingWindow('%d')", cfg.N) + with
	}
	return fmt.Sprintf("SELECT k, count(*) AS c, collect(id) AS ids, first_value(id) AS f, last_value(id) AS l FROM stream GROUP BY k, CountingWindow(%d)", cfg.N) + with
}

func c09Keys(cfg c09Cfg) []Row {
	if cfg.Mixed {
		return c09KeysMixed
	}
	if cfg.BigNum {
		return c09KeysBig
	}
	if cfg.Sparse {
		return c09KeysSparse
	}
	if cfg.Cols == 2 {
		return c09Keys2
	}
	return c09Keys1
}

// c09Expected: per key index, the list of id batches.
func c09Expected(seq []int, n int) map[int][][]int {
	buf := map[int][]int{}
	out := map[int][][]int{}
	for i, k := range seq {
		buf[k] = append(buf[k], i+1)
		if len(buf[k]) == n {
			out[k] = append(out[k], buf[k])
			buf[k] = nil
		}
	}
	return out
}

// c09Compare checks the delivered batches against the per-key reference.
func c09Compare(cfg c09Cfg, seq []int, batches []Batch) (kind, what string) {
	if cfg.Mixed {
		// reading 1: "7" and 7 are two keys; reading 2: they are one key
		kind, what = c09CompareMapped(cfg, seq, batches, nil)
		if kind == "" {
			return "", ""
		}
		if k2, _ := c09CompareMapped(cfg, seq, batches, map[int]int{1: 0}); k2 == "" {
			return "", ""
		}
		return kind, what + " (and no better if \"7\" and 7 are read as one key)"
	}
	return c09CompareMapped(cfg, seq, batches, nil)
}

// c09CompareMapped: merge maps key indexes onto the index of the key they are considered equal to.
func c09CompareMapped(cfg c09Cfg, seq []int, batches []Batch, merge map[int]int) (kind, what string) {
	if merge != nil {
		ms := make([]int, len(seq))
		for i, x := range seq {
			ms[i] = x
			if y, ok := merge[x]; ok {
				ms[i] = y
			}
		}
		seq = ms
	}
	keys := c09Keys(cfg)
	exp := c09Expected(seq, cfg.N)
	got := map[int][][]int{}
	for _, b := range batches {
		for _, r := range b {
			ki := -1
			for i, k := range keys {
				k2 := k["k2"]
				if s2, ok := k2.(string); ok && cfg.Func {
					k2 = strings.ToUpper(s2)
				}
				if r["k"] == k["k"] && (cfg.Cols == 1 || r["k2"] == k2) {
					ki = i
					if y, ok := merge[i]; ok {
						ki = y
					}
				}
			}
			if ki < 0 {
				return "unknown-key", fmt.Sprintf("result row with unknown key: %s", js(r))
			}
			ids := idList(r["ids"])
			if c, _ := num(r["c"]); int(c) != cfg.N {
				return "count", fmt.Sprintf("count(*)=%v in a CountingWindow(%d) result %s", r["c"], cfg.N, js(r))
			}
			if len(ids) > 0 && (toInt(r["f"]) != ids[0] || toInt(r["l"]) != ids[len(ids)-1]) {
				return "first-last", fmt.Sprintf("first_value/last_value disagree with collect: %s", js(r))
			}
			got[ki] = append(got[ki], ids)
		}
	}
	for ki := range keys {
		if !reflect.DeepEqual(got[ki], exp[ki]) {
			kind := "batching"
			if len(got[ki]) < len(exp[ki]) {
				kind = "missing-result"
			} else if len(got[ki]) > len(exp[ki]) {
				kind = "extra-result"
			}
			return kind, fmt.Sprintf("key %v: delivered id batches %v, expected %v", js(keys[ki]), got[ki], exp[ki])
		}
	}
	return "", ""
}

func c09Feed(cfg c09Cfg, seq []int) func(e *Env) {
	keys := c09Keys(cfg)
	return func(e *Env) {
		for i, k := range seq {
			row := Row{"id": i + 1}
			for kk, vv := range keys[k] {
				row[kk] = vv
			}
			if cfg.NestedKey {
				row = Row{"id": i + 1, "k": "top-level", "d": map[string]any{"x": keys[k]["k"], "y": i}}
			}
			e.Emit(row)
			if cfg.Stats {
				e.S.GetStats()
				e.S.GetDetailedStats()
				if st := e.S.Stream(); st != nil {
					st.ResetStats()
				}
			}
			if cfg.GapMs > 0 {
				e.Sleep(vtime.Duration(cfg.GapMs) * vtime.Millisecond)
			}
		}
	}
}

type c09 struct{}

func (c09) ID() string { return "C09" }

var c09SchedSeqs = [][]int{{0, 1, 0, 0, 1}, {0, 0, 1, 0, 1, 1}, {0, 1, 2, 0}}

func c09Scenarios() []schedScenario {
	var out []schedScenario
	for _, n := range []int{1, 2, 3} {
		for _, seq := range c09SchedSeqs {
			cfg := c09Cfg{N: n, Cols: 1}
			seq := seq
			name := fmt.Sprintf("sched-n%d-seq%v", n, seq)
			out = append(out, schedScenario{Name: name, Params: map[string]any{"n": n, "seq": seq}, Run: func(ch sched.Chooser, local map[int]bool) (*sched.Result, string, *explore.Failure) {
				var batches []Batch
				var execErr string
				res := sched.Run(sched.Config{Chooser: ch, MaxSteps: 50000, Trace: traceFn()}, func() {
					s := streamsql.New(streamsql.WithLogger(logger.NewDiscardLogger()))
					if err := s.Execute(c09SQL(cfg)); err != nil {
						execErr = err.Error()
						return
					}
					s.AddSyncSink(func(rows []map[string]any) { batches = append(batches, copyBatch(rows)) })
					env := &Env{S: s}
					c09Feed(cfg, seq)(env)
					vtime.Sleep(250 * vtime.Millisecond)
					sched.Quiesce()
					s.Stop()
					sched.Quiesce()
				})
				out := js(batches)
				if execErr != "" {
					return res, out, &explore.Failure{Signature: "C09|execute-error", What: execErr}
				}
				if res.Status != sched.StatusOK {
					return res, out, &explore.Failure{Signature: "C09|sched|" + res.Status.String(), What: "execution ended with " + res.Status.String() + " " + firstLine(res.PanicVal) + " live=" + liveDesc(res)}
				}
				if kind, what := c09Compare(cfg, seq, batches); kind != "" {
					return res, out, &explore.Failure{Signature: "C09|sched|" + kind, What: what, Observed: batches}
				}
				return res, out, nil
			}})
		}
	}
	return out
}

func (c09) Plan(tier string) []fw.Unit {
	us := planEnum("C09", tier, len(c09Configs(tier)), 1)
	us = append(us, fw.Unit{Check: "C09", Kind: "key-pairs", Tier: tier, Spec: fw.Spec(enumSpec{})})
	us = append(us, fw.Unit{Check: "C09", Kind: "count-spelling", Tier: tier, Spec: fw.Spec(enumSpec{})})
	bound := 1
	if tier == "thorough" {
		bound = 2
	}
	scs := c09Scenarios()
	for i, sc := range scs {
		if tier == "quick" && i != 1 && i != 3 && i != 8 {
			continue // quick: (n=1,[0 0 1 0 1 1]) (n=2,[0 1 0 0 1]) (n=3,[0 1 2 0])
		}
		us = append(us, fw.Unit{Check: "C09", Kind: "sched", Tier: tier, Spec: fw.Spec(schedSpec{Scn: i, Name: sc.Name, Items: []explore.Item{{}}, Bound: bound, Budget: 20000})})
	}
	return us
}

func (c09) Run(u fw.Unit) fw.Result {
	if u.Kind == "sched" {
		return runSched("C09", u, c09Scenarios())
	}
	if u.Kind == "key-pairs" {
		return c09KeyPairs()
	}
	if u.Kind == "count-spelling" {
		return c09LeadingZero()
	}
	sp := parseEnum(u)
	cfg := c09Configs(u.Tier)[sp.Cfg]
	a := newAcc("C09", "det-counting")
	sql := c09SQL(cfg)
	idx := 0
	growthStrings(cfg.MaxL, 3, func(seq []int) {
		idx++
		if idx%sp.Shards != sp.Shard {
			return
		}
		seq = append([]int(nil), seq...)
		if !c09InScope(cfg, seq) {
			return
		}
		r := detExec(sql, c09Opts(cfg), c09Feed(cfg, seq))
		a.r.Evaluations++
		a.r.States++
		a.r.Transitions += int64(r.Steps)
		if len(r.Batches) > 0 {
			a.r.Nontrivial++
		}
		cs := map[string]any{"cfg": cfg, "seq": seq, "sql": sql}
		a.outcome(js(r.Batches))
		switch {
		case r.ExecErr != "":
			a.fail("C09|execute-error", r.ExecErr, cs, nil, nil)
		case r.Status != sched.StatusOK:
			a.fail("C09|det|"+r.Status.String(), "execution ended with "+r.Status.String()+" "+firstLine(r.Panic), cs, nil, nil)
		default:
			if kind, what := c09Compare(cfg, seq, r.Batches); kind != "" {
				sig := fmt.Sprintf("C09|det|%s|cols=%d", kind, cfg.Cols)
				if cfg.NestedKey {
					sig += "|nested-path-key"
				}
				a.fail(sig, what, cs, c09Expected(seq, cfg.N), r.Batches)
			}
		}
		if idx == 40 {
			a.sample(map[string]any{"cfg": cfg, "key_sequence": seq, "delivered": r.Batches})
		}
	})
	return a.result()
}

func (c09) Describe(tier string) fw.Description {
	return fw.Description{
		Level: "model_checking",
		Rule: "(a) all key sequences of length 1..L over <=3 keys (canonical up to key renaming) x N in {1,2,3[,4]} x 1|2 grouping columns (also tuples with a missing column: (a,a), (a,-), (-,a)) x eager|lazy feed, plus pauses of 1.5 s / 25 s of virtual time after every row without and with STATETTL=1m (sequences in which a key idles >= TTL are outside the property and skipped), also function-expression keys, one key spelt as text and as number, strategy block with a lagging consumer, GetStats / ResetStats calls after every row, a panicking synchronous sink in front of the observing one, the key written as the nested path d.x, and key tuples colliding under faulty encoders; each executed on the real engine (streamsql.New/Execute/Emit, sync sink) under the deterministic schedule with the virtual clock and compared with the per-key batching reference (ids via collect, count, first/last); " +
			"(b) 9 fixed sequences x N explored over all schedules of producer, data processor, counting-window goroutine and result consumer with <= bound preemptions; non-trivial = at least one window result delivered (a) / reached through >=1 deviation (b)",
		Bounds:      map[string]any{"max_len": map[string]int{"quick": 7, "thorough": 9}, "keys": 3, "N": "1..3 (4 in thorough)", "sched_bound": map[string]int{"quick": 1, "thorough": 2}},
		Assumptions: []string{"runs in which STATETTL reaps a key are excluded (the property excludes them); the default configuration (no STATETTL) must never reap", "with the default drop strategy the window output buffer (50) and data buffer (1000) are never full inside the bounds; the block configurations fill a one-batch window output buffer on purpose", "key values contain no separator characters (that is C04's alphabet)"},
	}
}

func (c09) Replay(v fw.Violation) (string, bool) {
	m := caseMap(v)
	if _, ok := m["scn"]; ok {
		return replaySched(c09Scenarios(), m)
	}
	var cfg c09Cfg
	remarshal(m["cfg"], &cfg)
	var seq []int
	remarshal(m["seq"], &seq)
	out := ""
	failed := false
	for i := 0; i < 2; i++ {
		r := detExec(c09SQL(cfg), c09Opts(cfg), c09Feed(cfg, seq))
		kind, what := c09Compare(cfg, seq, r.Batches)
		out += fmt.Sprintf("run %d: status=%s delivered=%s verdict=%s %s\n", i+1, r.Status, js(r.Batches), kind, what)
		if kind != "" || r.Status != sched.StatusOK {
			failed = true
		}
	}
	return out, failed
}

func init() { fw.Register(c09{}) }
