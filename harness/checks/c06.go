package checks

import (
	"fmt"
	"strings"

	"verifharness/fw"
	"verifharness/ref"

	"github.com/rulego/streamsql/functions"
	"github.com/rulego/streamsql/verifrt/sched"
)

// C06 part 1: scalar expressions follow SQL arithmetic, comparison, logic, CASE and NULL rules.

type c06Expr struct {
	N     ref.Node
	Class string
	Bool  bool // boolean-valued: also checked in WHERE
}

var (
	cA, cB, cS = ref.Col{Name: "a"}, ref.Col{Name: "b"}, ref.Col{Name: "s"}
	nl         = func(t string) ref.Node { return ref.NumLit{Text: t} }
	sl         = func(t string) ref.Node { return ref.StrLit{S: t} }
	bin        = func(op string, l, r ref.Node) ref.Node { return ref.Bin{Op: op, L: l, R: r} }
	par        = func(x ref.Node) ref.Node { return ref.Paren{X: x} }
)

func c06Conds() []ref.Node {
	return []ref.Node{
		bin(">", cA, nl("1")), bin("<", cB, nl("2")), bin("=", cA, cB), bin("!=", cA, nl("2")), bin("=", cS, sl("x")), bin(">=", cB, nl("0.5")),
		// the literal first (a keyword directly in front of a number when the condition follows AND / OR / NOT / WHEN)
		bin(">", nl("2"), cA), bin("<=", nl("0.5"), cB),
	}
}

func c06Exprs(tier string) []c06Expr {
	var out []c06Expr
	atoms := []ref.Node{cA, cB, nl("0"), nl("1"), nl("2"), nl("-1"), nl("0.5")}
	ops := []string{"+", "-", "*", "/"}
	for _, x := range atoms {
		for _, op := range ops {
			for _, y := range atoms {
				out = append(out, c06Expr{bin(op, x, y), "arith1", false})
			}
		}
	}
	small := []ref.Node{cA, cB, nl("2"), nl("0.5"), nl("-1")}
	isMul := func(op string) bool { return op == "*" || op == "/" }
	for _, x := range small {
		for _, y := range small {
			for _, z := range small {
				for _, o1 := range ops {
					for _, o2 := range ops {
						// no parentheses: SQL precedence
						var t ref.Node
						if isMul(o2) && !isMul(o1) {
							t = ref.Bin{Op: o1, L: x, R: ref.Bin{Op: o2, L: y, R: z}}
						} else {
							t = ref.Bin{Op: o2, L: ref.Bin{Op: o1, L: x, R: y}, R: z}
						}
						out = append(out, c06Expr{t, "arith2-precedence", false})
						if tier == "thorough" || (o1 != "/" && o2 != "/") {
							out = append(out, c06Expr{bin(o2, par(bin(o1, x, y)), z), "arith2-paren", false})
							out = append(out, c06Expr{bin(o1, x, par(bin(o2, y, z))), "arith2-paren", false})
						}
					}
				}
			}
		}
	}
	cmpAtoms := []ref.Node{cA, cB, nl("1"), nl("2"), nl("0.5")}
	for _, x := range cmpAtoms {
		for _, op := range []string{">", ">=", "<", "<=", "=", "!="} {
			for _, y := range cmpAtoms {
				out = append(out, c06Expr{bin(op, x, y), "cmp", true})
			}
		}
	}
	for _, op := range []string{"=", "!=", ">", "<"} {
		out = append(out, c06Expr{bin(op, cS, sl("x")), "cmp-string", true}, c06Expr{bin(op, cS, sl("1")), "cmp-string", true})
	}
	// arithmetic inside comparisons
	out = append(out, c06Expr{bin(">", bin("+", cA, cB), nl("3")), "cmp-arith", true}, c06Expr{bin("<=", bin("*", cA, nl("2")), bin("+", cB, nl("4"))), "cmp-arith", true},
		c06Expr{bin("=", par(bin("-", cA, cB)), nl("0")), "cmp-arith", true})
	cs := c06Conds()
	for _, c1 := range cs {
		out = append(out, c06Expr{ref.Not{X: c1}, "not", true}, c06Expr{ref.Not{X: par(c1)}, "not", true})
		for _, c2 := range cs {
			out = append(out, c06Expr{bin("AND", c1, c2), "and-or", true}, c06Expr{bin("OR", c1, c2), "and-or", true})
			out = append(out, c06Expr{bin("AND", ref.Not{X: par(c1)}, c2), "not-and", true})
			for _, c3 := range cs[:3] {
				// NOT nested inside / in front of parenthesised groups
				out = append(out,
					c06Expr{bin("AND", par(bin("OR", c1, ref.Not{X: c2})), c3), "not-in-group", true},
					c06Expr{bin("OR", par(bin("AND", ref.Not{X: c1}, c2)), c3), "not-in-group", true},
					c06Expr{bin("AND", c1, par(bin("OR", ref.Not{X: c2}, c3))), "not-in-group", true},
					c06Expr{bin("AND", ref.Not{X: par(bin("OR", c1, ref.Not{X: c2}))}, c3), "not-in-group", true})
			}
			for _, c3 := range cs {
				// c1 OR c2 AND c3  (AND binds tighter)
				out = append(out, c06Expr{ref.Bin{Op: "OR", L: c1, R: ref.Bin{Op: "AND", L: c2, R: c3}}, "mixed-and-or-precedence", true})
				out = append(out, c06Expr{bin("AND", par(bin("OR", c1, c2)), c3), "mixed-and-or-paren", true})
			}
		}
	}
	vals := []ref.Node{cA, nl("1"), sl("hi"), bin("+", cA, nl("1"))}
	for _, c1 := range cs {
		for _, v1 := range vals {
			for _, v2 := range vals {
				out = append(out, c06Expr{ref.Case{Whens: []ref.Node{c1}, Thens: []ref.Node{v1}, Else: v2}, "case-searched", false})
			}
			out = append(out, c06Expr{ref.Case{Whens: []ref.Node{c1}, Thens: []ref.Node{v1}}, "case-searched-noelse", false})
		}
		for _, c2 := range cs {
			out = append(out, c06Expr{ref.Case{Whens: []ref.Node{c1, c2}, Thens: []ref.Node{sl("first"), sl("second")}, Else: sl("none")}, "case-searched-2", false})
			// compound conditions inside WHEN
			out = append(out, c06Expr{ref.Case{Whens: []ref.Node{bin("AND", c1, c2)}, Thens: []ref.Node{sl("both")}, Else: sl("no")}, "case-when-and", false},
				c06Expr{ref.Case{Whens: []ref.Node{bin("OR", c1, c2)}, Thens: []ref.Node{nl("1")}, Else: nl("0")}, "case-when-or", false})
		}
	}
	out = append(out,
		c06Expr{ref.Case{Subject: cA, Whens: []ref.Node{nl("2"), nl("1")}, Thens: []ref.Node{sl("two"), sl("one")}, Else: sl("other")}, "case-simple", false},
		c06Expr{ref.Case{Subject: cA, Whens: []ref.Node{nl("2")}, Thens: []ref.Node{nl("20")}}, "case-simple-noelse", false},
		c06Expr{ref.Case{Subject: cS, Whens: []ref.Node{sl("x")}, Thens: []ref.Node{nl("1")}, Else: nl("0")}, "case-simple", false},
		c06Expr{ref.Case{Subject: cB, Whens: []ref.Node{nl("0.5"), nl("2")}, Thens: []ref.Node{cA, bin("*", cA, nl("2"))}, Else: nl("-1")}, "case-simple", false},
	)
	return out
}

func c06Rows() []Row {
	var rows []Row
	as := []any{2, 2.5, -1, nil, c04Missing}
	bs := []any{2, 0.5, nil}
	ss := []any{"x", "1", nil}
	for _, a := range as {
		for _, b := range bs {
			for _, s := range ss {
				r := Row{}
				if a != c04Missing {
					r["a"] = a
				}
				r["b"] = b
				r["s"] = s
				rows = append(rows, r)
			}
		}
	}
	return rows
}

func c06RowDesc(r Row) string {
	d := func(k string) string {
		v, ok := r[k]
		if !ok {
			return "absent"
		}
		if v == nil {
			return "NULL"
		}
		return fmt.Sprintf("%T(%v)", v, v)
	}
	return fmt.Sprintf("a=%s b=%s s=%s", d("a"), d("b"), d("s"))
}

func c06NullInvolved(r Row) bool {
	_, aok := r["a"]
	return !aok || r["a"] == nil || r["b"] == nil || r["s"] == nil
}

// variants of one SQL text: keyword case, redundant whitespace, redundant outer parentheses
func c06Variants(sql string, boolean bool) []string {
	v := []string{sql}
	low := sql
	for _, kw := range []string{"AND", "OR", "NOT", "CASE", "WHEN", "THEN", "ELSE", "END"} {
		low = strings.ReplaceAll(low, " "+kw+" ", " "+strings.ToLower(kw)+" ")
		if strings.HasPrefix(low, kw+" ") {
			low = strings.ToLower(kw) + low[len(kw):]
		}
		if strings.HasSuffix(low, " "+kw) {
			low = low[:len(low)-len(kw)] + strings.ToLower(kw)
		}
	}
	if low != sql {
		v = append(v, low)
	}
	v = append(v, strings.ReplaceAll(sql, " ", "  "))
	if boolean {
		v = append(v, "("+sql+")")
	}
	return v
}

type c06 struct{}

func (c06) ID() string { return "C06" }

func (c06) Plan(tier string) []fw.Unit {
	shards := 16
	var us []fw.Unit
	for s := 0; s < shards; s++ {
		us = append(us, fw.Unit{Check: "C06", Kind: "expr", Tier: tier, Spec: fw.Spec(enumSpec{Shard: s, Shards: shards})})
	}
	us = append(us, c06FuncUnits(tier)...)
	return us
}

// c06CompareValue compares an engine value with the reference value.
func c06CompareValue(got any, gotPresent bool, want any, boolean bool) (kind string) {
	switch w := want.(type) {
	case nil:
		if got == nil {
			return ""
		}
		if boolean {
			if b, ok := got.(bool); ok && !b {
				return "" // UNKNOWN reported as false: "not true"
			}
		}
		return "null-expected-got-value"
	case float64:
		g, ok := num(got)
		if !ok {
			if got == nil {
				return "value-expected-got-null"
			}
			return "type-differs"
		}
		if !ref.Close(g, w) {
			return "value-differs"
		}
	case string:
		g, ok := got.(string)
		if !ok {
			if got == nil {
				return "value-expected-got-null"
			}
			return "type-differs"
		}
		if g != w {
			return "value-differs"
		}
	case bool:
		g, ok := got.(bool)
		if !ok {
			if got == nil {
				return "value-expected-got-null"
			}
			if f, isn := num(got); isn && (f == 1) == w && (f == 0 || f == 1) {
				return ""
			}
			return "type-differs"
		}
		if g != w {
			return "value-differs"
		}
	}
	return ""
}

func (c06) Run(u fw.Unit) fw.Result {
	if u.Kind != "expr" {
		return c06RunFuncs(u)
	}
	sp := parseEnum(u)
	a := newAcc("C06", "expr")
	exprs := c06Exprs(u.Tier)
	rows := c06Rows()
	rev := make([]Row, len(rows))
	for i := range rows {
		rev[len(rows)-1-i] = rows[i]
	}
	for ei, ex := range exprs {
		if ei%sp.Shards != sp.Shard {
			continue
		}
		base := ex.N.SQL()
		variants := []string{base}
		if ex.Class != "arith1" && ex.Class != "arith2-precedence" && ex.Class != "arith2-paren" && ex.Class != "cmp" {
			variants = c06Variants(base, ex.Bool)
		}
		for vi, text := range variants {
			type ctx struct {
				name, sql string
			}
			ctxs := []ctx{{"select", "SELECT " + text + " AS r FROM stream"}}
			if ex.Bool {
				ctxs = append(ctxs, ctx{"where", "SELECT a FROM stream WHERE " + text})
			}
			for _, cx := range ctxs {
				res, execErr, st, pv := syncEval(cx.sql, rows)
				cs := map[string]any{"sql": cx.sql, "class": ex.Class}
				if st != sched.StatusOK {
					a.fail("C06|"+cx.name+"|abort", st.String()+" "+firstLine(pv), cs, nil, nil)
					continue
				}
				if execErr != "" {
					a.fail(fmt.Sprintf("C06|%s|%s|rejected", cx.name, ex.Class), "well-formed expression rejected: "+execErr, cs, nil, nil)
					continue
				}
				// history: same rows in reverse order on a fresh process-wide cache must give the same answers
				var resRev []syncResult
				if vi == 0 {
					inSchedReset()
					resRev, _, _, _ = syncEval(cx.sql, rev)
				}
				for ri, row := range rows {
					a.r.Evaluations++
					a.r.Transitions++
					want, defined := ex.N.Eval(row)
					sr := res[ri]
					if strings.HasPrefix(sr.Err, "PANIC") {
						a.fail(fmt.Sprintf("C06|%s|%s|panic", cx.name, ex.Class), sr.Err, map[string]any{"sql": cx.sql, "row": c06RowDesc(row)}, nil, nil)
						continue
					}
					if resRev != nil {
						rr := resRev[len(rows)-1-ri]
						if js(rr.Row) != js(sr.Row) || rr.Err != sr.Err {
							a.fail(fmt.Sprintf("C06|%s|%s|history-dependent", cx.name, ex.Class), fmt.Sprintf("%s on %s: %s after the rows before it, %s on fresh caches with the rows in reverse order", cx.sql, c06RowDesc(row), js(sr.Row), js(rr.Row)),
								map[string]any{"sql": cx.sql, "row": c06RowDesc(row)}, js(rr.Row), js(sr.Row))
						}
					}
					if !defined {
						a.r.Skipped++
						continue
					}
					a.r.States++
					if vi == 0 {
						a.r.Nontrivial++
					}
					var kind string
					if cx.name == "where" {
						acc := sr.Row != nil
						wantAcc := want == true
						if acc != wantAcc {
							kind = fmt.Sprintf("accepts=%v", acc)
						}
					} else {
						if sr.Row == nil {
							kind = "no-result-row"
						} else {
							got, present := sr.Row["r"]
							kind = c06CompareValue(got, present, want, ex.Bool)
						}
					}
					a.outcome(fmt.Sprint(text, ri, js(sr.Row)))
					if kind != "" {
						a.fail(fmt.Sprintf("C06|%s|%s|%s|null-operand-in-row=%v", cx.name, ex.Class, kind, c06NullInvolved(row)),
							fmt.Sprintf("%s on row %s: engine %s %s, SQL semantics %v", cx.sql, c06RowDesc(row), js(sr.Row), sr.Err, want),
							map[string]any{"sql": cx.sql, "row": c06RowDesc(row), "shape": ref.Shape(ex.N)}, want, js(sr.Row))
					}
				}
			}
		}
		if ei == 700 {
			a.sample(map[string]any{"sql": "SELECT " + base + " AS r FROM stream", "rows": len(rows), "class": ex.Class})
		}
	}
	return a.result()
}

func inSchedReset() { functions.VerifResetGlobals() }

func (c06) Describe(tier string) fw.Description {
	return fw.Description{
		Level: "model_checking",
		Rule: "(a) all generated expression ASTs: binary arithmetic over 7 atoms, three-operand arithmetic without parentheses (precedence) and with both parenthesisations over 5 atoms x 16 operator pairs, comparisons, string comparisons, NOT / AND / OR / mixed precedence over 6 conditions (all pairs and triples), searched and simple CASE with/without ELSE; printed in textual variants (keyword case, doubled spaces, redundant outer parentheses); contexts SELECT e AS r and WHERE e; each on 45 rows (a in int 2, float 2.5, -1, NULL, absent; b in 2, 0.5, NULL; s in 'x','1',NULL) through EmitSync; oracle = ref.Expr (NULL-propagating arithmetic, comparisons with NULL not true, three-valued AND/OR/NOT, first true CASE branch); (b) history: every query also evaluated with the rows in reverse order after VerifResetGlobals() and compared row by row; (c) functions: see extra.functions_*; numbers cast to text or concatenated read back exactly; eight case-variant expression pairs in both orders against their value in a fresh process; a case = (expression text, context, row); non-trivial = reference defined for the row (canonical text variant)",
		Bounds:      map[string]any{"arith_atoms": 7, "three_operand_atoms": 5, "conditions": 6, "rows": 45},
		Assumptions: []string{"text or boolean operands of arithmetic and mixed-type comparisons are outside 'SQL semantics over float64': only totality and history-independence are asserted there", "an UNKNOWN boolean in SELECT position may be reported as false or NULL", "division by zero excluded"},
	}
}

func init() { fw.Register(c06{}) }
