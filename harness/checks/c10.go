package checks

import (
	"fmt"
	"sort"
	"strings"

	"verifharness/fw"
	"verifharness/ref"

	"github.com/rulego/streamsql/verifrt/sched"
	vtime "github.com/rulego/streamsql/verifrt/time"
)

// C10: session windows split a key's events at gaps above the timeout, each event once.

type c10Cfg struct {
	Timeout int64 `json:"timeout_ms"`
	OOOMs   int64 `json:"ooo_ms"`
	Keys    int   `json:"keys"`
	MaxL    int   `json:"max_len"`
	GapMs   int64 `json:"gap_ms,omitempty"` // the second half of the arrivals (and the sentinel) lies this much later in event time
	Base    int64 `json:"epoch_base_ms,omitempty"`   // timestamps of a present-day epoch (Base + t - 10000), handed over as float64
	Alpha   []int64 `json:"alphabet_ms,omitempty"` // a reduced timestamp alphabet (longer two-key sequences)
	Block   bool  `json:"block_slow_consumer,omitempty"` // strategy block without timeout, window output buffer of 1, sink taking 20 ms per batch
	NestedKey bool `json:"nested_path_key,omitempty"` // the grouping column is the nested path d.x (selected AS k)
	Form      string `json:"timeout_form,omitempty"` // how the timeout is written: "" = '2000ms', "int" = 2 (seconds), "str-int" = '2', "s" = '2s'
}

func c10Opts(c c10Cfg, eager bool) detOpts {
	o := detOpts{Eager: eager, Horizon: 500 * vtime.Millisecond}
	if c.Block {
		p := smallPerf("block", 64, 64, 1)
		o.Perf = &p
		o.SinkDelay = 20 * vtime.Millisecond
		o.Horizon = 2 * vtime.Second
	}
	return o
}

var c10Times = []int64{10000, 10500, 12000, 12001, 12500, 15000, 16000, 20000}

func c10Configs(tier string) []c10Cfg {
	maxL := 4
	if tier == "thorough" {
		maxL = 6
	}
	var out []c10Cfg
	for _, to := range []int64{2000, 3000} {
		for _, ooo := range []int64{0, 3000} {
			out = append(out, c10Cfg{Timeout: to, OOOMs: ooo, Keys: 1, MaxL: maxL}, c10Cfg{Timeout: to, OOOMs: ooo, Keys: 2, MaxL: maxL - 1})
		}
	}
	out = append(out, c10Cfg{Timeout: 2000, OOOMs: 0, Keys: 2, MaxL: maxL - 1, Block: true})
	out = append(out, c10Cfg{Timeout: 2000, OOOMs: 0, Keys: 2, MaxL: maxL - 1, NestedKey: true})
	// the timeout written as a bare number of seconds, as a quoted number and with the unit s
	for _, form := range []string{"int", "str-int", "s"} {
		out = append(out, c10Cfg{Timeout: 2000, OOOMs: 0, Keys: 2, MaxL: maxL - 1, Form: form})
	}
	// two keys, four arrivals, out-of-order arrivals of one key inside the tolerance while the other key's session is open
	out = append(out, c10Cfg{Timeout: 2000, OOOMs: 3000, Keys: 2, MaxL: 4, Alpha: []int64{12500, 15000, 16000, 17500}})
	// present-day epoch, float64 timestamps (what a JSON decoder hands over); tolerance not a multiple of 4 ms
	out = append(out, c10Cfg{Timeout: 2000, OOOMs: 0, Keys: 1, MaxL: maxL, Base: 1700000000251}, c10Cfg{Timeout: 2000, OOOMs: 2501, Keys: 2, MaxL: maxL - 1, Base: 1700000000251})
	// a source that stays silent for more than a day of event time (all of it far behind the clock)
	out = append(out, c10Cfg{Timeout: 2000, OOOMs: 0, Keys: 2, MaxL: maxL - 1, GapMs: 36 * 3600 * 1000}, c10Cfg{Timeout: 2000, OOOMs: 3000, Keys: 1, MaxL: maxL, GapMs: 36 * 3600 * 1000})
	return out
}

func (c c10Cfg) times() []int64 {
	if len(c.Alpha) > 0 {
		return c.Alpha
	}
	return c10Times
}

func (c c10Cfg) timeoutText() string {
	switch c.Form {
	case "int":
		return fmt.Sprint(c.Timeout / 1000)
	case "str-int":
		return fmt.Sprintf("'%d'", c.Timeout/1000)
	case "s":
		return fmt.Sprintf("'%ds'", c.Timeout/1000)
	}
	return fmt.Sprintf("'%dms'", c.Timeout)
}

func c10SQL(c c10Cfg) string {
	with := "TIMESTAMP='ts', TIMEUNIT='ms'"
	if c.OOOMs > 0 {
		with += fmt.Sprintf(", MAXOUTOFORDERNESS='%dms'", c.OOOMs)
	}
	if c.NestedKey {
		return fmt.Sprintf("SELECT d.x AS k, count(*) AS c, collect(id) AS ids, window_start() AS ws, window_end() AS we FROM stream GROUP BY d.x, SessionWindow(%s) WITH (%s)", c.timeoutText(), with)
	}
	return fmt.Sprintf("SELECT k, count(*) AS c, collect(id) AS ids, window_start() AS ws, window_end() AS we FROM stream GROUP BY k, SessionWindow(%s) WITH (%s)", c.timeoutText(), with)
}

type c10Delivery struct {
	Key    string
	WS, WE int64
	IDs    []int
	AtOps  int
}

func c10Events(c c10Cfg, tsIdx []int, keyBits int) []ref.Event {
	var evs []ref.Event
	for i, x := range tsIdx {
		k := "a"
		if c.Keys > 1 && keyBits>>uint(i)&1 == 1 {
			k = "b"
		}
		ts := c.times()[x]
		if c.Base > 0 {
			ts += c.Base - 10000
		}
		if c.GapMs > 0 && i >= (len(tsIdx)+1)/2 {
			ts += c.GapMs
		}
		evs = append(evs, ref.Event{ID: i + 1, Key: k, TS: ts})
	}
	sent := int64(500000) + c.GapMs
	if c.Base > 0 {
		sent += c.Base
	}
	evs = append(evs, ref.Event{ID: 99, Key: "zz", TS: sent})
	return evs
}

// c10Ms: window_start()/window_end() are nanoseconds; a bound that is not a whole millisecond cannot be an event
// timestamp (+ timeout) of these inputs and is mapped to an impossible value, so that the bounds monitors report it.
func c10Ms(v any) int64 {
	var ns int64
	switch x := v.(type) {
	case int64:
		ns = x
	case int:
		ns = int64(x)
	case float64:
		ns = int64(x)
	default:
		return -1
	}
	if ns%1000000 != 0 {
		return -ns
	}
	return ns / 1000000
}

func c10Deliveries(r detResult) []c10Delivery {
	var out []c10Delivery
	for bi, b := range r.Batches {
		for _, row := range b {
			ws, _ := num(row["ws"])
			we, _ := num(row["we"])
			k, _ := row["k"].(string)
			d := c10Delivery{Key: k, WS: c10Ms(row["ws"]), WE: c10Ms(row["we"]), IDs: sortedInts(idList(row["ids"])), AtOps: r.AtOps[bi]}
			_, _ = ws, we
			out = append(out, d)
		}
	}
	return out
}

// c10Check applies exactly the constraints the property states.
// c10Check returns every constraint that fails (one entry per kind), so that a known finding of
// one kind cannot hide a different violation in the same run.
func c10Check(c c10Cfg, evs []ref.Event, ds []c10Delivery, eager bool) (fails [][2]string) {
	seen := map[string]bool{}
	add := func(kind, what string) {
		if !seen[kind] {
			seen[kind] = true
			fails = append(fails, [2]string{kind, what})
		}
	}
	c10CheckInto(c, evs, ds, eager, add)
	return fails
}

func c10CheckInto(c c10Cfg, evs []ref.Event, ds []c10Delivery, eager bool, add func(kind, what string)) {
	acc := ref.Accepted(evs, c.OOOMs)
	byID := map[int]ref.Event{}
	accepted := map[int]bool{}
	for i, e := range evs {
		byID[e.ID] = e
		accepted[e.ID] = acc[i]
	}
	count := map[int]int{}
	for _, d := range ds {
		if d.Key == "zz" {
			continue
		}
		if len(d.IDs) == 0 {
			add("empty-session", fmt.Sprintf("session result without rows: %+v", d))
			continue
		}
		var ts []int64
		for _, id := range d.IDs {
			e, ok := byID[id]
			if !ok || e.Key != d.Key {
				add("foreign-row", fmt.Sprintf("row %d reported in a session of key %s", id, d.Key))
			}
			count[id]++
			ts = append(ts, e.TS)
		}
		sort.Slice(ts, func(i, j int) bool { return ts[i] < ts[j] })
		for i := 1; i < len(ts); i++ {
			if ts[i]-ts[i-1] > c.Timeout {
				kind := "gap-not-split"
				if eager {
					// slow feed: when the later row arrived, had the watermark over the earlier arrivals already
					// reached the end of the session as it stood then? Then the expiry goroutine had closed it
					// (it ran to quiescence after every Emit) and the row cannot have extended it - this is not
					// the known "Add extends the open session" behaviour.
					arr := map[int]int{}
					for ai, e := range evs {
						arr[e.ID] = ai
					}
					lateIdx, lateTS := -1, int64(0)
					for _, id := range d.IDs {
						if e := byID[id]; e.TS == ts[i] && (lateIdx < 0 || arr[id] < lateIdx) {
							lateIdx, lateTS = arr[id], e.TS
						}
					}
					inOrder := lateIdx >= 0
					earlier := 0
					var endBefore int64 = -1 << 62
					for _, id := range d.IDs {
						e := byID[id]
						if id == evs[lateIdx].ID {
							continue
						}
						// only the plain in-order case is classified: every row below the gap arrived before
						// the row above it, and nothing above the gap had arrived yet
						if (e.TS < lateTS) != (arr[id] < lateIdx) {
							inOrder = false
						}
						if e.TS >= lateTS {
							continue
						}
						earlier++
						if e.TS+c.Timeout > endBefore {
							endBefore = e.TS + c.Timeout
						}
					}
					if inOrder && earlier > 0 && ref.FinalWatermark(evs[:lateIdx], c.OOOMs) >= endBefore {
						kind = "gap-not-split-after-session-expired"
					}
				}
				add(kind, fmt.Sprintf("session of key %s reports rows %v with consecutive timestamps %d and %d further apart than the timeout %d", d.Key, d.IDs, ts[i-1], ts[i], c.Timeout))
			}
		}
		if d.WS != ts[0] {
			add("window-start", fmt.Sprintf("window_start %d is not the earliest timestamp %d of the reported rows %v", d.WS, ts[0], d.IDs))
		}
		if d.WE != ts[len(ts)-1]+c.Timeout {
			add("window-end", fmt.Sprintf("window_end %d is not latest timestamp %d + timeout %d (rows %v)", d.WE, ts[len(ts)-1], c.Timeout, d.IDs))
		}
		// delivered only after the watermark passed the end: watermark over the rows whose
		// Emit had been issued when the delivery happened
		if eager {
			wm := ref.FinalWatermark(evs[:d.AtOps], c.OOOMs)
			if d.AtOps == 0 || wm < d.WE {
				add("delivered-before-watermark", fmt.Sprintf("session [%d,%d) delivered after %d emits, watermark then %d", d.WS, d.WE, d.AtOps, wm))
			}
		}
	}
	for _, e := range evs {
		if e.Key == "zz" {
			continue
		}
		if accepted[e.ID] && count[e.ID] == 0 {
			add("accepted-row-missing", fmt.Sprintf("accepted row %d (key %s, ts %d) is in no session result", e.ID, e.Key, e.TS))
		}
		if count[e.ID] > 1 {
			add("row-twice", fmt.Sprintf("row %d reported in %d session results", e.ID, count[e.ID]))
		}
	}
}

func c10InOrder(evs []ref.Event) bool {
	for i := 1; i < len(evs); i++ {
		if evs[i].TS < evs[i-1].TS {
			return false
		}
	}
	return true
}

func c10Canon(ds []c10Delivery) string {
	var s []string
	for _, d := range ds {
		s = append(s, fmt.Sprintf("%s[%d,%d)%v", d.Key, d.WS, d.WE, d.IDs))
	}
	sort.Strings(s)
	return strings.Join(s, ";")
}

type c10 struct{}

func (c10) ID() string { return "C10" }

func (c10) Plan(tier string) []fw.Unit {
	var us []fw.Unit
	for i, c := range c10Configs(tier) {
		shards := 2
		if c.MaxL >= 5 || c.Keys > 1 && c.MaxL >= 4 {
			shards = 12
		}
		if c.MaxL >= 6 {
			shards = 48
		}
		for s := 0; s < shards; s++ {
			us = append(us, fw.Unit{Check: "C10", Kind: "enum", Tier: tier, Spec: fw.Spec(enumSpec{Cfg: i, Shard: s, Shards: shards})})
		}
	}
	us = append(us, fw.Unit{Check: "C10", Kind: "key-pairs", Tier: tier, Spec: fw.Spec(enumSpec{})})
	return us
}

func c10Shape(c c10Cfg, evs []ref.Event) string {
	// value-abstracted shape of the input: does a key have a gap above the timeout, is there
	// out-of-order arrival
	gap := false
	last := map[string]int64{}
	ooo := false
	var prev int64 = -1
	for _, e := range evs[:len(evs)-1] {
		if l, ok := last[e.Key]; ok && e.TS-l > c.Timeout {
			gap = true
		}
		if l, ok := last[e.Key]; !ok || e.TS > l {
			last[e.Key] = e.TS
		}
		if e.TS < prev {
			ooo = true
		}
		prev = e.TS
	}
	return fmt.Sprintf("gap-above-timeout=%v|out-of-order=%v", gap, ooo)
}

func (c10) Run(u fw.Unit) fw.Result {
	if u.Kind == "key-pairs" {
		return c10KeyPairs()
	}
	sp := parseEnum(u)
	c := c10Configs(u.Tier)[sp.Cfg]
	a := newAcc("C10", "det-session")
	sql := c10SQL(c)
	idx := 0
	for L := 1; L <= c.MaxL; L++ {
		sequences(L, len(c.times()), func(seq []int) {
			nk := 1
			if c.Keys > 1 {
				nk = 1 << uint(L-1)
			}
			for kb := 0; kb < nk; kb++ {
				idx++
				if idx%sp.Shards != sp.Shard {
					continue
				}
				evs := c10Events(c, seq, kb<<1)
				feed := func(e *Env) {
					for _, ev := range evs {
						if c.Base > 0 {
							e.Emit(Row{"id": ev.ID, "k": ev.Key, "ts": float64(ev.TS)})
							continue
						}
						if c.NestedKey {
							e.Emit(Row{"id": ev.ID, "k": "top-level", "d": map[string]any{"x": ev.Key}, "ts": ev.TS})
							continue
						}
						e.Emit(Row{"id": ev.ID, "k": ev.Key, "ts": ev.TS})
					}
				}
				var canon [2]string
				for pi, eager := range []bool{false, true} {
					r := detExec(sql, c10Opts(c, eager), feed)
					a.r.Evaluations++
					a.r.Transitions += int64(r.Steps)
					cs := map[string]any{"cfg": c, "sql": sql, "events": evs, "eager_feed": eager}
					if r.ExecErr != "" || r.Status != sched.StatusOK {
						a.fail("C10|exec", r.ExecErr+" "+r.Status.String()+" "+firstLine(r.Panic), cs, nil, nil)
						continue
					}
					ds := c10Deliveries(r)
					canon[pi] = c10Canon(ds)
					a.outcome(canon[pi])
					for _, f := range c10Check(c, evs, ds, eager) {
						kind, what := f[0], f[1]
						sig := "C10|session|" + kind
						if kind == "window-start" {
							sig += fmt.Sprintf("|out-of-order-arrival=%v", strings.Contains(c10Shape(c, evs), "out-of-order=true"))
						}
						a.fail(sig, what, cs, nil, ds)
					}
				}
				a.r.States++
				if strings.Count(canon[1], ";") >= 1 {
					a.r.Nontrivial++
				}
				if c10InOrder(evs) && canon[0] != canon[1] {
					lazyMerges := strings.Count(canon[0], ";") < strings.Count(canon[1], ";")
					a.fail(fmt.Sprintf("C10|session|feed-speed-dependent|lazy-feed-merges-what-eager-splits=%v", lazyMerges), fmt.Sprintf("in-order input, lazy feed delivers %s, eager feed delivers %s", canon[0], canon[1]),
						map[string]any{"cfg": c, "sql": sql, "events": evs}, canon[1], canon[0])
				}
				if idx == 300 {
					a.sample(map[string]any{"sql": sql, "events": evs, "eager_deliveries": canon[1], "lazy_deliveries": canon[0]})
				}
			}
		})
	}
	return a.result()
}

func (c10) Describe(tier string) fw.Description {
	return fw.Description{
		Level: "model_checking",
		Rule: "bounded-exhaustive: all arrival sequences of length 1..L over 8 timestamps (gaps below / equal to / 1 ms above the timeout, out-of-order arrivals) x timeout 2s|3s x MAXOUTOFORDERNESS 0|3s x key assignments over 1..2 keys, followed by a far sentinel of another key (further configurations: a 36 h gap, present-day float64 timestamps, strategy block with a lagging consumer, a reduced alphabet with longer two-key sequences, the grouping key written as the nested path d.x; units: pairwise group-key identity and key-tuple collision searches); each run under BOTH feed policies (lazy: all rows emitted before the expiry goroutine runs; eager: every goroutine runs to quiescence after each Emit) on the real engine with the virtual clock; oracle = exactly the stated constraints (each accepted row in exactly one session of its key, consecutive reported timestamps <= timeout apart, window_start = earliest, window_end = latest + timeout, delivered only once the watermark of the rows emitted so far >= end, eager == lazy for in-order input); a case = one input; non-trivial = >= 2 sessions delivered",
		Bounds:      map[string]any{"max_len": map[string]int{"quick": 4, "thorough": 6}, "timestamps_ms": c10Times},
		Assumptions: []string{"ALLOWEDLATENESS = 0", "the schedule dimension is covered by the two extreme feed policies here and by C02's schedule exploration of the session window"},
	}
}

func init() { fw.Register(c10{}) }
