package checks

import (
	"fmt"
	"sort"
	"strings"

	"verifharness/fw"

	streamsql "github.com/rulego/streamsql"
	"github.com/rulego/streamsql/logger"
	"github.com/rulego/streamsql/verifrt/sched"
	vtime "github.com/rulego/streamsql/verifrt/time"
)

// c04Joined: grouping columns that come from a joined table or sit below the stream alias, written with two, three
// and four path segments, aliased and not. Every batch reports one row per distinct tuple, under the column name
// the item selects (the AS alias, else the path without its table/stream qualifier), with the ids of its own rows.
// All dev sequences of length 1..4 over three matching devices and one without a table row (dropped by the INNER
// JOIN, a NULL group under the LEFT JOIN), one event-time tumbling window closed by a sentinel row.

type c04JoinQuery struct {
	Name  string
	From  string   // FROM ... JOIN ... ON ...
	Cols  []string // grouping columns as written
	As    []string // alias per column ("" none)
	Out   []string // expected output column names
	Left  bool
}

func c04JoinQueries() []c04JoinQuery {
	sj := "stream s JOIN meta m ON s.dev = m.dev"
	return []c04JoinQuery{
		{Name: "table-col", From: sj, Cols: []string{"m.loc"}, As: []string{""}, Out: []string{"loc"}},
		{Name: "table-nested", From: sj, Cols: []string{"m.profile.site"}, As: []string{""}, Out: []string{"profile.site"}},
		{Name: "table-nested-two-siblings", From: sj, Cols: []string{"m.profile.site", "m.profile.zone"}, As: []string{"", ""}, Out: []string{"profile.site", "profile.zone"}},
		{Name: "table-nested-deep", From: sj, Cols: []string{"m.profile.geo.cell", "m.loc"}, As: []string{"", ""}, Out: []string{"profile.geo.cell", "loc"}},
		{Name: "table-nested-aliased", From: sj, Cols: []string{"m.profile.site", "m.loc"}, As: []string{"site", ""}, Out: []string{"site", "loc"}},
		{Name: "stream-nested", From: sj, Cols: []string{"s.d.x", "m.loc"}, As: []string{"", ""}, Out: []string{"d.x", "loc"}},
		{Name: "table-name-qualifier", From: "stream JOIN meta ON dev = meta.dev", Cols: []string{"meta.profile.site", "meta.profile.zone"}, As: []string{"", "z"}, Out: []string{"profile.site", "z"}},
		{Name: "left-join-nested", From: "stream s LEFT JOIN meta m ON s.dev = m.dev", Cols: []string{"m.profile.site", "m.profile.zone"}, As: []string{"", ""}, Out: []string{"profile.site", "profile.zone"}, Left: true},
	}
}

func (q c04JoinQuery) sql() string {
	var sel []string
	for i, c := range q.Cols {
		if q.As[i] != "" {
			sel = append(sel, c+" AS "+q.As[i])
		} else {
			sel = append(sel, c)
		}
	}
	sel = append(sel, "count(*) AS c", "collect(id) AS ids")
	return "SELECT " + strings.Join(sel, ", ") + " FROM " + q.From + " GROUP BY " + strings.Join(q.Cols, ", ") + ", TumblingWindow('2s') WITH (TIMESTAMP='ts', TIMEUNIT='ms')"
}

var c04JoinTable = []Row{
	{"dev": 1, "loc": "A", "profile": map[string]any{"site": "S1", "zone": "Z1", "geo": map[string]any{"cell": "g1"}}},
	{"dev": 2, "loc": "B", "profile": map[string]any{"site": "S2", "zone": "Z1", "geo": map[string]any{"cell": "g1"}}},
	{"dev": 3, "loc": "A", "profile": map[string]any{"site": "S1", "zone": "Z2", "geo": map[string]any{"cell": "g2"}}},
}

// c04JoinValue: the value of a grouping column for a stream row with device dev (nil: NULL).
func c04JoinValue(col string, dev int) any {
	segs := strings.Split(col, ".")
	if segs[0] == "s" {
		return dev % 2 // s.d.x
	}
	var cur any
	for _, t := range c04JoinTable {
		if t["dev"] == dev {
			cur = map[string]any(t)
		}
	}
	for _, s := range segs[1:] {
		m, ok := cur.(map[string]any)
		if !ok {
			return nil
		}
		cur = m[s]
	}
	return cur
}

func c04Joined() fw.Result {
	a := newAcc("C04", "det-groupby-joined-columns")
	devs := []int{1, 2, 3, 5}
	for _, q := range c04JoinQueries() {
		q := q
		sql := q.sql()
		for L := 1; L <= 4; L++ {
			sequences(L, len(devs), func(ix []int) {
				seq := make([]int, len(ix))
				for i, x := range ix {
					seq[i] = devs[x]
				}
				r := detExec(sql, detOpts{Setup: func(s *streamsql.Streamsql) error {
					_, err := s.RegisterTable("meta", copyBatch(c04JoinTable))
					return err
				}}, func(e *Env) {
					for i, d := range seq {
						e.Emit(Row{"id": i + 1, "dev": d, "ts": 100 + i*10, "d": map[string]any{"x": d % 2}, "loc": "top-level", "site": "top-level"})
					}
					e.Emit(Row{"id": 9001, "dev": 1, "ts": 60000, "d": map[string]any{"x": 1}})
				})
				a.r.Evaluations++
				a.r.States++
				a.r.Transitions += int64(r.Steps)
				cs := map[string]any{"query": q.Name, "sql": sql, "table": c04JoinTable, "devs": seq}
				if r.ExecErr != "" || r.Status != sched.StatusOK {
					a.fail("C04|joined|exec|"+q.Name, r.ExecErr+" "+r.Status.String()+" "+firstLine(r.Panic), cs, nil, nil)
					return
				}
				want := map[string][]int{}
				for i, d := range seq {
					if d == 5 && !q.Left {
						continue
					}
					var tup []string
					for _, c := range q.Cols {
						tup = append(tup, fmt.Sprintf("%T:%v", c04JoinValue(c, d), c04JoinValue(c, d)))
					}
					k := strings.Join(tup, ",")
					want[k] = append(want[k], i+1)
				}
				got := map[string][]int{}
				problem := ""
				for _, b := range r.Batches {
					seen := map[string]bool{}
					for _, row := range b {
						var tup []string
						for _, name := range q.Out {
							v, ok := row[name]
							if !ok {
								var have []string
								for k := range row {
									have = append(have, k)
								}
								sort.Strings(have)
								problem = fmt.Sprintf("column-missing: the result row has no column %q (columns %v)", name, have)
							}
							if f, isNum := num(v); isNum {
								v = int(f)
							}
							tup = append(tup, fmt.Sprintf("%T:%v", v, v))
						}
						k := strings.Join(tup, ",")
						if seen[k] {
							problem = "tuple-reported-twice: " + k
						}
						seen[k] = true
						got[k] = append(got[k], sortedInts(idList(row["ids"]))...)
					}
				}
				if len(want) > 1 {
					a.r.Nontrivial++
				}
				a.outcome(q.Name + fmt.Sprint(got))
				if problem == "" && fmt.Sprint(got) != fmt.Sprint(want) {
					problem = fmt.Sprintf("wrong-groups: delivered %v, reference %v", got, want)
				}
				if problem != "" {
					a.fail("C04|joined|"+q.Name+"|"+strings.SplitN(problem, ":", 2)[0], sql+" with devs "+fmt.Sprint(seq)+": "+problem, cs, want, r.Batches)
				}
			})
		}
		a.sample(map[string]any{"sql": sql, "expected_columns": q.Out})
	}
	return a.result()
}

// c04PanickingRow: a user function inside an aggregate argument panics for some rows. The batch that holds such a
// row may be lost (the engine recovers and carries on); every other batch reports exactly the groups of its own
// rows - nothing of the failed batch is left behind. CountingWindow(2) per key (all sequences of length 6 over
// {x,y} x {ordinary, panicking}) and two consecutive event-time tumbling windows (all assignments of 4 rows).
func c04PanickingRow() fw.Result {
	a := newAcc("C04", "det-groupby-panicking-row")
	c18RegisterBoom()
	csql := "SELECT a, count(*) AS c, sum(vboom(v)) AS s, collect(id) AS ids FROM stream GROUP BY a, CountingWindow(2)"
	sequences(6, 4, func(ix []int) {
		seq := append([]int(nil), ix...)
		type batch struct {
			key   string
			ids   []int
			sum   float64
			boom  bool
		}
		open := map[string]*batch{}
		var want []string
		var rows []Row
		for i, x := range seq {
			key := []string{"x", "y"}[x/2]
			v := float64(i + 1)
			if x%2 == 1 {
				v = -1
			}
			rows = append(rows, Row{"id": i + 1, "a": key, "v": v})
			b := open[key]
			if b == nil {
				b = &batch{key: key}
				open[key] = b
			}
			b.ids = append(b.ids, i+1)
			b.sum += v
			b.boom = b.boom || v == -1
			if len(b.ids) == 2 {
				if !b.boom {
					want = append(want, fmt.Sprintf("%s%v s=%v", key, b.ids, b.sum))
				}
				delete(open, key)
			}
		}
		r := detExec(csql, detOpts{Eager: true, Horizon: 100 * vtime.Millisecond}, func(e *Env) {
			for _, row := range rows {
				e.Emit(copyVal(row).(map[string]any))
			}
		})
		a.r.Evaluations++
		a.r.States++
		a.r.Transitions += int64(r.Steps)
		if len(want) > 0 {
			a.r.Nontrivial++
		}
		cs := map[string]any{"sql": csql, "rows": rows}
		if r.ExecErr != "" || r.Status != sched.StatusOK {
			a.fail("C04|panicking-row|exec", r.ExecErr+" "+r.Status.String()+" "+firstLine(r.Panic), cs, nil, nil)
			return
		}
		// delivered batches that hold no panicking row, in delivery order
		var got []string
		for _, b := range r.Batches {
			for _, row := range b {
				ids := sortedInts(idList(row["ids"]))
				boom := false
				for _, id := range ids {
					if id >= 1 && id <= len(rows) && rows[id-1]["v"] == float64(-1) {
						boom = true
					}
				}
				s, _ := num(row["s"])
				c, _ := num(row["c"])
				if boom && len(ids) == 2 {
					continue // a failed batch delivered after all: not asserted
				}
				got = append(got, fmt.Sprintf("%v%v s=%v", row["a"], ids, s))
				if int(c) != len(ids) {
					got[len(got)-1] += fmt.Sprintf(" count=%v", c)
				}
			}
		}
		sort.Strings(got)
		w := append([]string(nil), want...)
		sort.Strings(w)
		a.outcome(strings.Join(got, ";"))
		if strings.Join(got, ";") != strings.Join(w, ";") {
			a.fail("C04|panicking-row|counting|other-batches-wrong", fmt.Sprintf("%s over %s: batches without a panicking row delivered as %v, reference %v", csql, js(rows), got, w), cs, w, got)
		}
	})
	a.sample(map[string]any{"sql": csql, "panicking_value": -1})
	return a.result()
}

// c16SamePrint: an upsert replaces the table row even when the new row prints like the old one (7 / "7" / 7.0,
// true / "true", a text that spells two columns). After UpsertTable has returned, EmitSync joins the new row: the
// value and its Go type are compared. All ordered triples (register, upsert, upsert) over each family.
func c16SamePrint() fw.Result {
	a := newAcc("C16", "join-upsert-same-printed-form")
	sql := "SELECT id, m.zone AS zone, m.note AS note, m.owner AS owner FROM stream s JOIN meta m ON s.dev = m.dev"
	fams := [][]Row{
		{{"zone": 7}, {"zone": "7"}, {"zone": 7.0}, {"zone": int64(7)}},
		{{"zone": true}, {"zone": "true"}},
		{{"zone": nil}, {"zone": "<nil>"}, {}},
		{{"note": "hall owner:bob"}, {"note": "hall", "owner": "bob"}},
		{{"zone": []any{1, 2}}, {"zone": "[1 2]"}},
	}
	typed := func(v any) string { return fmt.Sprintf("%T:%v", v, v) }
	show := func(r Row) string {
		return fmt.Sprintf("zone=%s note=%s owner=%s", typed(r["zone"]), typed(r["note"]), typed(r["owner"]))
	}
	for _, fam := range fams {
		sequences(3, len(fam), func(ix []int) {
			seq := append([]int(nil), ix...)
			mk := func(x int) Row {
				r := Row{"dev": 1}
				for k, v := range fam[x] {
					r[k] = copyVal(v)
				}
				return r
			}
			var got, want []string
			var execErr string
			res := sched.Run(sched.Config{MaxSteps: 5000000}, func() {
				s := streamsql.New(streamsql.WithLogger(logger.NewDiscardLogger()))
				if err := s.Execute(sql); err != nil {
					execErr = err.Error()
					return
				}
				if _, err := s.RegisterTable("meta", []map[string]any{mk(seq[0])}); err != nil {
					execErr = err.Error()
					return
				}
				for i, x := range seq {
					if i > 0 {
						if err := s.UpsertTable("meta", mk(x)); err != nil {
							execErr = err.Error()
							return
						}
					}
					r, err := s.EmitSync(Row{"id": i + 1, "dev": 1})
					if err != nil || r == nil {
						got = append(got, fmt.Sprintf("no result (%v)", err))
					} else {
						got = append(got, show(r))
					}
					want = append(want, show(mk(x)))
				}
				s.Stop()
			})
			a.r.Evaluations++
			a.r.States++
			a.r.Nontrivial++
			a.r.Transitions += int64(res.Steps)
			cs := map[string]any{"sql": sql, "table_rows_in_turn": []string{js(mk(seq[0])), js(mk(seq[1])), js(mk(seq[2]))}}
			if execErr != "" || res.Status != sched.StatusOK {
				a.fail("C16|same-print|exec", execErr+" "+res.Status.String(), cs, nil, nil)
				return
			}
			a.outcome(strings.Join(got, ";"))
			if strings.Join(got, ";") != strings.Join(want, ";") {
				a.fail("C16|same-print|stale-row-after-upsert", fmt.Sprintf("table row for dev 1 set to %v in turn: EmitSync joined %q, the rows in force were %q", cs["table_rows_in_turn"], got, want), cs, want, got)
			}
		})
	}
	a.sample(map[string]any{"sql": sql, "families": len(fams)})
	return a.result()
}
