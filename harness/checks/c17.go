package checks

import (
	"fmt"
	"strings"

	"verifharness/fw"
	"verifharness/ref"

	"github.com/rulego/streamsql/verifrt/sched"
	vtime "github.com/rulego/streamsql/verifrt/time"
)

// C17: global window fires a group exactly when TRIGGER WHEN holds, then restarts it.

type c17Pred struct {
	SQL  string
	Eval func(vs []ref.Val) bool
}

func c17Agg(name string, vs []ref.Val) (float64, bool) {
	xs := ref.Usable(vs)
	switch name {
	case "count(*)":
		return float64(len(vs)), true
	case "count(v)":
		return float64(len(xs)), true
	}
	if len(xs) == 0 {
		return 0, false
	}
	switch name {
	case "sum(v)":
		return ref.Sum(xs), true
	case "avg(v)":
		return ref.Mean(xs), true
	case "min(v)":
		return ref.Min(xs), true
	case "max(v)":
		return ref.Max(xs), true
	}
	return 0, false
}

func c17Cmp(agg, op string, lit float64) c17Pred {
	return c17Pred{fmt.Sprintf("%s %s %v", agg, op, lit), func(vs []ref.Val) bool {
		x, ok := c17Agg(agg, vs)
		if !ok {
			return false
		}
		switch op {
		case ">=":
			return x >= lit
		case ">":
			return x > lit
		case "<":
			return x < lit
		case "<=":
			return x <= lit
		case "=":
			return x == lit
		}
		return false
	}}
}

func c17Preds() []c17Pred {
	base := []c17Pred{
		c17Cmp("count(*)", ">=", 2), c17Cmp("count(v)", ">=", 2), c17Cmp("sum(v)", ">=", 4), c17Cmp("avg(v)", ">", 1.5),
		c17Cmp("min(v)", "<", 2), c17Cmp("max(v)", ">=", 3), c17Cmp("count(*)", "=", 3), c17Cmp("sum(v)", ">", 2),
	}
	out := append([]c17Pred{}, base...)
	comb := func(op string, p, q c17Pred) c17Pred {
		return c17Pred{p.SQL + " " + op + " " + q.SQL, func(vs []ref.Val) bool {
			if op == "AND" {
				return p.Eval(vs) && q.Eval(vs)
			}
			return p.Eval(vs) || q.Eval(vs)
		}}
	}
	out = append(out, comb("AND", base[0], base[5]), comb("OR", base[2], base[6]), comb("AND", base[1], base[4]), comb("OR", base[5], base[3]))
	// the same aggregate call mentioned twice (two-sided threshold, range)
	out = append(out, comb("OR", c17Cmp("sum(v)", ">=", 5), c17Cmp("sum(v)", "<", 2)), comb("AND", c17Cmp("max(v)", ">=", 2), c17Cmp("max(v)", "<=", 2)),
		comb("OR", c17Cmp("count(*)", "=", 3), c17Cmp("count(*)", "=", 1)))
	// AND binds tighter than OR
	out = append(out, c17Pred{base[0].SQL + " AND " + base[5].SQL + " OR " + base[2].SQL, func(vs []ref.Val) bool {
		return base[0].Eval(vs) && base[5].Eval(vs) || base[2].Eval(vs)
	}})
	// ... and with OR first: A OR (B AND C)
	out = append(out, c17Pred{base[6].SQL + " OR " + base[2].SQL + " AND " + base[4].SQL, func(vs []ref.Val) bool {
		return base[6].Eval(vs) || base[2].Eval(vs) && base[4].Eval(vs)
	}})
	return out
}

var c17Vals = []ref.Val{ref.Num(1), ref.Num(2), ref.Num(3), ref.Null()}

type c17 struct{}

func (c17) ID() string { return "C17" }

func (c17) Plan(tier string) []fw.Unit {
	shards := 4
	if tier == "thorough" {
		shards = 16
	}
	us := planEnum("C17", tier, len(c17Preds()), shards)
	us = append(us, fw.Unit{Check: "C17", Kind: "key-pairs", Tier: tier, Spec: fw.Spec(enumSpec{})})
	us = append(us, fw.Unit{Check: "C17", Kind: "expr-args", Tier: tier, Spec: fw.Spec(enumSpec{})})
	us = append(us, fw.Unit{Check: "C17", Kind: "aggregates", Tier: tier, Spec: fw.Spec(enumSpec{})})
	us = append(us, fw.Unit{Check: "C17", Kind: "same-predicate", Tier: tier, Spec: fw.Spec(enumSpec{})})
	us = append(us, fw.Unit{Check: "C17", Kind: "text-aggregates", Tier: tier, Spec: fw.Spec(enumSpec{})})
	us = append(us, fw.Unit{Check: "C17", Kind: "trigger-literal", Tier: tier, Spec: fw.Spec(enumSpec{})})
	us = append(us, fw.Unit{Check: "C17", Kind: "two-column-trigger", Tier: tier, Spec: fw.Spec(enumSpec{})})
	// strategy block without a timeout, a window output buffer of one result, a sink taking 20 ms per batch, rows fed
	// back to back: the window must wait for its consumer (predicates count(*) >= 1 and count(*) >= 2)
	us = append(us, fw.Unit{Check: "C17", Kind: "block", Tier: tier, Spec: fw.Spec(enumSpec{Cfg: 0})}, fw.Unit{Check: "C17", Kind: "block", Tier: tier, Spec: fw.Spec(enumSpec{Cfg: 1})})
	return append(us, fw.Unit{Check: "C17", Kind: "typed", Tier: tier, Spec: fw.Spec(enumSpec{})})
}

// c17Typed: the aggregated column as every Go numeric type (one group, all sequences of length 3 over 12 typed
// values and NULL) for four predicates: firing must not depend on the Go type of a number.
func c17Typed() fw.Result {
	a := newAcc("C17", "det-global-typed")
	preds := []c17Pred{c17Cmp("sum(v)", ">=", 4), c17Cmp("max(v)", ">=", 3), c17Cmp("min(v)", "<", 2), c17Cmp("avg(v)", ">", 1.5)}
	for _, p := range preds {
		sql := "SELECT k, count(*) AS c, sum(v) AS s, avg(v) AS a FROM stream GROUP BY k, GLOBAL WINDOW TRIGGER WHEN " + p.SQL
		sequences(3, len(c03Typed), func(ix []int) {
			var rows []Row
			var cur []ref.Val
			var want, names []string
			for i, x := range ix {
				row := Row{"k": "a", "id": i + 1}
				c03Typed[x].Set(row, "v")
				rows = append(rows, row)
				names = append(names, c03Typed[x].Name)
				cur = append(cur, c03Typed[x].Ref)
				if p.Eval(cur) {
					f := c17Fire{K: "a", C: float64(len(cur))}
					if xs := ref.Usable(cur); len(xs) > 0 {
						sm, m := ref.Sum(xs), ref.Mean(xs)
						f.S, f.A = &sm, &m
					}
					want = append(want, f.String())
					cur = nil
				}
			}
			r := detExec(sql, detOpts{Eager: true, Horizon: 100 * vtime.Millisecond}, func(e *Env) {
				for _, row := range rows {
					e.Emit(row)
				}
			})
			a.r.Evaluations++
			a.r.States++
			a.r.Transitions += int64(r.Steps)
			cs := map[string]any{"sql": sql, "values": names}
			if r.ExecErr != "" || r.Status != sched.StatusOK {
				a.fail("C17|exec", r.ExecErr+" "+r.Status.String()+" "+firstLine(r.Panic), cs, nil, nil)
				return
			}
			var got []string
			for _, b := range r.Batches {
				for _, row := range b {
					f := c17Fire{}
					f.K, _ = row["k"].(string)
					f.C, _ = num(row["c"])
					if x, ok := num(row["s"]); ok {
						f.S = &x
					}
					if x, ok := num(row["a"]); ok {
						f.A = &x
					}
					got = append(got, f.String())
				}
			}
			if len(want) > 0 {
				a.r.Nontrivial++
			}
			a.outcome(strings.Join(got, ";"))
			if strings.Join(got, ";") != strings.Join(want, ";") {
				a.fail(fmt.Sprintf("C17|typed|pred=%s", p.SQL), fmt.Sprintf("%s over v=%v: fired %v, reference %v", sql, names, got, want), cs, want, got)
			}
		})
	}
	a.sample(map[string]any{"types": "int, int8..int64, uint..uint64, float32, float64, NULL", "len": 3})
	return a.result()
}

// c17SamePredicate: several queries of ONE process share the text of their TRIGGER WHEN predicate and differ in
// their SELECT lists (the predicate's aggregate is selected under another alias, not selected, or the alias names
// another aggregate), in every order: each fires where the predicate holds on its own rows.
func c17SamePredicate() fw.Result {
	a := newAcc("C17", "det-global-same-predicate")
	type q struct {
		sel  string
		cols []string
	}
	qs := []q{{"sum(v) AS total", []string{"total=sum"}}, {"count(*) AS n", []string{"n=count"}}, {"count(*) AS total", []string{"total=count"}}, {"max(v) AS total, sum(v) AS s", []string{"total=max", "s=sum"}}}
	preds := []string{"sum(v) >= 10", "count(*) >= 3 AND max(v) > 1"}
	vals := []float64{5, 1, 5, 5, 2, 5}
	perms := [][]int{{0, 1, 2, 3}, {3, 2, 1, 0}, {1, 0, 3, 2}, {2, 3, 0, 1}}
	for _, pred := range preds {
		for _, order := range perms {
			for _, qi := range order {
				qq := qs[qi]
				sql := "SELECT k, " + qq.sel + " FROM stream GROUP BY k, GLOBAL WINDOW TRIGGER WHEN " + pred
				var want []string
				var cur []float64
				for _, v := range vals {
					cur = append(cur, v)
					sum, mx := 0.0, cur[0]
					for _, x := range cur {
						sum += x
						if x > mx {
							mx = x
						}
					}
					fire := sum >= 10
					if pred != preds[0] {
						fire = len(cur) >= 3 && mx > 1
					}
					if fire {
						var parts []string
						for _, c := range qq.cols {
							kv := strings.SplitN(c, "=", 2)
							val := map[string]float64{"sum": sum, "count": float64(len(cur)), "max": mx}[kv[1]]
							parts = append(parts, fmt.Sprintf("%s=%v", kv[0], val))
						}
						want = append(want, strings.Join(parts, ","))
						cur = nil
					}
				}
				r := detExec(sql, detOpts{Eager: true, Horizon: 100 * vtime.Millisecond}, func(e *Env) {
					for i, v := range vals {
						e.Emit(Row{"id": i + 1, "k": "a", "v": v})
					}
				})
				a.r.Evaluations++
				a.r.States++
				a.r.Nontrivial++
				a.r.Transitions += int64(r.Steps)
				cs := map[string]any{"sql": sql, "values": vals, "queries_executed_before_in_this_process": "see order"}
				if r.ExecErr != "" || r.Status != sched.StatusOK {
					a.fail("C17|same-predicate|exec", r.ExecErr+" "+r.Status.String()+" "+firstLine(r.Panic), cs, nil, nil)
					continue
				}
				var got []string
				for _, b := range r.Batches {
					for _, row := range b {
						var parts []string
						for _, c := range qq.cols {
							name := strings.SplitN(c, "=", 2)[0]
							x, _ := num(row[name])
							parts = append(parts, fmt.Sprintf("%s=%v", name, x))
						}
						got = append(got, strings.Join(parts, ","))
					}
				}
				a.outcome(strings.Join(got, ";"))
				if strings.Join(got, ";") != strings.Join(want, ";") {
					a.fail("C17|same-predicate|depends-on-earlier-queries", fmt.Sprintf("%s (executed after other queries with the same TRIGGER WHEN text in this process) over v=%v: fired %v, reference %v", sql, vals, got, want), cs, want, got)
				}
			}
		}
	}
	a.sample(map[string]any{"predicates": preds, "select_lists": len(qs), "orders": len(perms)})
	return a.result()
}

// c17Aggregates: the global window keeps its own running aggregators: every aggregate of C03's main query over all
// value sequences of length N (numbers, NULL, missing) with TRIGGER WHEN count(*) >= N, one sequence alone and every
// ordered pair of sequences back to back (the group starts again from empty after it fired).
func c17Aggregates(tier string) fw.Result {
	a := newAcc("C17", "det-global-aggregates")
	maxN := 3
	if tier == "thorough" {
		maxN = 4
	}
	list := "count(*) AS n, count(v) AS c, sum(v) AS s, avg(v) AS a, min(v) AS mi, max(v) AS ma, stddev(v) AS sd, stddevs(v) AS sds, var(v) AS va, vars(v) AS vs, median(v) AS med, first_value(v) AS fv, last_value(v) AS lv, collect(v) AS col, deduplicate(v) AS dd, merge_agg(v) AS mg, count(t) AS ct"
	textOf := func(x int) any { return []any{"on", "off", nil}[x%3] } // a text column next to the numeric one
	run := func(n int, seqs [][]int) {
		sql := fmt.Sprintf("SELECT k, %s FROM stream GROUP BY k, GLOBAL WINDOW TRIGGER WHEN count(*) >= %d", list, n)
		var rows []Row
		id := 0
		for _, sq := range seqs {
			for _, x := range sq {
				id++
				row := Row{"k": "a", "id": id}
				c03Alphabet[x].Set(row, "v")
				if t := textOf(x); t != nil {
					row["t"] = t
				}
				rows = append(rows, row)
			}
		}
		r := detExec(sql, detOpts{Eager: true, Horizon: 100 * vtime.Millisecond}, func(e *Env) {
			for _, row := range rows {
				e.Emit(copyVal(row).(map[string]any))
			}
		})
		a.r.Evaluations++
		a.r.States++
		a.r.Nontrivial++
		a.r.Transitions += int64(r.Steps)
		var names [][]string
		for _, sq := range seqs {
			names = append(names, c03Names(sq))
		}
		cs := map[string]any{"sql": sql, "values": names}
		if r.ExecErr != "" || r.Status != sched.StatusOK {
			a.fail("C17|aggregates|exec", r.ExecErr+" "+r.Status.String()+" "+firstLine(r.Panic), cs, nil, nil)
			return
		}
		var out []Row
		for _, b := range r.Batches {
			out = append(out, b...)
		}
		a.outcome(js(out))
		if len(out) != len(seqs) {
			a.fail("C17|aggregates|fire-count", fmt.Sprintf("%s over %v: %d results, reference %d", sql, names, len(out), len(seqs)), cs, len(seqs), len(out))
			return
		}
		for i, sq := range seqs {
			vals := c03RefVals(sq)
			row := Row{}
			for k, v := range out[i] {
				row[k] = v
			}
			if xs := ref.Usable(vals); len(xs) > 0 {
				row["sd"] = ref.StdPop(xs) // stddev's definition is C03's subject (known finding there)
			}
			wantCT := 0
			for _, x := range sq {
				if textOf(x) != nil {
					wantCT++
				}
			}
			if ct, ok := num(out[i]["ct"]); !ok || int(ct) != wantCT {
				a.fail(fmt.Sprintf("C17|aggregates|col=count-of-text|batch=%d", i+1), fmt.Sprintf("%s over %v: result %d has count(t) = %v, %d rows carry a text in t", sql, names, i+1, out[i]["ct"], wantCT), cs, wantCT, out[i])
			}
			for _, f := range c03CheckMainAll(row, vals, true) {
				a.fail(fmt.Sprintf("C17|aggregates|col=%s|batch=%d", strings.SplitN(f[0], "=", 2)[0], i+1), fmt.Sprintf("%s over %v: result %d has %s", sql, names, i+1, f[1]), cs, nil, out[i])
			}
		}
	}
	for n := 1; n <= maxN; n++ {
		sequences(n, len(c03Alphabet), func(sq []int) { run(n, [][]int{append([]int(nil), sq...)}) })
	}
	for n := 1; n <= 2; n++ {
		sequences(n, len(c03Alphabet), func(s1 []int) {
			s1 = append([]int(nil), s1...)
			sequences(n, len(c03Alphabet), func(s2 []int) { run(n, [][]int{s1, append([]int(nil), s2...)}) })
		})
	}
	// count(<text column>) in the predicate: fires at the second row that carries a text since the last fire
	tsql := "SELECT k, count(t) AS ct, count(*) AS n FROM stream GROUP BY k, GLOBAL WINDOW TRIGGER WHEN count(t) >= 2"
	for L := 1; L <= 5; L++ {
		sequences(L, 3, func(sq []int) {
			var rows []Row
			var want []string
			ct, n := 0, 0
			for i, x := range sq {
				row := Row{"k": "a", "id": i + 1}
				if t := textOf(x); t != nil {
					row["t"] = t
					ct++
				}
				n++
				if ct >= 2 {
					want = append(want, fmt.Sprintf("ct=%d n=%d", ct, n))
					ct, n = 0, 0
				}
				rows = append(rows, row)
			}
			r := detExec(tsql, detOpts{Eager: true, Horizon: 100 * vtime.Millisecond}, func(e *Env) {
				for _, row := range rows {
					e.Emit(copyVal(row).(map[string]any))
				}
			})
			a.r.Evaluations++
			a.r.States++
			a.r.Transitions += int64(r.Steps)
			if len(want) > 0 {
				a.r.Nontrivial++
			}
			cs := map[string]any{"sql": tsql, "rows": rows}
			if r.ExecErr != "" || r.Status != sched.StatusOK {
				a.fail("C17|aggregates|exec", r.ExecErr+" "+r.Status.String()+" "+firstLine(r.Panic), cs, nil, nil)
				return
			}
			var got []string
			for _, b := range r.Batches {
				for _, row := range b {
					c, _ := num(row["ct"])
					m, _ := num(row["n"])
					got = append(got, fmt.Sprintf("ct=%d n=%d", int(c), int(m)))
				}
			}
			a.outcome(strings.Join(got, ";"))
			if strings.Join(got, ";") != strings.Join(want, ";") {
				a.fail("C17|aggregates|count-of-text-in-predicate", fmt.Sprintf("%s over %s: fired %v, reference %v", tsql, js(rows), got, want), cs, want, got)
			}
		})
	}
	a.sample(map[string]any{"aggregates": list, "values": c03Names([]int{0, 1, 2, 3, 4, 5})})
	return a.result()
}

// c17ExprArgs: aggregates whose argument is an expression (sum(v * 2), max(v + 1)) in the SELECT list and in the
// TRIGGER WHEN predicate of a global window: "the aggregates over precisely those rows" are aggregates of the
// expression's value per row.
func c17ExprArgs(tier string) fw.Result {
	a := newAcc("C17", "det-global-expr-args")
	maxL := 4
	if tier == "thorough" {
		maxL = 5
	}
	type q struct {
		where, sql string
		fire       func(vs []ref.Val) bool
	}
	dbl := func(vs []ref.Val) (float64, bool) {
		xs := ref.Usable(vs)
		return 2 * ref.Sum(xs), len(xs) > 0
	}
	qs := []q{
		{"select", "SELECT k, count(*) AS c, sum(v * 2) AS s2, max(v + 1) AS m FROM stream GROUP BY k, GLOBAL WINDOW TRIGGER WHEN count(*) >= 2", func(vs []ref.Val) bool { return len(vs) >= 2 }},
		{"trigger", "SELECT k, count(*) AS c, sum(v * 2) AS s2, max(v + 1) AS m FROM stream GROUP BY k, GLOBAL WINDOW TRIGGER WHEN sum(v * 2) >= 6", func(vs []ref.Val) bool { x, ok := dbl(vs); return ok && x >= 6 }},
	}
	for _, qq := range qs {
		for L := 1; L <= maxL; L++ {
			sequences(L, 2*len(c17Vals), func(seq []int) {
				cur := map[string][]ref.Val{}
				var want []string
				var rows []Row
				for i, x := range seq {
					k := []string{"a", "b"}[x/len(c17Vals)]
					v := c17Vals[x%len(c17Vals)]
					row := Row{"k": k, "id": i + 1}
					if v.Usable() {
						row["v"] = v.F
					} else {
						row["v"] = nil
					}
					rows = append(rows, row)
					cur[k] = append(cur[k], v)
					if qq.fire(cur[k]) {
						s2, m := "NULL", "NULL"
						if xs := ref.Usable(cur[k]); len(xs) > 0 {
							s2, m = fmt.Sprintf("%.6g", 2*ref.Sum(xs)), fmt.Sprintf("%.6g", ref.Max(xs)+1)
						}
						want = append(want, fmt.Sprintf("%s:c=%d,s2=%s,m=%s", k, len(cur[k]), s2, m))
						cur[k] = nil
					}
				}
				r := detExec(qq.sql, detOpts{Eager: true, Horizon: 100 * vtime.Millisecond}, func(e *Env) {
					for _, row := range rows {
						e.Emit(copyVal(row).(map[string]any))
					}
				})
				a.r.Evaluations++
				a.r.States++
				a.r.Transitions += int64(r.Steps)
				cs := map[string]any{"sql": qq.sql, "rows": rows}
				if r.ExecErr != "" || r.Status != sched.StatusOK {
					a.fail("C17|expr-argument|exec|"+qq.where, r.ExecErr+" "+r.Status.String()+" "+firstLine(r.Panic), cs, nil, nil)
					return
				}
				var got []string
				for _, b := range r.Batches {
					for _, row := range b {
						k, _ := row["k"].(string)
						c, _ := num(row["c"])
						f := func(v any) string {
							if x, ok := num(v); ok {
								return fmt.Sprintf("%.6g", x)
							}
							return "NULL"
						}
						got = append(got, fmt.Sprintf("%s:c=%d,s2=%s,m=%s", k, int(c), f(row["s2"]), f(row["m"])))
					}
				}
				if len(want) > 0 {
					a.r.Nontrivial++
				}
				a.outcome(strings.Join(got, ";"))
				if strings.Join(got, ";") != strings.Join(want, ";") {
					kind := "wrong-aggregates"
					if len(got) < len(want) {
						kind = "missed-fire"
					} else if len(got) > len(want) {
						kind = "spurious-fire"
					}
					a.fail(fmt.Sprintf("C17|expr-argument|%s|%s", qq.where, kind), fmt.Sprintf("%s: fired %v, reference %v", qq.sql, got, want), cs, want, got)
				}
			})
		}
	}
	a.sample(map[string]any{"queries": []string{qs[0].sql, qs[1].sql}})
	return a.result()
}

type c17Fire struct {
	K    string
	C    float64
	S, A *float64
}

func (f c17Fire) String() string {
	p := func(x *float64) string {
		if x == nil {
			return "NULL"
		}
		return fmt.Sprintf("%.6g", *x)
	}
	return fmt.Sprintf("%s:c=%v,s=%s,a=%s", f.K, f.C, p(f.S), p(f.A))
}

func (c17) Run(u fw.Unit) fw.Result {
	if u.Kind == "typed" {
		return c17Typed()
	}
	if u.Kind == "key-pairs" {
		return c17KeyPairs()
	}
	if u.Kind == "expr-args" {
		return c17ExprArgs(u.Tier)
	}
	if u.Kind == "aggregates" {
		return c17Aggregates(u.Tier)
	}
	if u.Kind == "same-predicate" {
		return c17SamePredicate()
	}
	if u.Kind == "two-column-trigger" {
		return twoColumnTriggerUnit("C17", "det-global-two-column-trigger")
	}
	if u.Kind == "trigger-literal" {
		return triggerLiteralUnit("C17", "det-global-trigger-literal")
	}
	if u.Kind == "text-aggregates" {
		maxL := 4
		if u.Tier == "thorough" {
			maxL = 5
		}
		return textAggUnit("C17", "det-global-text-aggregates", "SELECT k, %s FROM stream GROUP BY k, GLOBAL WINDOW TRIGGER WHEN count(*) >= %d", maxL)
	}
	sp := parseEnum(u)
	block := u.Kind == "block"
	var p c17Pred
	if block {
		p = c17Cmp("count(*)", ">=", float64(sp.Cfg+1))
	} else {
		p = c17Preds()[sp.Cfg]
	}
	a := newAcc("C17", "det-global")
	sql := "SELECT k, count(*) AS c, sum(v) AS s, avg(v) AS a FROM stream GROUP BY k, GLOBAL WINDOW TRIGGER WHEN " + p.SQL
	maxL := 4
	if u.Tier == "thorough" {
		maxL = 6
	}
	nsym := 2 * len(c17Vals)
	idx := 0
	for L := 1; L <= maxL; L++ {
		sequences(L, nsym, func(seq []int) {
			idx++
			if idx%sp.Shards != sp.Shard {
				return
			}
			seq = append([]int(nil), seq...)
			// reference
			cur := map[string][]ref.Val{}
			var want []string
			var rows []Row
			for i, x := range seq {
				k := []string{"a", "b"}[x/len(c17Vals)]
				v := c17Vals[x%len(c17Vals)]
				row := Row{"k": k, "id": i + 1}
				if v.Usable() {
					row["v"] = v.F
				} else {
					row["v"] = nil
				}
				rows = append(rows, row)
				cur[k] = append(cur[k], v)
				if p.Eval(cur[k]) {
					f := c17Fire{K: k, C: float64(len(cur[k]))}
					if xs := ref.Usable(cur[k]); len(xs) > 0 {
						s, m := ref.Sum(xs), ref.Mean(xs)
						f.S, f.A = &s, &m
					}
					want = append(want, f.String())
					cur[k] = nil
				}
			}
			wantBase := want
			rows0 := rows
			// run 0: rows back to back; run 1 (short sequences): 1.5 s of virtual time after every row - the
			// default configuration has no STATETTL, so idle groups must keep their state
			failed0 := false
			onlyA := true
			for _, x := range seq {
				if x/len(c17Vals) != 0 {
					onlyA = false
				}
			}
			for run := 0; run < 6; run++ {
				if (run == 3 || run == 5) && (L > 3 || failed0) {
					continue
				}
				if run == 4 {
					// STATETTL='2s' with 1.5 s between rows: a group whose rows are never 2 s apart is alive all the
					// time, however long ago its first row was; sequences in which some group pauses >= 2 s are skipped
					if failed0 || L < 3 {
						continue
					}
					lastAt := map[int]int{}
					idle := false
					for i, x := range seq {
						g := x / len(c17Vals)
						if at, ok := lastAt[g]; ok && float64(i-at)*1.5 >= 2 {
							idle = true
						}
						lastAt[g] = i
					}
					if idle {
						continue
					}
				}
				if run == 1 && (L > 3 || failed0) {
					continue // a failure that shows without pauses is reported once, under its own signature
				}
				if run == 2 && (!onlyA || failed0) {
					continue
				}
				paused := ""
				if run == 1 {
					paused = "|paused-between-rows"
				}
				sql := sql
				want := want
				rows := rows
				if run == 4 {
					paused = "|state-ttl-group-kept-alive"
					sql = sql + " WITH (STATETTL='2s')"
				}
				if run == 3 || run == 5 {
					// the aggregated column under a mixed-case name, and no aggregate of the predicate in the SELECT list;
					// run 5: under a name whose underscore-separated parts are the words the predicate lowering rewrites
					paused = "|mixed-case-column-unselected"
					col := "cpuLoad"
					if run == 5 {
						paused = "|column-named-with-and-or-parts"
						col = "or_v_and"
					}
					sql = "SELECT k, count(*) AS c FROM stream GROUP BY k, GLOBAL WINDOW TRIGGER WHEN " + strings.ReplaceAll(p.SQL, "(v)", "("+col+")")
					want = nil
					for _, w := range wantBase {
						want = append(want, w[:strings.Index(w, ",s=")]+",s=NULL,a=NULL")
					}
					rows = nil
					for _, r0 := range rows0 {
						r1 := Row{}
						for k, v := range r0 {
							if k == "v" {
								k = col
							}
							r1[k] = v
						}
						rows = append(rows, r1)
					}
				}
				if run == 2 {
					// the same rows without GROUP BY (one implicit group), aggregates written in upper case
					paused = "|no-group-by"
					sql = "SELECT COUNT(*) AS c, SUM(v) AS s, AVG(v) AS a FROM stream GLOBAL WINDOW TRIGGER WHEN " + p.SQL
					want = nil
					for _, w := range wantBase {
						want = append(want, strings.TrimPrefix(w, "a"))
					}
				}
			opts := detOpts{Eager: true, Horizon: 100 * vtime.Millisecond}
			if block {
				perf := smallPerf("block", 64, 64, 1)
				opts = detOpts{Eager: false, Horizon: 2 * vtime.Second, Perf: &perf, SinkDelay: 20 * vtime.Millisecond}
				if run != 0 {
					continue
				}
			}
			r := detExec(sql, opts, func(e *Env) {
				for _, row := range rows {
					e.Emit(copyVal(row).(map[string]any))
					if run == 1 {
						// statistics are not window state
						e.S.GetStats()
						if st := e.S.Stream(); st != nil {
							st.ResetStats()
						}
					}
					if run == 1 || run == 4 {
						e.Sleep(1500 * vtime.Millisecond)
					}
				}
			})
			a.r.Evaluations++
			a.r.States++
			a.r.Transitions += int64(r.Steps)
			cs := map[string]any{"sql": sql, "rows": rows}
			if r.ExecErr != "" || r.Status != sched.StatusOK {
				a.fail("C17|exec", r.ExecErr+" "+r.Status.String()+" "+firstLine(r.Panic), cs, nil, nil)
				continue
			}
			var got []string
			for _, b := range r.Batches {
				for _, row := range b {
					f := c17Fire{}
					f.K, _ = row["k"].(string)
					f.C, _ = num(row["c"])
					if x, ok := num(row["s"]); ok {
						f.S = &x
					}
					if x, ok := num(row["a"]); ok {
						f.A = &x
					}
					got = append(got, f.String())
				}
			}
			if len(want) > 0 {
				a.r.Nontrivial++
			}
			a.outcome(strings.Join(got, ";"))
			if strings.Join(got, ";") != strings.Join(want, ";") {
				kind := "wrong-aggregates"
				if len(got) < len(want) {
					kind = "missed-fire"
				} else if len(got) > len(want) {
					kind = "spurious-fire"
				}
				failed0 = true
				a.fail(fmt.Sprintf("C17|%s|pred=%s%s", kind, p.SQL, paused), fmt.Sprintf("%s: fired %v, reference %v", sql, got, want), cs, want, got)
			}
			}
			if idx == 77 {
				a.sample(map[string]any{"sql": sql, "rows": rows, "fires": want})
			}
		})
	}
	return a.result()
}

func (c17) Describe(tier string) fw.Description {
	return fw.Description{
		Level: "model_checking",
		Rule: fmt.Sprint(len(c17Preds())) + " TRIGGER WHEN predicates (one comparison over count(*), count(v), sum, avg, min, max; AND / OR of two, also of the same aggregate twice; mixed AND-OR precedence; selected and unselected aggregates) x all row sequences of length 1..L over 2 groups x v in {1,2,3,NULL} on the real engine (eager deterministic schedule; sequences of length <= 3 also with 1.5 s of virtual time after every row; single-group sequences also without GROUP BY and with upper-case aggregate names; also with GetStats / ResetStats calls between rows, with mixed-case unselected aggregates, with the aggregated column named or_v_and (underscore-separated AND / OR parts) and with STATETTL='2s'); further units: type-independent aggregates over a text column (also count(t) as the trigger), a pairwise group-key identity search, strategy block with a lagging consumer, every aggregate function in SELECT and in the predicate, aggregates over expression arguments, several queries sharing one predicate text, typed numbers; oracle: per group, fire exactly at the rows where the predicate holds on the aggregates since the last fire, result = count/sum/avg over exactly those rows plus the group column, then restart; non-trivial = at least one expected fire",
		Bounds:      map[string]any{"max_len": map[string]int{"quick": 4, "thorough": 6}, "groups": 2, "values": []string{"1", "2", "3", "NULL"}},
		Assumptions: []string{"a predicate over an aggregate that is NULL (no usable input) is not true"},
	}
}

func init() { fw.Register(c17{}) }
