package checks

import (
	"fmt"
	"sort"

	"verifharness/explore"

	"github.com/rulego/streamsql/rsql"
	"github.com/rulego/streamsql/types"
	"github.com/rulego/streamsql/verifrt/sched"
	vtime "github.com/rulego/streamsql/verifrt/time"
	"github.com/rulego/streamsql/window"
)

// C02 under schedules: the window object (tumbling / sliding) driven by one ingest thread while
// the trigger goroutine and the watermark goroutine are interleaved arbitrarily ("bursts faster
// than the trigger goroutine"). Monitors are stated schedule-safely on the observation log.

type c02SchedCase struct {
	Cfg c02Cfg  `json:"cfg"`
	TS  []int64 `json:"ts"`
}

type c02LogEntry struct {
	Kind   string // add-start | add-end | deliver
	I      int    // event index (add-*)
	WS, WE int64
	IDs    []int
}

func c02SchedCases(tier string) []c02SchedCase {
	seqs := [][]int64{
		{10000, 12500, 11000, 14000, 11500},
		{10000, 13000, 10500, 11500},
		{11000, 16000, 13000},
		{10000, 12000, 11999, 15100, 10001},
	}
	var out []c02SchedCase
	for _, kind := range []string{"tumbling", "sliding"} {
		for _, s := range seqs {
			for _, ooo := range []int64{0, 2000} {
				if tier == "quick" && ooo == 2000 && len(s) > 4 {
					continue
				}
				out = append(out, c02SchedCase{c02Cfg{Kind: kind, OOOMs: ooo, LateMs: 1000}, s})
			}
		}
	}
	return out
}

func c02SchedRun(sc c02SchedCase) explore.RunFunc {
	cfg, _, perr := rsql.Parse(c02SQL(sc.Cfg))
	return func(ch sched.Chooser, local map[int]bool) (*sched.Result, string, *explore.Failure) {
		var log []c02LogEntry
		var cerr string
		res := sched.Run(sched.Config{Chooser: ch, MaxSteps: 100000, Trace: traceFn()}, func() {
			if perr != nil {
				cerr = perr.Error()
				return
			}
			w, err := window.CreateWindow(cfg.WindowConfig)
			if err != nil {
				cerr = err.Error()
				return
			}
			w.SetCallback(func(rows []types.Row) {
				if len(rows) == 0 {
					return
				}
				e := c02LogEntry{Kind: "deliver", WS: rows[0].Slot.Start.UnixMilli(), WE: rows[0].Slot.End.UnixMilli()}
				for _, r := range rows {
					e.IDs = append(e.IDs, toInt(r.Data.(map[string]any)["id"]))
				}
				sort.Ints(e.IDs)
				log = append(log, e)
			})
			w.Start()
			all := append(append([]int64{}, sc.TS...), 500000)
			for i, ts := range all {
				log = append(log, c02LogEntry{Kind: "add-start", I: i})
				w.Add(map[string]any{"id": i + 1, "k": "a", "ts": ts})
				log = append(log, c02LogEntry{Kind: "add-end", I: i})
			}
			vtime.Sleep(450 * vtime.Millisecond)
			sched.Quiesce()
			w.Stop()
			sched.Quiesce()
		})
		out := js(log)
		if cerr != "" {
			return res, out, &explore.Failure{Signature: "C02|sched|setup", What: cerr}
		}
		if res.Status != sched.StatusOK {
			return res, out, &explore.Failure{Signature: "C02|sched|" + res.Status.String(), What: "execution ended with " + res.Status.String() + " " + firstLine(res.PanicVal) + " live=" + liveDesc(res)}
		}
		if kind, what := c02SchedCheck(sc, log); kind != "" {
			return res, out, &explore.Failure{Signature: fmt.Sprintf("C02|sched|%s|%s", sc.Cfg.Kind, kind), What: what, Observed: log}
		}
		return res, out, nil
	}
}

func c02SchedCheck(sc c02SchedCase, log []c02LogEntry) (kind, what string) {
	const negInf = int64(-1 << 62)
	all := append(append([]int64{}, sc.TS...), 500000)
	ooo, late := sc.Cfg.OOOMs, sc.Cfg.LateMs
	maxStarted := negInf // largest ts among events whose Add has started
	wmBefore := make([]int64, len(all))
	lateOnArrival := make([]bool, len(all))
	type win struct{ ws, we int64 }
	last := map[win][]int{}
	delivered := map[int]bool{}
	inAdd := -1
	redelivered := map[int]map[win]bool{}
	firedBeforeAdd := map[int]map[win][]int{} // windows already delivered when Add(i) started, with their contents then
	for _, e := range log {
		switch e.Kind {
		case "add-start":
			wm := negInf
			if maxStarted != negInf {
				wm = maxStarted - ooo
			}
			wmBefore[e.I] = wm
			lateOnArrival[e.I] = all[e.I] < wm
			if all[e.I] > maxStarted {
				maxStarted = all[e.I]
			}
			inAdd = e.I
			snap := map[win][]int{}
			for k, v := range last {
				snap[k] = append([]int(nil), v...)
			}
			firedBeforeAdd[e.I] = snap
		case "add-end":
			inAdd = -1
		case "deliver":
			// (1) never before some ingested event has ts >= end + OOO
			if maxStarted < e.WE+ooo {
				return "fired-early", fmt.Sprintf("window [%d,%d) delivered when the largest timestamp handed to Add so far was %d < end+OOO %d", e.WS, e.WE, maxStarted, e.WE+ooo)
			}
			k := win{e.WS, e.WE}
			for _, id := range e.IDs {
				delivered[id] = true
				if ts := all[id-1]; ts < e.WS || ts >= e.WE {
					return "foreign-row", fmt.Sprintf("row %d (ts %d) delivered in [%d,%d)", id, ts, e.WS, e.WE)
				}
			}
			if prev, again := last[k]; again {
				// a re-delivery: must happen inside the Add of a late event that belongs to the window
				// and is inside the allowance, with contents = previous + that event
				if inAdd < 0 {
					return "redelivery-outside-add", fmt.Sprintf("window [%d,%d) re-delivered (%v) outside any Add", e.WS, e.WE, e.IDs)
				}
				ts := all[inAdd]
				if !lateOnArrival[inAdd] || ts < e.WS || ts >= e.WE {
					return "spurious-redelivery", fmt.Sprintf("window [%d,%d) re-delivered during Add of event %d (ts %d) which is not a late event of that window", e.WS, e.WE, inAdd+1, ts)
				}
				if wmBefore[inAdd] >= e.WE+late {
					return "redelivery-beyond-allowance", fmt.Sprintf("event %d (ts %d) arrived when the watermark was %d >= end+lateness %d of window [%d,%d), yet the window was re-delivered with %v", inAdd+1, ts, wmBefore[inAdd], e.WE+late, e.WS, e.WE, e.IDs)
				}
				want := sortedInts(append(append([]int{}, prev...), inAdd+1))
				if !intsEq(e.IDs, want) {
					return "late-update-contents", fmt.Sprintf("re-delivery of [%d,%d) holds %v, previous contents plus event %d are %v", e.WS, e.WE, e.IDs, inAdd+1, want)
				}
				if redelivered[inAdd] == nil {
					redelivered[inAdd] = map[win]bool{}
				}
				redelivered[inAdd][k] = true
			}
			last[k] = e.IDs
		}
	}
	for i, ts := range sc.TS {
		// (2) on-time events are never lost
		if !lateOnArrival[i] && !delivered[i+1] {
			return "on-time-event-lost", fmt.Sprintf("event %d (ts %d) was not older than the watermark %d when its Add started but is in no result", i+1, ts, wmBefore[i])
		}
		// (3) a late event into a window that had fired before its Add started, inside the allowance: re-delivery
		if lateOnArrival[i] {
			for k := range firedBeforeAdd[i] {
				if ts >= k.ws && ts < k.we && wmBefore[i] < k.we+late && !redelivered[i][k] {
					return "late-update-missing", fmt.Sprintf("late event %d (ts %d) falls in window [%d,%d) that had fired before its Add started and is inside the allowance (watermark %d < %d): no re-delivery", i+1, ts, k.ws, k.we, wmBefore[i], k.we+late)
				}
			}
		}
	}
	return "", ""
}

func c02Scenarios(tier string) []schedScenario {
	var out []schedScenario
	for _, sc := range c02SchedCases(tier) {
		out = append(out, schedScenario{Name: fmt.Sprintf("%s-ooo%d-late%d-ts%v", sc.Cfg.Kind, sc.Cfg.OOOMs, sc.Cfg.LateMs, sc.TS), Params: sc, Run: c02SchedRun(sc)})
	}
	return out
}
