package checks

import (
	"fmt"
	"sort"
	"strings"

	"verifharness/fw"

	streamsql "github.com/rulego/streamsql"
	"github.com/rulego/streamsql/logger"
	"github.com/rulego/streamsql/verifrt/sched"
	vtime "github.com/rulego/streamsql/verifrt/time"
)

// Small units added after the last seeded round (each closes one alphabet gap; see DESIGN.md 9.2, round 14).

// twoColumnTriggerUnit: TRIGGER WHEN over the same aggregate function of two different columns. All sequences of
// length <= 4 over three (a, b) rows; the group fires exactly where the predicate holds on the aggregates since
// the last fire.
func twoColumnTriggerUnit(prop, harness string) fw.Result {
	a := newAcc(prop, harness)
	type pred struct {
		sql  string
		hold func(sa, sb, maxa, maxb, mina, minb float64) bool
	}
	preds := []pred{
		{"sum(a) > 100 OR sum(b) > 10", func(sa, sb, _, _, _, _ float64) bool { return sa > 100 || sb > 10 }},
		{"(sum(a) > 100 OR sum(b) > 10)", func(sa, sb, _, _, _, _ float64) bool { return sa > 100 || sb > 10 }},
		{"max(a) >= 6 AND max(b) >= 6", func(_, _, xa, xb, _, _ float64) bool { return xa >= 6 && xb >= 6 }},
		{"min(a) < 2 AND min(b) < 2", func(_, _, _, _, na, nb float64) bool { return na < 2 && nb < 2 }},
		{"sum(b) > 10 OR sum(a) > 100", func(sa, sb, _, _, _, _ float64) bool { return sa > 100 || sb > 10 }},
	}
	ab := [][2]float64{{1, 6}, {60, 1}, {6, 6}}
	for _, p := range preds {
		sql := "SELECT k, sum(a) AS sa, sum(b) AS sb, count(*) AS n FROM stream GROUP BY k, GLOBAL WINDOW TRIGGER WHEN " + p.sql
		for L := 1; L <= 4; L++ {
			sequences(L, len(ab), func(ix []int) {
				var rows []Row
				var want []string
				sa, sb, n := 0.0, 0.0, 0
				xa, xb, na, nb := -1e18, -1e18, 1e18, 1e18
				for i, x := range ix {
					va, vb := ab[x][0], ab[x][1]
					rows = append(rows, Row{"k": "g", "id": i + 1, "a": va, "b": vb})
					sa, sb, n = sa+va, sb+vb, n+1
					if va > xa {
						xa = va
					}
					if vb > xb {
						xb = vb
					}
					if va < na {
						na = va
					}
					if vb < nb {
						nb = vb
					}
					if p.hold(sa, sb, xa, xb, na, nb) {
						want = append(want, fmt.Sprintf("sa=%v sb=%v n=%d", sa, sb, n))
						sa, sb, n = 0, 0, 0
						xa, xb, na, nb = -1e18, -1e18, 1e18, 1e18
					}
				}
				r := detExec(sql, detOpts{Eager: true, Horizon: 100 * vtime.Millisecond}, func(e *Env) {
					for _, row := range rows {
						e.Emit(copyVal(row).(map[string]any))
					}
				})
				a.r.Evaluations++
				a.r.States++
				a.r.Transitions += int64(r.Steps)
				if len(want) > 0 {
					a.r.Nontrivial++
				}
				cs := map[string]any{"sql": sql, "rows": rows}
				if r.ExecErr != "" || r.Status != sched.StatusOK {
					a.fail(prop+"|two-column-trigger|exec", r.ExecErr+" "+r.Status.String()+" "+firstLine(r.Panic), cs, nil, nil)
					return
				}
				var got []string
				for _, b := range r.Batches {
					for _, row := range b {
						x, _ := num(row["sa"])
						y, _ := num(row["sb"])
						c, _ := num(row["n"])
						got = append(got, fmt.Sprintf("sa=%v sb=%v n=%d", x, y, int(c)))
					}
				}
				a.outcome(strings.Join(got, ";"))
				if strings.Join(got, ";") != strings.Join(want, ";") {
					a.fail(prop+"|two-column-trigger|wrong-fires", fmt.Sprintf("%s over %s: fired %q, reference %q", sql, js(rows), got, want), cs, want, got)
				}
			})
		}
	}
	a.sample(map[string]any{"predicates": len(preds), "rows(a,b)": ab})
	return a.result()
}

// c06QuotedLiteralArgs: text literals that hold the other quote character, commas and parentheses as arguments of
// multi-argument functions (the argument list is split by the engine's own scanner).
func c06QuotedLiteralArgs(a *acc) {
	rows := []Row{{"s": "A\"b\"", "t": "it's"}}
	type q struct {
		expr string
		want any
	}
	qs := []q{
		{`replace(s, '"', '')`, "Ab"},
		{`replace(s, '"', 'q,r')`, "Aq,rbq,r"},
		{`replace(s, '"', '(x)')`, "A(x)b(x)"},
		{`replace(t, "'", '-')`, "it-s"},
		{`replace(t, "'", 'a,b')`, "ita,bs"},
		{`concat(s, '"', ',', t)`, "A\"b\"\",it's"},
		{`concat('(', s, ')')`, "(A\"b\")"},
		{`replace(s, 'b', '"),("')`, "A\"\"),(\"\""},
	}
	for _, qq := range qs {
		sql := "SELECT " + qq.expr + " AS r FROM stream"
		res, e, _, _ := syncEval(sql, rows)
		a.r.Evaluations++
		a.r.States++
		cs := map[string]any{"sql": sql, "row": rows[0]}
		if e != "" || len(res) != 1 {
			a.r.Skipped++
			continue
		}
		a.r.Nontrivial++
		var got any
		if res[0].Row != nil {
			got = res[0].Row["r"]
		}
		a.outcome(sql + js(got))
		if js(got) != js(qq.want) {
			a.fail("C06|func|quoted-literal-argument|wrong-value", fmt.Sprintf("%s over %s yields %s (%s), reference %s", sql, js(rows[0]), js(got), res[0].Err, js(qq.want)), cs, qq.want, got)
		}
	}
}

// c16Reload: RegisterTable under a name that is already registered replaces the table: keys the new contents omit
// are gone (INNER JOIN drops the row, LEFT JOIN has NULL table columns). All pairs of contents over three keys.
func c16Reload() fw.Result {
	a := newAcc("C16", "join-table-reload")
	keys := []int{1, 2, 3}
	for _, left := range []bool{false, true} {
		jt := "JOIN"
		if left {
			jt = "LEFT JOIN"
		}
		sql := "SELECT id, m.loc AS loc FROM stream s " + jt + " meta m ON s.dev = m.dev"
		for m1 := 0; m1 < 8; m1++ {
			for m2 := 0; m2 < 8; m2++ {
				mk := func(mask int, tag string) []map[string]any {
					var out []map[string]any
					for i, k := range keys {
						if mask>>uint(i)&1 == 1 {
							out = append(out, map[string]any{"dev": k, "loc": fmt.Sprintf("%s%d", tag, k)})
						}
					}
					return out
				}
				var got, want []string
				var execErr string
				res := sched.Run(sched.Config{MaxSteps: 5000000}, func() {
					s := streamsql.New(streamsql.WithLogger(logger.NewDiscardLogger()))
					if err := s.Execute(sql); err != nil {
						execErr = err.Error()
						return
					}
					if _, err := s.RegisterTable("meta", mk(m1, "old")); err != nil {
						execErr = err.Error()
						return
					}
					if _, err := s.RegisterTable("meta", mk(m2, "new")); err != nil {
						execErr = err.Error()
						return
					}
					for i, k := range keys {
						r, _ := s.EmitSync(Row{"id": i + 1, "dev": k})
						switch {
						case r == nil:
							got = append(got, "-")
						default:
							got = append(got, fmt.Sprint(r["loc"]))
						}
						switch {
						case m2>>uint(i)&1 == 1:
							want = append(want, fmt.Sprintf("new%d", k))
						case left:
							want = append(want, "<nil>")
						default:
							want = append(want, "-")
						}
					}
					s.Stop()
				})
				a.r.Evaluations++
				a.r.States++
				a.r.Nontrivial++
				a.r.Transitions += int64(res.Steps)
				cs := map[string]any{"sql": sql, "first_contents": mk(m1, "old"), "second_contents": mk(m2, "new")}
				if execErr != "" || res.Status != sched.StatusOK {
					a.fail("C16|reload|exec", execErr+" "+res.Status.String(), cs, nil, nil)
					continue
				}
				a.outcome(strings.Join(got, ","))
				if strings.Join(got, ",") != strings.Join(want, ",") {
					a.fail("C16|reload|old-rows-survive", fmt.Sprintf("%s, table registered with %s and then with %s: rows for dev 1..3 join %v, reference %v", sql, js(mk(m1, "old")), js(mk(m2, "new")), got, want), cs, want, got)
				}
			}
		}
	}
	a.sample(map[string]any{"keys": keys, "contents": "all 8 x 8 subsets"})
	return a.result()
}

// c09LeadingZero: the count written with a leading zero is the decimal number (CountingWindow(010) is ten rows).
func c09LeadingZero() fw.Result {
	a := newAcc("C09", "det-counting-count-spelling")
	for _, spelling := range []string{"010", "'010'", "009", "10"} {
		n := 10
		if spelling == "009" {
			n = 9
		}
		sql := "SELECT k, count(*) AS c, collect(id) AS ids FROM stream GROUP BY k, CountingWindow(" + spelling + ")"
		r := detExec(sql, detOpts{Eager: true, Horizon: 100 * vtime.Millisecond}, func(e *Env) {
			for i := 1; i <= 25; i++ {
				e.Emit(Row{"id": i, "k": []string{"a", "b"}[i%5/4]})
			}
		})
		a.r.Evaluations++
		a.r.States++
		a.r.Nontrivial++
		a.r.Transitions += int64(r.Steps)
		cs := map[string]any{"sql": sql, "rows": "ids 1..25, key b for every fifth row"}
		if r.ExecErr != "" || r.Status != sched.StatusOK {
			a.fail("C09|count-spelling|exec", r.ExecErr+" "+r.Status.String()+" "+firstLine(r.Panic), cs, nil, nil)
			continue
		}
		var sizes []string
		for _, b := range r.Batches {
			for _, row := range b {
				c, _ := num(row["c"])
				sizes = append(sizes, fmt.Sprintf("%v:%d", row["k"], int(c)))
			}
		}
		want := []string{fmt.Sprintf("a:%d", n), fmt.Sprintf("a:%d", n)} // 20 rows of key a, 5 of key b
		a.outcome(spelling + strings.Join(sizes, ","))
		if strings.Join(sizes, ",") != strings.Join(want, ",") {
			a.fail("C09|count-spelling|wrong-batch-size", fmt.Sprintf("%s over 20 rows of key a and 5 of key b: result sizes %v, reference %v", sql, sizes, want), cs, want, sizes)
		}
	}
	return a.result()
}

// c15MissingColumn: events that lack the column a DEFINE condition names. Such an event does not satisfy v > 1
// (the value of an earlier event must not stand in). All streams of length <= 5 over {1, 2, no v} in two interleaved
// partitions, PATTERN (A+), one row per match.
func c15MissingColumn() fw.Result {
	a := newAcc("C15", "det-missing-define-column")
	sql := "SELECT * FROM stream MATCH_RECOGNIZE (PARTITION BY k ORDER BY ts MEASURES FIRST(id) AS f, LAST(id) AS l ONE ROW PER MATCH PATTERN (A+) DEFINE A AS v > 1)"
	for L := 1; L <= 5; L++ {
		sequences(L, 3, func(ix []int) {
			seq := append([]int(nil), ix...)
			var rows []Row
			// partition a follows seq; partition b is the constant stream 2,2,2,... interleaved (it always satisfies A)
			var want []string
			start := 0
			for i, x := range seq {
				ra := Row{"k": "a", "id": 2*i + 1, "ts": 2*i + 1}
				if x < 2 {
					ra["v"] = x + 1
				}
				rows = append(rows, ra, Row{"k": "b", "id": 2*i + 2, "ts": 2*i + 2, "v": 2})
				if x == 1 { // v = 2 satisfies A
					if start == 0 {
						start = 2*i + 1
					}
				} else if start != 0 {
					want = append(want, fmt.Sprintf("a:%d-%d", start, 2*i-1))
					start = 0
				}
			}
			if start != 0 {
				want = append(want, fmt.Sprintf("a:%d-%d", start, 2*len(seq)-1))
			}
			want = append(want, fmt.Sprintf("b:%d-%d", 2, 2*len(seq)))
			r := detExec(sql, detOpts{Eager: true, Horizon: 50 * vtime.Millisecond}, func(e *Env) {
				for _, row := range rows {
					e.Emit(copyVal(row).(map[string]any))
				}
			})
			a.r.Evaluations++
			a.r.States++
			a.r.Nontrivial++
			a.r.Transitions += int64(r.Steps)
			cs := map[string]any{"sql": sql, "rows": rows}
			if r.ExecErr != "" || r.Status != sched.StatusOK {
				a.fail("C15|missing-column|exec", r.ExecErr+" "+r.Status.String()+" "+firstLine(r.Panic), cs, nil, nil)
				return
			}
			var got []string
			for _, b := range r.Batches {
				for _, row := range b {
					f, l := toInt(row["f"]), toInt(row["l"])
					got = append(got, fmt.Sprintf("%s:%d-%d", []string{"b", "a"}[f%2], f, l))
				}
			}
			g, w := append([]string(nil), got...), append([]string(nil), want...)
			sortStrings(g)
			sortStrings(w)
			a.outcome(strings.Join(g, ";"))
			if strings.Join(g, ";") != strings.Join(w, ";") {
				a.fail("C15|missing-column|wrong-matches", fmt.Sprintf("%s over %s: matches %v, reference %v", sql, js(rows), g, w), cs, w, g)
			}
		})
	}
	a.sample(map[string]any{"sql": sql, "values": "1, 2, no v"})
	return a.result()
}

func sortStrings(s []string) { sort.Strings(s) }
