package checks

import (
	"encoding/json"
	"fmt"
	"strings"
	"time"
)

func durUs(us int) time.Duration { return time.Duration(us) * time.Microsecond }

func toInt(v any) int {
	switch x := v.(type) {
	case int:
		return x
	case int64:
		return int(x)
	case float64:
		return int(x)
	case int32:
		return int(x)
	}
	return -999999
}

func firstLine(s string) string {
	if i := strings.Index(s, "\n"); i >= 0 {
		return s[:i]
	}
	return s
}

var _ = fmt.Sprint

func remarshal(in any, out any) {
	b, _ := json.Marshal(in)
	json.Unmarshal(b, out)
}

func remarshalRaw(in json.RawMessage, out any) { json.Unmarshal(in, out) }
