package checks

import "verifharness/fw"

func c06FuncUnits(tier string) []fw.Unit { return nil }

func c06RunFuncs(u fw.Unit) fw.Result { return fw.Result{} }
