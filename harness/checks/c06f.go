package checks

import (
	"strconv"
	"regexp"
	"net/url"
	"crypto/sha512"
	"crypto/md5"
	"crypto/sha1"
	"crypto/sha256"
	"encoding/hex"
	"fmt"
	"math"
	"sort"
	"strings"

	"verifharness/fw"
	"verifharness/ref"

	"github.com/rulego/streamsql/functions"
	"github.com/rulego/streamsql/verifrt/sched"
)

// C06 part 2: built-in scalar functions — totality, route agreement, documented values.

var c06Domain = []struct {
	Name string
	V    any
}{
	{"NULL", nil}, {"''", ""}, {"'abc'", "abc"}, {"'12'", "12"}, {"-1", -1}, {"0", 0}, {"1.5", 1.5}, {"1e20", 1e20}, {"2", 2}, {"7", 7}, {"-2.5", -2.5}, {"65", 65}, {"'a b&c'", "a b&c"}, {"'ff'", "ff"}, {"[1,2,2]", []any{1, 2, 2}},
	{"true", true}, {"[]", []any{}}, {"[1,2]", []any{1, 2}}, {"{k:1}", map[string]any{"k": 1}},
}

var c06Excluded = map[string]string{
	"rand": "non-deterministic", "expr": "evaluates text against the row", "unnest": "row-expanding, excluded by C05/C06 scope",
	"convert_tz": "date/time", "to_seconds": "date/time", "case_when": "variadic condition list (covered by CASE)", "format": "locale/verb dependent",
}

func c06ScalarFuncs() []functions.Function {
	var out []functions.Function
	for name, f := range functions.ListAll() {
		switch f.GetType() {
		case functions.TypeMath, functions.TypeString, functions.TypeConversion:
			if _, skip := c06Excluded[name]; !skip {
				out = append(out, f)
			}
		}
	}
	sort.Slice(out, func(i, j int) bool { return out[i].GetName() < out[j].GetName() })
	return out
}

// reference values for in-domain arguments (independent stdlib one-liners); ok=false = no claim
func c06RefValue(name string, args []any) (any, bool) {
	n := func(i int) (float64, bool) {
		if i >= len(args) {
			return 0, false
		}
		return ref.ToNum(args[i])
	}
	s := func(i int) (string, bool) {
		if i >= len(args) {
			return "", false
		}
		v, ok := args[i].(string)
		return v, ok
	}
	switch name {
	case "abs", "ceil", "ceiling", "floor", "sqrt", "exp", "sign", "sin", "cos", "ln", "log10", "log2", "round":
		x, ok := n(0)
		if !ok || len(args) != 1 {
			return nil, false
		}
		switch name {
		case "abs":
			return math.Abs(x), true
		case "ceil", "ceiling":
			return math.Ceil(x), true
		case "floor":
			return math.Floor(x), true
		case "sqrt":
			if x < 0 {
				return nil, false
			}
			return math.Sqrt(x), true
		case "exp":
			if r := math.Exp(x); !math.IsInf(r, 0) {
				return r, true
			}
			return nil, false // overflow: outside the function's domain (error or NULL allowed)
		case "sin":
			return math.Sin(x), true
		case "cos":
			return math.Cos(x), true
		case "sign":
			switch {
			case x > 0:
				return 1.0, true
			case x < 0:
				return -1.0, true
			}
			return 0.0, true
		case "ln":
			if x <= 0 {
				return nil, false
			}
			return math.Log(x), true
		case "log10":
			if x <= 0 {
				return nil, false
			}
			return math.Log10(x), true
		case "log2":
			if x <= 0 {
				return nil, false
			}
			return math.Log2(x), true
		case "round":
			if x == 1.5 {
				return nil, false // rounding mode of .5 not documented
			}
			return math.Round(x), true
		}
	case "pow", "power", "mod", "atan2":
		x, ok1 := n(0)
		y, ok2 := n(1)
		if !ok1 || !ok2 {
			return nil, false
		}
		switch name {
		case "pow", "power":
			r := math.Pow(x, y)
			if math.IsNaN(r) || math.IsInf(r, 0) {
				return nil, false
			}
			return r, true
		case "mod":
			if y == 0 {
				return nil, false
			}
			return math.Mod(x, y), true
		case "atan2":
			return math.Atan2(x, y), true
		}
	case "upper", "lower", "trim", "ltrim", "rtrim", "length", "len", "md5", "sha1", "sha256":
		x, ok := s(0)
		if !ok || len(args) != 1 {
			return nil, false
		}
		switch name {
		case "upper":
			return strings.ToUpper(x), true
		case "lower":
			return strings.ToLower(x), true
		case "trim":
			return strings.TrimSpace(x), true
		case "ltrim":
			return strings.TrimLeft(x, " \t\n\r"), true
		case "rtrim":
			return strings.TrimRight(x, " \t\n\r"), true
		case "length", "len":
			return float64(len([]rune(x))), true
		case "md5":
			h := md5.Sum([]byte(x))
			return hex.EncodeToString(h[:]), true
		case "sha1":
			h := sha1.Sum([]byte(x))
			return hex.EncodeToString(h[:]), true
		case "sha256":
			h := sha256.Sum256([]byte(x))
			return hex.EncodeToString(h[:]), true
		}
	case "startswith", "endswith", "indexof":
		x, ok1 := s(0)
		y, ok2 := s(1)
		if !ok1 || !ok2 {
			return nil, false
		}
		switch name {
		case "startswith":
			return strings.HasPrefix(x, y), true
		case "endswith":
			return strings.HasSuffix(x, y), true
		case "indexof":
			return float64(strings.Index(x, y)), true
		}
	case "concat":
		var sb strings.Builder
		for i := range args {
			x, ok := s(i)
			if !ok {
				return nil, false
			}
			sb.WriteString(x)
		}
		return sb.String(), true
	case "replace":
		x, ok1 := s(0)
		y, ok2 := s(1)
		z, ok3 := s(2)
		if !ok1 || !ok2 || !ok3 || y == "" {
			return nil, false
		}
		return strings.ReplaceAll(x, y, z), true
	case "coalesce":
		for _, a := range args {
			if a != nil {
				return a, true
			}
		}
		return nil, true
	case "if_null":
		if args[0] == nil {
			return args[1], true
		}
		return args[0], true
	case "is_null":
		return args[0] == nil, true
	case "is_not_null":
		return args[0] != nil, true
	case "is_string":
		_, ok := args[0].(string)
		return ok, true
	case "is_bool":
		_, ok := args[0].(bool)
		return ok, true
	case "is_array":
		_, ok := args[0].([]any)
		return ok, true
	case "is_object":
		_, ok := args[0].(map[string]any)
		return ok, true
	case "array_length":
		if a, ok := args[0].([]any); ok {
			return float64(len(a)), true
		}
	case "tan", "asin", "acos", "atan", "sinh", "cosh", "tanh", "log":
		x, ok := n(0)
		if !ok || len(args) != 1 || math.Abs(x) > 1e6 {
			return nil, false
		}
		switch name {
		case "tan":
			return math.Tan(x), true
		case "atan":
			return math.Atan(x), true
		case "sinh":
			if math.Abs(x) > 20 {
				return nil, false
			}
			return math.Sinh(x), true
		case "cosh":
			if math.Abs(x) > 20 {
				return nil, false
			}
			return math.Cosh(x), true
		case "tanh":
			return math.Tanh(x), true
		case "asin", "acos":
			if x < -1 || x > 1 {
				return nil, false
			}
			if name == "asin" {
				return math.Asin(x), true
			}
			return math.Acos(x), true
		case "log": // registered as "base-10 logarithm"
			if x <= 0 {
				return nil, false
			}
			return math.Log10(x), true
		}
	case "bitand", "bitor", "bitxor", "bitnot":
		ix := func(i int) (int64, bool) {
			x, ok := n(i)
			if !ok || x != math.Trunc(x) || math.Abs(x) > 1e9 {
				return 0, false
			}
			if _, isStr := args[i].(string); isStr {
				return 0, false
			}
			return int64(x), true
		}
		a, ok := ix(0)
		if !ok {
			return nil, false
		}
		if name == "bitnot" {
			return float64(^a), true
		}
		b, ok := ix(1)
		if !ok {
			return nil, false
		}
		switch name {
		case "bitand":
			return float64(a & b), true
		case "bitor":
			return float64(a | b), true
		}
		return float64(a ^ b), true
	case "sha512":
		if v, ok := s(0); ok {
			h := sha512.Sum512([]byte(v))
			return hex.EncodeToString(h[:]), true
		}
	case "null_if":
		// NULL if both values are equal, else the first one; only same-kind scalar pairs are claimed
		a, aok := args[0].(string)
		b, bok := args[1].(string)
		if aok && bok {
			if a == b {
				return nil, true
			}
			return a, true
		}
		x, xok := n(0)
		y, yok := n(1)
		if _, isStr := args[0].(string); xok && yok && !isStr {
			if _, isStr2 := args[1].(string); !isStr2 {
				if x == y {
					return nil, true
				}
				return x, true
			}
		}
	case "chr":
		if x, ok := n(0); ok && x == math.Trunc(x) && x >= 32 && x <= 126 {
			if _, isStr := args[0].(string); !isStr {
				return string(rune(int(x))), true
			}
		}
	case "hex2dec":
		if v, ok := s(0); ok && v != "" {
			if x, err := strconv.ParseInt(v, 16, 64); err == nil {
				return float64(x), true
			}
		}
	case "lpad", "rpad":
		str, ok := s(0)
		l, lok := n(1)
		pad := " "
		if len(args) == 3 {
			p, pok := s(2)
			if !pok || p == "" {
				return nil, false
			}
			pad = p
		}
		if _, isStr := args[1].(string); !ok || !lok || isStr || l != math.Trunc(l) || l > 64 || l < 0 || int(l) <= len([]rune(str)) {
			return nil, false // a target not longer than the text (truncate or keep?) is not claimed
		}
		fill := ""
		for len([]rune(fill)) < int(l)-len([]rune(str)) {
			fill += pad
		}
		fill = string([]rune(fill)[:int(l)-len([]rune(str))])
		if name == "lpad" {
			return fill + str, true
		}
		return str + fill, true
	case "trunc":
		x, ok := n(0)
		p, pok := n(1)
		_, s0 := args[0].(string)
		_, s1 := args[1].(string)
		if !ok || !pok || s0 || s1 || p != math.Trunc(p) || p < 0 || p > 6 || math.Abs(x) > 1e9 {
			return nil, false
		}
		f := math.Pow(10, p)
		return math.Trunc(x*f) / f, true
	case "split":
		str, ok := s(0)
		d, dok := s(1)
		if ok && dok && d != "" {
			var out []any
			for _, part := range strings.Split(str, d) {
				out = append(out, part)
			}
			return out, true
		}
	case "url_encode":
		if v, ok := s(0); ok {
			return url.QueryEscape(v), true
		}
	case "url_decode":
		if v, ok := s(0); ok {
			if d, err := url.QueryUnescape(v); err == nil {
				return d, true
			}
		}
	case "regexp_matches", "regexp_substring", "regexp_replace":
		str, ok := s(0)
		pat, pok := s(1)
		if !ok || !pok {
			return nil, false
		}
		re, err := regexp.Compile(pat)
		if err != nil {
			return nil, false
		}
		switch name {
		case "regexp_matches":
			return re.MatchString(str), true
		case "regexp_substring":
			if !re.MatchString(str) {
				return nil, false // no match: NULL or '' - not claimed
			}
			return re.FindString(str), true
		default:
			rep, rok := s(2)
			if !rok || strings.Contains(rep, "$") {
				return nil, false
			}
			return re.ReplaceAllString(str, rep), true
		}
	case "is_numeric":
		switch args[0].(type) {
		case int, int64, float64:
			return true, true
		case bool, []any, map[string]any:
			return false, true
		}
	case "substring":
		// rune offsets counted from 0 (the implementation's own description); only in-range, non-negative arguments
		str, ok := s(0)
		st, sok := n(1)
		if _, isStr := args[1].(string); !ok || !sok || isStr || st != math.Trunc(st) || st < 0 || st > 1e6 || int(st) > len([]rune(str)) {
			return nil, false
		}
		r := []rune(str)
		if len(args) == 2 {
			return string(r[int(st):]), true
		}
		l, lok := n(2)
		if _, isStr := args[2].(string); !lok || isStr || l != math.Trunc(l) || l < 0 || l > 1e6 || int(st)+int(l) > len(r) {
			return nil, false
		}
		return string(r[int(st) : int(st)+int(l)]), true
	case "array_contains", "array_position", "array_remove":
		arr, ok := args[0].([]any)
		if !ok {
			return nil, false
		}
		if _, isNum := ref.ToNum(args[1]); !isNum {
			return nil, false
		}
		if _, isStr := args[1].(string); isStr {
			return nil, false
		}
		x, _ := n(1)
		pos := 0
		var rest []any
		for i, e := range arr {
			if f, ok := ref.ToNum(e); ok && f == x {
				if pos == 0 {
					pos = i + 1
				}
				continue
			}
			rest = append(rest, e)
		}
		switch name {
		case "array_contains":
			return pos > 0, true
		case "array_position":
			if pos == 0 {
				return nil, false // absent: 0, -1 or NULL - not claimed
			}
			return float64(pos), true
		default:
			if len(rest) == 0 {
				return nil, false
			}
			return rest, true
		}
	case "array_distinct":
		if arr, ok := args[0].([]any); ok && len(arr) > 0 {
			var out []any
			seen := map[string]bool{}
			for _, e := range arr {
				if k := js(e); !seen[k] {
					seen[k] = true
					out = append(out, e)
				}
			}
			return out, true
		}
	case "greatest", "least":
		best := 0.0
		for i := range args {
			x, ok := n(i)
			if !ok {
				return nil, false
			}
			if i == 0 || (name == "greatest" && x > best) || (name == "least" && x < best) {
				best = x
			}
		}
		return best, true
	}
	return nil, false
}

func c06FuncUnits(tier string) []fw.Unit {
	var us []fw.Unit
	for s := 0; s < 16; s++ {
		us = append(us, fw.Unit{Check: "C06", Kind: "funcs", Tier: tier, Spec: fw.Spec(enumSpec{Shard: s, Shards: 16})})
	}
	return us
}

func c06ArgTuples(arity int) [][]int {
	var out [][]int
	sequences(arity, len(c06Domain), func(ix []int) { out = append(out, append([]int(nil), ix...)) })
	return out
}

func c06SameValue(a, b any) bool {
	if a == nil || b == nil {
		return a == nil && b == nil
	}
	if fa, ok := num(a); ok {
		fb, ok2 := num(b)
		if !ok2 {
			return false
		}
		if math.IsNaN(fa) && math.IsNaN(fb) {
			return true
		}
		return ref.Close(fa, fb)
	}
	return js(a) == js(b)
}

func c06RunFuncs(u fw.Unit) fw.Result {
	sp := parseEnum(u)
	a := newAcc("C06", "functions")
	funcs := c06ScalarFuncs()
	for fi, f := range funcs {
		if fi%sp.Shards != sp.Shard {
			continue
		}
		name := f.GetName()
		minA, maxA := f.GetMinArgs(), f.GetMaxArgs()
		variadic := maxA < 0
		if maxA < 0 || maxA > 3 {
			maxA = minA
			if maxA < 2 {
				maxA = 2
			}
			if variadic && maxA < 3 {
				maxA = 3 // variadic functions fold over their arguments: the third one is where a stale accumulator shows
			}
		}
		if minA < 1 {
			minA = 1
		}
		for arity := minA; arity <= maxA && arity <= 3; arity++ {
			tuples := c06ArgTuples(arity)
			if arity == 3 && u.Tier == "quick" && maxA > minA && !variadic {
				// an optional third argument: in quick all triples over a reduced domain (NULL, '', 'abc', 2, 7, -1, 'ff')
				tuples = nil
				red := []int{0, 1, 2, 8, 9, 4, 13}
				sequences(3, len(red), func(ix []int) { tuples = append(tuples, []int{red[ix[0]], red[ix[1]], red[ix[2]]}) })
			}
			cols := []string{"a1", "a2", "a3"}[:arity]
			sql := fmt.Sprintf("SELECT %s(%s) AS r FROM stream", name, strings.Join(cols, ", "))
			var rows []Row
			for _, t := range tuples {
				row := Row{}
				for i, x := range t {
					row[cols[i]] = copyVal(c06Domain[x].V)
				}
				rows = append(rows, row)
			}
			res, execErr, st, pv := syncEval(sql, rows)
			cs0 := map[string]any{"sql": sql}
			if st != sched.StatusOK {
				a.fail("C06|func|"+name+"|abort", st.String()+" "+firstLine(pv), cs0, nil, nil)
				continue
			}
			if execErr != "" {
				a.fail("C06|func|"+name+"|rejected", "SELECT with the function rejected: "+execErr, cs0, nil, nil)
				continue
			}
			for ti, t := range tuples {
				a.r.Evaluations++
				a.r.States++
				a.r.Transitions += 2
				args := make([]any, arity)
				var desc []string
				for i, x := range t {
					args[i] = copyVal(c06Domain[x].V)
					desc = append(desc, c06Domain[x].Name)
				}
				argDesc := strings.Join(desc, ", ")
				// route 1: direct Execute
				var dv any
				var derr error
				var dpanic string
				func() {
					defer func() {
						if p := recover(); p != nil {
							dpanic = fmt.Sprint(p)
						}
					}()
					if derr = f.Validate(args); derr == nil {
						dv, derr = f.Execute(&functions.FunctionContext{Data: map[string]any{}}, args)
					}
				}()
				cs := map[string]any{"function": name, "args": argDesc}
				if dpanic != "" {
					a.fail("C06|func|"+name+"|panic-direct", fmt.Sprintf("%s(%s) panicked: %s", name, argDesc, dpanic), cs, nil, nil)
					continue
				}
				sr := res[ti]
				if strings.HasPrefix(sr.Err, "PANIC") {
					a.fail("C06|func|"+name+"|panic-select", fmt.Sprintf("SELECT %s(%s) panicked: %s", name, argDesc, sr.Err), cs, nil, nil)
					continue
				}
				var sv any
				if sr.Row != nil {
					sv = sr.Row["r"]
				}
				// documented value for in-domain arguments
				if want, ok := c06RefValue(name, args); ok {
					a.r.Nontrivial++
					if derr != nil || !c06SameValue(dv, want) {
						a.fail("C06|func|"+name+"|value-direct", fmt.Sprintf("%s(%s) = %v (err %v), documented value %v", name, argDesc, dv, derr, want), cs, want, dv)
					} else if !c06SameValue(sv, want) {
						a.fail("C06|func|"+name+"|value-select", fmt.Sprintf("SELECT %s(%s) = %v, documented value %v (direct call gives %v)", name, argDesc, sv, want, dv), cs, want, sv)
					}
					continue
				}
				// route agreement: an error of the direct call must surface as NULL, a value as the same value
				if derr != nil {
					if sv != nil {
						a.fail("C06|func|"+name+"|route-disagree-error", fmt.Sprintf("%s(%s): direct call fails (%v) but SELECT yields %v", name, argDesc, derr, sv), cs, nil, sv)
					}
				} else if !c06SameValue(dv, sv) {
					a.fail("C06|func|"+name+"|route-disagree-value", fmt.Sprintf("%s(%s): direct call yields %v (%T), SELECT yields %v (%T)", name, argDesc, dv, dv, sv, sv), cs, dv, sv)
				}
				a.outcome(fmt.Sprint(name, argDesc, sv))
			}
		}
		if fi == 3 {
			a.sample(map[string]any{"function": name, "domain": len(c06Domain), "routes": []string{"functions.Get(f).Execute", "SELECT f(..) via EmitSync"}})
		}
	}
	if sp.Shard == 0 {
		c06NumberToText(a)
	}
	if sp.Shard == 1 {
		c06CaseVariantPairs(a)
	}
	if sp.Shard == 2 {
		c06QuotedLiteralArgs(a)
	}
	return a.result()
}

// c06NumberToText: a number handed to a text function or cast to text keeps its value - the text reads back as
// exactly the number it was made from (float64 values with more than seven significant digits, integral floats
// above 2^24, values below 1e-7, every Go numeric type).
func c06NumberToText(a *acc) {
	vals := []any{1234567.891, 16777217.0, 0.30000000000000004, -0.123456789, 100000001.0, 2.5, 7, int64(9007199254740993), float32(2.5), 1e-9, -1700000000123.0}
	queries := []struct{ sql, prefix string }{
		{"SELECT concat('t', x) AS r FROM stream", "t"},
		{"SELECT cast(x, 'string') AS r FROM stream", ""},
		{"SELECT concat(x, 'u', x) AS r FROM stream", "\x00twice"},
		{"SELECT lower(concat('T', x)) AS r FROM stream", "t"},
	}
	for _, q := range queries {
		for _, v := range vals {
			rows, e, _, _ := syncEval(q.sql, []Row{{"x": v}})
			a.r.Evaluations++
			a.r.States++
			cs := map[string]any{"sql": q.sql, "x": fmt.Sprintf("%v (%T)", v, v)}
			if e != "" || len(rows) != 1 || rows[0].Err != "" || rows[0].Row == nil {
				a.r.Skipped++
				continue
			}
			txt, ok := rows[0].Row["r"].(string)
			if !ok {
				a.r.Skipped++
				continue
			}
			a.r.Nontrivial++
			parts := []string{strings.TrimPrefix(txt, q.prefix)}
			if q.prefix == "\x00twice" {
				parts = strings.Split(txt, "u")
			}
			for _, part := range parts {
				back, err := strconv.ParseFloat(strings.ToLower(part), 64)
				want, _ := num(v)
				if i, isInt := v.(int64); isInt {
					bi, err2 := strconv.ParseInt(part, 10, 64)
					if err2 == nil && bi == i {
						continue
					}
				}
				if err != nil || back != want {
					a.fail("C06|func|number-to-text|value-not-preserved", fmt.Sprintf("%s with x = %v (%T) yields %q, which does not read back as %v", q.sql, v, v, txt, v), cs, fmt.Sprint(v), txt)
					break
				}
			}
			a.outcome(q.sql + txt)
		}
	}
	a.sample(map[string]any{"number_to_text_queries": len(queries), "values": fmt.Sprint(vals)})
}

// c06CaseVariantPairs: two expressions that differ only in the letter case of a case-sensitive part (a text literal,
// a column name) evaluated one after the other in one process: each yields what it yields when it is the first
// expression a fresh process evaluates (the caches are process-wide and keyed by text).
func c06CaseVariantPairs(a *acc) {
	rows := []Row{{"s": "t1", "S": "T9", "a": 2, "A": 10, "b": 1}, {"s": "x", "S": "x", "a": 1, "A": 1, "b": 2}}
	pairs := [][2]string{
		{"concat(s, '-ok')", "concat(s, '-OK')"},
		{"(a + 1) * 2", "(A + 1) * 2"},
		{"upper(s)", "upper(S)"},
		{"CASE WHEN s = 't1' THEN 'lo' ELSE 'Lo' END", "CASE WHEN s = 'T1' THEN 'lo' ELSE 'Lo' END"},
		{"s = 'T1' OR S = 'T9'", "s = 't1' OR S = 't9'"},
		{"coalesce(s, 'none')", "coalesce(S, 'NONE')"},
		{"length(concat(s, 'a'))", "length(concat(S, 'a'))"},
		{"a + b * 2", "A + b * 2"},
	}
	for _, ctx := range []string{"SELECT %s AS r FROM stream", "SELECT a FROM stream WHERE %s"} {
		for _, pr := range pairs {
			if strings.HasPrefix(ctx, "SELECT a") && !strings.Contains(pr[0], "=") {
				continue
			}
			for _, order := range [][2]int{{0, 1}, {1, 0}} {
				first, second := fmt.Sprintf(ctx, pr[order[0]]), fmt.Sprintf(ctx, pr[order[1]])
				functions.VerifResetGlobals()
				alone, e0, _, _ := syncEval(second, rows)
				functions.VerifResetGlobals()
				_, e1, _, _ := syncEval(first, rows)
				after, e2, _, _ := syncEval(second, rows)
				a.r.Evaluations += 3
				a.r.States++
				if e0 != "" || e1 != "" || e2 != "" {
					a.r.Skipped++
					continue
				}
				a.r.Nontrivial++
				a.outcome(second + js(after))
				if js(after) != js(alone) {
					a.fail("C06|case-variant-pair|value-depends-on-earlier-expression", fmt.Sprintf("%s evaluated after %s yields %s; in a fresh process it yields %s", second, first, js(after), js(alone)), map[string]any{"first": first, "second": second, "rows": rows}, js(alone), js(after))
				}
			}
		}
	}
	functions.VerifResetGlobals()
}
