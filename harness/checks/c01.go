package checks

import (
	"time"
	"fmt"
	"sort"

	"verifharness/explore"
	"verifharness/fw"
	"verifharness/ref"

	"github.com/rulego/streamsql/rsql"
	"github.com/rulego/streamsql/types"
	"github.com/rulego/streamsql/verifrt/sched"
	vtime "github.com/rulego/streamsql/verifrt/time"
	"github.com/rulego/streamsql/window"
)

// C01 (tumbling) and C08 (sliding): every accepted event in exactly its own interval(s).

type twCfg struct {
	Kind   string `json:"kind"` // tumbling | sliding
	SizeMs int64  `json:"size_ms"`
	Slide  int64  `json:"slide_ms"`
	OOOMs  int64  `json:"ooo_ms"`
	Keys   int    `json:"keys"`
	MaxL   int    `json:"max_len"`
	Eager  bool   `json:"eager_feed"`
	Unit   string `json:"time_unit,omitempty"` // "" = ms; "ss": the ts column holds seconds; "ns": nanoseconds
	Form       string `json:"size_form,omitempty"` // "int": sizes written as bare numbers of seconds, "str-int": as quoted numbers
	NoSentinel bool `json:"no_sentinel,omitempty"` // the stream simply stops: what the last watermark has passed must be out by quiescence
	LateMs int64  `json:"allowed_lateness_ms,omitempty"` // ALLOWEDLATENESS; only arrival sequences without a late-on-arrival row are run (late updates are C02's subject)
	GapMs  int64  `json:"gap_ms,omitempty"`    // the second half of the stream (and the sentinel) lies this much later in event time
	Block  bool   `json:"block_slow_consumer,omitempty"` // strategy block without timeout, window output buffer of 1, sink taking 20 ms per batch
	// Base/Div/Float: timestamps of a present-day epoch (Base + (t-10000)/Div ms) handed over as float64, the type a
	// JSON decoder produces; with Div 20 the 2 s grid of the alphabet becomes a 100 ms grid
	Base  int64 `json:"epoch_base_ms,omitempty"`
	Div   int64 `json:"alphabet_divisor,omitempty"`
	Float bool  `json:"float64_timestamps,omitempty"`
	// TSType: the Go type of the timestamp column: "" int64 (or float64 with Float), "int", "uint64", "time" (time.Time),
	// "time-local" (time.Time in a zone east of UTC), "string" (decimal text)
	TSType string `json:"timestamp_type,omitempty"`
}

func (c twCfg) at(t int64) int64 {
	if c.Div > 0 {
		return c.Base + (t-10000)/c.Div
	}
	return t
}

func twOpts(c twCfg) detOpts {
	o := detOpts{Eager: c.Eager, Horizon: 500 * vtime.Millisecond}
	if c.Block {
		p := smallPerf("block", 64, 64, 1)
		o.Perf = &p
		o.SinkDelay = 20 * vtime.Millisecond
		o.Horizon = 2 * vtime.Second
	}
	return o
}

// twUnitScale converts a timestamp in ms to the value of the ts column.
func twRowTS(c twCfg, ms int64) int64 {
	switch c.Unit {
	case "ss":
		return ms / 1000
	case "ns":
		return ms * 1000000
	}
	return ms
}

// timestamp alphabet (ms): boundaries of 2s and 3s grids, +/-1ms jitter, a far-away value
var twTimes = []int64{10000, 10001, 11000, 11999, 12000, 12500, 14000, 15000, 17999, 7000}

func twSQL(c twCfg) string {
	sel := "count(*) AS c, sum(v) AS s, collect(id) AS ids, window_start() AS ws, window_end() AS we"
	grp := ""
	if c.Keys > 1 {
		sel = "k, " + sel
		grp = "k, "
	}
	win := fmt.Sprintf("TumblingWindow('%dms')", c.SizeMs)
	if c.Kind == "sliding" {
		win = fmt.Sprintf("SlidingWindow('%dms','%dms')", c.SizeMs, c.Slide)
	}
	switch c.Form {
	case "int":
		win = fmt.Sprintf("TumblingWindow(%d)", c.SizeMs/1000)
		if c.Kind == "sliding" {
			win = fmt.Sprintf("SlidingWindow(%d, %d)", c.SizeMs/1000, c.Slide/1000)
		}
	case "str-int":
		win = fmt.Sprintf("TumblingWindow('%d')", c.SizeMs/1000)
		if c.Kind == "sliding" {
			win = fmt.Sprintf("SlidingWindow('%d', '%ds')", c.SizeMs/1000, c.Slide/1000)
		}
	}
	unit := "ms"
	if c.Unit != "" {
		unit = c.Unit
	}
	with := "TIMESTAMP='ts', TIMEUNIT='" + unit + "'"
	if c.OOOMs > 0 {
		with += fmt.Sprintf(", MAXOUTOFORDERNESS='%dms'", c.OOOMs)
	}
	if c.LateMs > 0 {
		with += fmt.Sprintf(", ALLOWEDLATENESS='%dms'", c.LateMs)
	}
	return fmt.Sprintf("SELECT %s FROM stream GROUP BY %s%s WITH (%s)", sel, grp, win, with)
}

func twEvents(c twCfg, tsIdx []int, keyBits int) []ref.Event {
	evs := make([]ref.Event, 0, len(tsIdx)+1)
	for i, x := range tsIdx {
		k := "a"
		if c.Keys > 1 && keyBits>>uint(i)&1 == 1 {
			k = "b"
		}
		ts := c.at(twTimes[x])
		if c.Unit == "ss" {
			ts = ts / 1000 * 1000 // the column holds whole seconds
		}
		if c.GapMs > 0 && i >= (len(tsIdx)+1)/2 {
			ts += c.GapMs // a sparse source: more than a day of event time without any row (all of it far behind the clock)
		}
		evs = append(evs, ref.Event{ID: i + 1, Key: k, TS: ts, V: float64(int(1) << uint(i))})
	}
	// sentinel far ahead (but far below now+24h of the virtual clock): pushes the watermark past every window
	if c.NoSentinel {
		return evs
	}
	evs = append(evs, ref.Event{ID: 99, Key: "zz", TS: c.at(500000) + c.GapMs, V: 0})
	return evs
}

func twFeed(c twCfg, evs []ref.Event) func(e *Env) {
	return func(e *Env) {
		for _, ev := range evs {
			if c.Float {
				e.Emit(Row{"id": ev.ID, "k": ev.Key, "ts": float64(twRowTS(c, ev.TS)), "v": ev.V})
				continue
			}
			if c.TSType != "" {
				var ts any
				ms := twRowTS(c, ev.TS)
				switch c.TSType {
				case "int":
					ts = int(ms)
				case "uint64":
					ts = uint64(ms)
				case "time":
					ts = time.UnixMilli(ms).UTC()
				case "time-local":
					ts = time.UnixMilli(ms).In(time.FixedZone("east", 5*3600+1800))
				case "string":
					ts = fmt.Sprint(ms)
				}
				e.Emit(Row{"id": ev.ID, "k": ev.Key, "ts": ts, "v": ev.V})
				continue
			}
			e.Emit(Row{"id": ev.ID, "k": ev.Key, "ts": twRowTS(c, ev.TS), "v": ev.V})
		}
	}
}

type twDelivery struct {
	Key    string
	WS, WE int64 // ms
	IDs    []int
	C      float64
	S      float64
	WID    string
}

func twDeliveries(c twCfg, batches []Batch) ([]twDelivery, string) {
	var out []twDelivery
	for _, b := range batches {
		for _, r := range b {
			ws, ok1 := exactInt(r["ws"])
			we, ok2 := exactInt(r["we"])
			if !ok1 || !ok2 {
				return nil, fmt.Sprintf("window_start/window_end not numeric in %s", js(r))
			}
			d := twDelivery{WS: ws / 1000000, WE: we / 1000000, IDs: sortedInts(idList(r["ids"]))}
			if ws%1000000 != 0 || we%1000000 != 0 {
				return nil, fmt.Sprintf("window bounds not on a millisecond: %s", js(r))
			}
			d.Key = "a"
			if c.Keys > 1 {
				d.Key, _ = r["k"].(string)
			}
			d.C, _ = num(r["c"])
			d.S, _ = num(r["s"])
			d.WID, _ = r["window_id"].(string)
			out = append(out, d)
		}
	}
	return out, ""
}

// twCompare checks deliveries against the reference intervals. kind is "" when everything agrees.
func twCompare(c twCfg, evs []ref.Event, ds []twDelivery) (kind, what string) {
	var exp []ref.Interval
	if c.Kind == "sliding" {
		exp = ref.Sliding(evs, c.SizeMs, c.Slide, c.OOOMs)
	} else {
		exp = ref.Tumbling(evs, c.SizeMs, c.OOOMs)
	}
	wm := ref.FinalWatermark(evs, c.OOOMs)
	byID := map[int]ref.Event{}
	for _, e := range evs {
		byID[e.ID] = e
	}
	type kk struct {
		key string
		ws  int64
	}
	seen := map[kk]twDelivery{}
	idCount := map[int]int{}
	var lastStart int64 = -1 << 62
	for _, d := range ds {
		if d.Key == "zz" {
			return "sentinel-window-fired", fmt.Sprintf("a result for the sentinel's own window was delivered: %+v", d)
		}
		k := kk{d.Key, d.WS}
		if _, dup := seen[k]; dup {
			return "interval-twice", fmt.Sprintf("interval [%d,%d) of key %s reported twice", d.WS, d.WE, d.Key)
		}
		seen[k] = d
		if d.WE-d.WS != c.SizeMs {
			return "bounds", fmt.Sprintf("window_end-window_start = %d ms, size is %d ms", d.WE-d.WS, c.SizeMs)
		}
		grid := c.SizeMs
		if c.Kind == "sliding" {
			grid = c.Slide
		}
		if d.WS%grid != 0 {
			return "alignment", fmt.Sprintf("window_start %d ms is not a multiple of %d ms", d.WS, grid)
		}
		if d.WE > wm {
			return "fired-before-watermark", fmt.Sprintf("interval [%d,%d) delivered although the final watermark is %d", d.WS, d.WE, wm)
		}
		if c.Kind == "sliding" && d.WS < lastStart {
			return "order", fmt.Sprintf("interval starting %d delivered after one starting %d", d.WS, lastStart)
		}
		if d.WS > lastStart {
			lastStart = d.WS
		}
		if d.WID != fmt.Sprintf("%d_%d", d.WS*1000000, d.WE*1000000) {
			return "window-id", fmt.Sprintf("window_id %q does not carry the interval [%d,%d) ms", d.WID, d.WS, d.WE)
		}
		sum := 0.0
		for _, id := range d.IDs {
			e, ok := byID[id]
			if !ok {
				return "unknown-id", fmt.Sprintf("unknown id %d", id)
			}
			if e.Key != d.Key || e.TS < d.WS || e.TS >= d.WE {
				return "foreign-row", fmt.Sprintf("row %d (key %s, ts %d) reported in interval [%d,%d) of key %s", id, e.Key, e.TS, d.WS, d.WE, d.Key)
			}
			sum += e.V
			idCount[id]++
		}
		if int(d.C) != len(d.IDs) || d.S != sum {
			return "aggregate", fmt.Sprintf("count=%v sum=%v do not match the reported rows %v (sum %v)", d.C, d.S, d.IDs, sum)
		}
	}
	if c.Kind == "tumbling" {
		for id, n := range idCount {
			if n > 1 {
				return "row-twice", fmt.Sprintf("row %d counted in %d intervals", id, n)
			}
		}
	}
	for _, iv := range exp {
		d, ok := seen[kk{iv.Key, iv.Start}]
		if !ok {
			return "missing-interval", fmt.Sprintf("interval [%d,%d) of key %s with accepted rows %v was never delivered (final watermark %d)", iv.Start, iv.End, iv.Key, iv.Must, wm)
		}
		have := map[int]bool{}
		for _, id := range d.IDs {
			have[id] = true
		}
		for _, id := range iv.Must {
			if !have[id] {
				return "missing-row", fmt.Sprintf("accepted row %d missing from interval [%d,%d): reported %v", id, iv.Start, iv.End, d.IDs)
			}
		}
		delete(seen, kk{iv.Key, iv.Start})
	}
	if c.Kind == "sliding" {
		// an unexpected interval: either before the aligned start of the earliest accepted event, or
		// without any accepted row (late-only rows may legitimately be dropped or kept)
		acc := ref.Accepted(evs, c.OOOMs)
		minTS := int64(1 << 62)
		for i, e := range evs {
			if acc[i] && e.TS < minTS {
				minTS = e.TS
			}
		}
		first := (minTS / c.Slide) * c.Slide
		for k := range seen {
			if k.ws < first {
				return "interval-before-first", fmt.Sprintf("interval starting at %d is earlier than the slide-aligned start %d of the earliest accepted event", k.ws, first)
			}
		}
	}
	return "", ""
}

func twConfigs(kind, tier string) []twCfg {
	maxL := 4
	if tier == "thorough" {
		maxL = 5
	}
	var out []twCfg
	if kind == "tumbling" {
		for _, size := range []int64{2000, 3000} {
			for _, ooo := range []int64{0, 1000, 2000, 5000} {
				for _, eager := range []bool{false, true} {
					out = append(out, twCfg{Kind: kind, SizeMs: size, OOOMs: ooo, Keys: 1, MaxL: maxL, Eager: eager})
				}
			}
		}
		// a size that does not divide 24h: alignment to multiples of the size counted from the Unix epoch differs
		// from alignment counted from any other origin (time.Truncate counts from year 1)
		for _, ooo := range []int64{0, 2000} {
			for _, eager := range []bool{false, true} {
				out = append(out, twCfg{Kind: kind, SizeMs: 7000, OOOMs: ooo, Keys: 1, MaxL: maxL, Eager: eager})
			}
		}
		for _, unit := range []string{"ss", "ns"} {
			out = append(out, twCfg{Kind: kind, SizeMs: 2000, OOOMs: 1000, Keys: 1, MaxL: maxL, Eager: true, Unit: unit})
		}
		out = append(out, twCfg{Kind: kind, SizeMs: 2000, OOOMs: 2000, Keys: 2, MaxL: maxL - 1, Eager: false},
			twCfg{Kind: kind, SizeMs: 2000, OOOMs: 0, Keys: 2, MaxL: maxL - 1, Eager: true})
		for _, eager := range []bool{false, true} {
			out = append(out, twCfg{Kind: kind, SizeMs: 2000, OOOMs: 1000, Keys: 1, MaxL: maxL, Eager: eager, GapMs: 36 * 3600 * 1000})
		}
		out = append(out, twCfg{Kind: kind, SizeMs: 2000, OOOMs: 0, Keys: 1, MaxL: maxL, Eager: false, Block: true})
		for _, eager := range []bool{false, true} {
			out = append(out, twCfg{Kind: kind, SizeMs: 2000, OOOMs: 0, Keys: 1, MaxL: maxL, Eager: eager, NoSentinel: true}, twCfg{Kind: kind, SizeMs: 1500, OOOMs: 500, Keys: 1, MaxL: maxL, Eager: eager, NoSentinel: true})
		}
		out = append(out, twCfg{Kind: kind, SizeMs: 2000, OOOMs: 1000, Keys: 1, MaxL: maxL - 1, Eager: true, Form: "int"}, twCfg{Kind: kind, SizeMs: 2000, OOOMs: 0, Keys: 1, MaxL: maxL - 1, Eager: false, Form: "str-int"})
		// ALLOWEDLATENESS shorter and longer than the window, on-time rows only: the first firing is what it is without it
		for _, late := range []int64{200, 1000, 3000} {
			out = append(out, twCfg{Kind: kind, SizeMs: 2000, OOOMs: 0, Keys: 1, MaxL: maxL, Eager: true, LateMs: late}, twCfg{Kind: kind, SizeMs: 2000, OOOMs: 1000, Keys: 1, MaxL: maxL, Eager: false, LateMs: late})
		}
		for _, base := range []int64{1700000000300, 1700000000000} {
			for _, ooo := range []int64{0, 100} {
				out = append(out, twCfg{Kind: kind, SizeMs: 100, OOOMs: ooo, Keys: 1, MaxL: maxL, Eager: true, Base: base, Div: 20, Float: true})
			}
		}
		// the timestamp column as every accepted Go type
		for _, tt := range []string{"int", "uint64", "time", "time-local", "string"} {
			out = append(out, twCfg{Kind: kind, SizeMs: 100, OOOMs: 100, Keys: 1, MaxL: maxL - 1, Eager: true, Base: 1700000000300, Div: 20, TSType: tt})
		}
		return out
	}
	for _, ss := range [][2]int64{{4000, 2000}, {3000, 2000}, {2000, 2000}, {2000, 3000}, {6000, 2000}} {
		for _, ooo := range []int64{0, 2000} {
			for _, eager := range []bool{false, true} {
				out = append(out, twCfg{Kind: kind, SizeMs: ss[0], Slide: ss[1], OOOMs: ooo, Keys: 1, MaxL: maxL, Eager: eager})
			}
		}
	}
	for _, unit := range []string{"ss", "ns"} {
		out = append(out, twCfg{Kind: kind, SizeMs: 4000, Slide: 2000, OOOMs: 2000, Keys: 1, MaxL: maxL, Eager: true, Unit: unit})
	}
	// a tolerance larger than the window size
	for _, ss := range [][2]int64{{2000, 2000}, {4000, 2000}} {
		out = append(out, twCfg{Kind: kind, SizeMs: ss[0], Slide: ss[1], OOOMs: 5000, Keys: 1, MaxL: maxL, Eager: true})
	}
	for _, eager := range []bool{false, true} {
		out = append(out, twCfg{Kind: kind, SizeMs: 7000, Slide: 3500, OOOMs: 2000, Keys: 1, MaxL: maxL, Eager: eager}) // slide not dividing 24h
	}
	out = append(out, twCfg{Kind: kind, SizeMs: 4000, Slide: 2000, OOOMs: 2000, Keys: 2, MaxL: maxL - 1, Eager: false})
	for _, eager := range []bool{false, true} {
		out = append(out, twCfg{Kind: kind, SizeMs: 4000, Slide: 2000, OOOMs: 1000, Keys: 1, MaxL: maxL, Eager: eager, GapMs: 36 * 3600 * 1000})
	}
	out = append(out, twCfg{Kind: kind, SizeMs: 4000, Slide: 2000, OOOMs: 0, Keys: 1, MaxL: maxL, Eager: false, Block: true})
	for _, late := range []int64{200, 3000} {
		out = append(out, twCfg{Kind: kind, SizeMs: 4000, Slide: 2000, OOOMs: 0, Keys: 1, MaxL: maxL, Eager: true, LateMs: late}, twCfg{Kind: kind, SizeMs: 4000, Slide: 2000, OOOMs: 1000, Keys: 1, MaxL: maxL, Eager: false, LateMs: late})
	}
	out = append(out, twCfg{Kind: kind, SizeMs: 4000, Slide: 2000, OOOMs: 1000, Keys: 1, MaxL: maxL - 1, Eager: true, Form: "int"}, twCfg{Kind: kind, SizeMs: 4000, Slide: 2000, OOOMs: 0, Keys: 1, MaxL: maxL - 1, Eager: false, Form: "str-int"})
	// no sentinel: the last row's watermark passes some interval ends and then the stream is silent
	for _, ss := range [][2]int64{{2500, 1000}, {3000, 2000}} {
		for _, eager := range []bool{false, true} {
			out = append(out, twCfg{Kind: kind, SizeMs: ss[0], Slide: ss[1], OOOMs: 0, Keys: 1, MaxL: maxL, Eager: eager, NoSentinel: true})
		}
		out = append(out, twCfg{Kind: kind, SizeMs: ss[0], Slide: ss[1], OOOMs: 500, Keys: 1, MaxL: maxL, Eager: true, NoSentinel: true})
	}
	for _, base := range []int64{1700000000300, 1700000000000} {
		out = append(out, twCfg{Kind: kind, SizeMs: 200, Slide: 100, OOOMs: 100, Keys: 1, MaxL: maxL, Eager: true, Base: base, Div: 20, Float: true})
	}
	for _, tt := range []string{"time", "time-local", "string"} {
		out = append(out, twCfg{Kind: kind, SizeMs: 200, Slide: 100, OOOMs: 100, Keys: 1, MaxL: maxL - 1, Eager: true, Base: 1700000000300, Div: 20, TSType: tt})
	}
	return out
}

// twSignature abstracts a failing case: kind of disagreement + whether an on-time event older
// than the first arrival was involved, whether ooo>0, feed policy.
func twSignature(prop string, c twCfg, kind string, evs []ref.Event) string {
	earlier := false
	for i := 1; i < len(evs)-1; i++ {
		if evs[i].TS < evs[0].TS {
			earlier = true
		}
	}
	return fmt.Sprintf("%s|%s|%s|event-earlier-than-first=%v", prop, c.Kind, kind, earlier)
}

func twRunEnum(prop string, u fw.Unit, cfgs []twCfg) fw.Result {
	sp := parseEnum(u)
	c := cfgs[sp.Cfg]
	a := newAcc(prop, "det-"+c.Kind)
	sql := twSQL(c)
	idx := 0
	for L := 1; L <= c.MaxL; L++ {
		sequences(L, len(twTimes), func(seq []int) {
			nk := 1
			if c.Keys > 1 {
				nk = 1 << uint(L-1) // key of the first event fixed to "a"
			}
			for kb := 0; kb < nk; kb++ {
				idx++
				if idx%sp.Shards != sp.Shard {
					continue
				}
				evs := twEvents(c, seq, kb<<1)
				if c.LateMs > 0 {
					late := false
					for _, ok := range ref.Accepted(evs, c.OOOMs) {
						late = late || !ok
					}
					if late {
						continue // a late-on-arrival row may update a fired window: C02's subject
					}
				}
				r := detExec(sql, twOpts(c), twFeed(c, evs))
				a.r.Evaluations++
				a.r.States++
				a.r.Transitions += int64(r.Steps)
				cs := map[string]any{"cfg": c, "sql": sql, "events": evs}
				if r.ExecErr != "" || r.Status != sched.StatusOK {
					a.fail(prop+"|"+c.Kind+"|exec", r.ExecErr+" "+r.Status.String()+" "+firstLine(r.Panic), cs, nil, nil)
					continue
				}
				ds, perr := twDeliveries(c, r.Batches)
				if perr != "" {
					a.fail(prop+"|"+c.Kind+"|result-shape", perr, cs, nil, r.Batches)
					continue
				}
				if len(ds) > 1 {
					a.r.Nontrivial++
				}
				a.outcome(js(ds))
				if kind, what := twCompare(c, evs, ds); kind != "" {
					a.fail(twSignature(prop, c, kind, evs), what, cs, nil, ds)
				}
				if idx == 500 {
					a.sample(map[string]any{"sql": sql, "events(id,key,ts_ms)": evs, "deliveries": ds})
				}
			}
		})
	}
	return a.result()
}

// ---- W-level: the window object driven directly under the schedule explorer ----

type twSchedCase struct {
	Cfg twCfg
	TS  []int64
}

func twWindowConfig(c twCfg) (types.WindowConfig, error) {
	cfg, _, err := rsql.Parse(twSQL(c))
	if err != nil {
		return types.WindowConfig{}, err
	}
	return cfg.WindowConfig, nil
}

func twSchedRun(prop string, sc twSchedCase) explore.RunFunc {
	wcfg, perr := twWindowConfig(sc.Cfg)
	var evs []ref.Event
	for i, ts := range sc.TS {
		evs = append(evs, ref.Event{ID: i + 1, Key: "a", TS: ts, V: float64(int(1) << uint(i))})
	}
	evs = append(evs, ref.Event{ID: 99, Key: "zz", TS: 500000})
	return func(ch sched.Chooser, local map[int]bool) (*sched.Result, string, *explore.Failure) {
		var ds []twDelivery
		var cerr string
		res := sched.Run(sched.Config{Chooser: ch, MaxSteps: 100000, Trace: traceFn()}, func() {
			if perr != nil {
				cerr = perr.Error()
				return
			}
			w, err := window.CreateWindow(wcfg)
			if err != nil {
				cerr = err.Error()
				return
			}
			w.SetCallback(func(rows []types.Row) {
				if len(rows) == 0 {
					return
				}
				d := twDelivery{Key: "a", WS: rows[0].Slot.Start.UnixMilli(), WE: rows[0].Slot.End.UnixMilli()}
				sum := 0.0
				for _, r := range rows {
					m := r.Data.(map[string]any)
					d.IDs = append(d.IDs, toInt(m["id"]))
					v, _ := num(m["v"])
					sum += v
					if m["k"] == "zz" {
						d.Key = "zz"
					}
				}
				sort.Ints(d.IDs)
				d.C, d.S = float64(len(rows)), sum
				d.WID = fmt.Sprintf("%d_%d", rows[0].Slot.Start.UnixNano(), rows[0].Slot.End.UnixNano())
				ds = append(ds, d)
			})
			w.Start()
			for _, ev := range evs {
				w.Add(map[string]any{"id": ev.ID, "k": ev.Key, "ts": ev.TS, "v": ev.V})
			}
			vtime.Sleep(450 * vtime.Millisecond)
			sched.Quiesce()
			w.Stop()
			sched.Quiesce()
		})
		out := js(ds)
		if cerr != "" {
			return res, out, &explore.Failure{Signature: prop + "|sched|setup-error", What: cerr}
		}
		if res.Status != sched.StatusOK {
			return res, out, &explore.Failure{Signature: prop + "|sched|" + res.Status.String(), What: "execution ended with " + res.Status.String() + " " + firstLine(res.PanicVal) + " live=" + liveDesc(res)}
		}
		if kind, what := twCompare(sc.Cfg, evs, ds); kind != "" {
			return res, out, &explore.Failure{Signature: twSignature(prop, sc.Cfg, "sched-"+kind, evs), What: what, Observed: ds}
		}
		return res, out, nil
	}
}

func twSchedCases(kind, tier string) []twSchedCase {
	seqs := [][]int64{
		{10000, 11000, 12000},
		{10000, 12000, 11000},
		{11999, 12000, 10000},
		{12000, 10000, 14000},
		{10000, 10000, 12001},
	}
	if tier == "thorough" {
		seqs = append(seqs, []int64{10000, 12000, 11000, 14000}, []int64{14000, 10000, 12000, 11000}, []int64{12000, 11999, 14000, 10000})
	}
	var out []twSchedCase
	for _, s := range seqs {
		for _, ooo := range []int64{0, 2000} {
			c := twCfg{Kind: kind, SizeMs: 2000, OOOMs: ooo, Keys: 1}
			if kind == "sliding" {
				c.SizeMs, c.Slide = 4000, 2000
			}
			out = append(out, twSchedCase{Cfg: c, TS: s})
		}
	}
	return out
}

func twScenarios(prop, kind, tier string) []schedScenario {
	var out []schedScenario
	for _, sc := range twSchedCases(kind, tier) {
		out = append(out, schedScenario{Name: fmt.Sprintf("%s-ooo%d-ts%v", kind, sc.Cfg.OOOMs, sc.TS), Params: sc, Run: twSchedRun(prop, sc)})
	}
	return out
}

func twPlan(prop, kind, tier string) []fw.Unit {
	cfgs := twConfigs(kind, tier)
	var us []fw.Unit
	for i, c := range cfgs {
		shards := 4
		if c.MaxL >= 5 {
			shards = 24
		}
		for s := 0; s < shards; s++ {
			us = append(us, fw.Unit{Check: prop, Kind: "enum", Tier: tier, Spec: fw.Spec(enumSpec{Cfg: i, Shard: s, Shards: shards})})
		}
	}
	us = append(us, fw.Unit{Check: prop, Kind: "burst", Tier: tier, Spec: fw.Spec(enumSpec{})})
	bound := 2 // (raised from 1: a lock-upgrade race in Trigger needs the clock to fire a due timer and one preemption)
	if tier == "thorough" {
		bound = 3
	}
	for i, sc := range twScenarios(prop, kind, tier) {
		us = append(us, fw.Unit{Check: prop, Kind: "sched", Tier: tier, Spec: fw.Spec(schedSpec{Scn: i, Name: sc.Name, Items: []explore.Item{{}}, Bound: bound, Budget: 20000})})
	}
	return us
}

// twBurst: 160 and 320 in-order events in one burst (more watermark advances than the watermark channel holds while
// the trigger goroutine has not run yet), then the sentinel and silence: every interval is still delivered, with
// exactly its rows. At most 40 intervals, below the window output buffer.
func twBurst(prop, kind string) fw.Result {
	a := newAcc(prop, "det-"+kind+"-burst")
	for _, n := range []int{160, 320} {
		for _, ooo := range []int64{0, 1000} {
			for _, eager := range []bool{false, true} {
				c := twCfg{Kind: kind, SizeMs: 2000, OOOMs: ooo, Keys: 1, MaxL: n, Eager: eager}
				if kind == "sliding" {
					c.Slide = 1000
				}
				step := int64(32000 / n)
				var evs []ref.Event
				for i := 0; i < n; i++ {
					evs = append(evs, ref.Event{ID: i + 1, Key: "a", TS: 10000 + int64(i)*step, V: 1})
				}
				evs = append(evs, ref.Event{ID: 99999, Key: "zz", TS: 500000, V: 0})
				sql := twSQL(c)
				r := detExec(sql, twOpts(c), twFeed(c, evs))
				a.r.Evaluations++
				a.r.States++
				a.r.Nontrivial++
				a.r.Transitions += int64(r.Steps)
				cs := map[string]any{"cfg": c, "sql": sql, "events": fmt.Sprintf("%d in-order events %d ms apart from 10000, then a sentinel", n, step)}
				if r.ExecErr != "" || r.Status != sched.StatusOK {
					a.fail(prop+"|"+kind+"|burst|exec", r.ExecErr+" "+r.Status.String()+" "+firstLine(r.Panic), cs, nil, nil)
					continue
				}
				ds, perr := twDeliveries(c, r.Batches)
				if perr != "" {
					a.fail(prop+"|"+kind+"|burst|result-shape", perr, cs, nil, nil)
					continue
				}
				a.outcome(fmt.Sprint(len(ds)))
				if k, what := twCompare(c, evs, ds); k != "" {
					a.fail(prop+"|"+kind+"|burst|"+k, what, cs, nil, len(ds))
				}
			}
		}
	}
	a.sample(map[string]any{"burst_lengths": []int{160, 320}, "span_ms": 32000})
	return a.result()
}

func twDescribe(kind string) fw.Description {
	return fw.Description{
		Level: "model_checking",
		Rule: "(a) bounded-exhaustive: all arrival sequences of length 1..L over a 10-value timestamp alphabet (window boundaries, +-1 ms, duplicates, an event earlier than the first one) x window sizes (incl. one that does not divide 24h) x TIMEUNIT ms|ss|ns x MAXOUTOFORDERNESS x eager|lazy feed (x key assignments over 2 keys for L-1), each followed by a far sentinel (further configurations: ALLOWEDLATENESS on sequences without a late row, streams that stop without a sentinel, bursts of 160/320 rows), executed through streamsql.New/Execute/Emit on the real engine under the deterministic schedule with the virtual clock and compared with ref." + kind + " (accepted rows must be reported in exactly their interval(s), late-on-arrival rows may be, bounds/alignment/window_id/count/sum recomputed, nothing twice, nothing before the watermark); " +
			"(b) the window object itself (window.CreateWindow from rsql.Parse) driven by an ingest thread under the schedule explorer: all interleavings with the trigger goroutine and the watermark goroutine with <= bound deviations for fixed sequences; non-trivial = >=2 deliveries (a) / reached via >=1 deviation (b)",
		Bounds:      map[string]any{"max_len": map[string]int{"quick": 4, "thorough": 5}, "timestamps_ms": twTimes, "sched_bound": map[string]int{"quick": 2, "thorough": 3}},
		Assumptions: []string{"ALLOWEDLATENESS = 0 (late updates are C02's subject)", "event timestamps far below virtual now + 24h", "window output buffer never full inside the bounds"},
	}
}

type c01 struct{}

func (c01) ID() string                 { return "C01" }
func (c01) Plan(tier string) []fw.Unit {
	us := twPlan("C01", "tumbling", tier)
	us = append(us, fw.Unit{Check: "C01", Kind: "proc-enum", Tier: tier, Spec: fw.Spec(enumSpec{})})
	bound := 2 // (raised from 1: a lock-upgrade race in Trigger needs the clock to fire a due timer and one preemption)
	if tier == "thorough" {
		bound = 3
	}
	for i, sc := range c01ProcScenarios() {
		us = append(us, fw.Unit{Check: "C01", Kind: "proc-sched", Tier: tier, Spec: fw.Spec(schedSpec{Scn: i, Name: sc.Name, Items: []explore.Item{{}}, Bound: bound, Budget: 20000})})
	}
	return us
}
func (c01) Run(u fw.Unit) fw.Result {
	if u.Kind == "proc-enum" {
		return c01ProcEnum(u.Tier)
	}
	if u.Kind == "proc-sched" {
		return runSched("C01", u, c01ProcScenarios())
	}
	if u.Kind == "sched" {
		return runSched("C01", u, twScenarios("C01", "tumbling", u.Tier))
	}
	if u.Kind == "burst" {
		return twBurst("C01", "tumbling")
	}
	return twRunEnum("C01", u, twConfigs("tumbling", u.Tier))
}
func (c01) Describe(tier string) fw.Description { return twDescribe("Tumbling") }
func (c01) Replay(v fw.Violation) (string, bool) {
	return twReplay("C01", "tumbling", v)
}

type c08 struct{}

func (c08) ID() string                 { return "C08" }
func (c08) Plan(tier string) []fw.Unit { return twPlan("C08", "sliding", tier) }
func (c08) Run(u fw.Unit) fw.Result {
	if u.Kind == "sched" {
		return runSched("C08", u, twScenarios("C08", "sliding", u.Tier))
	}
	if u.Kind == "burst" {
		return twBurst("C08", "sliding")
	}
	return twRunEnum("C08", u, twConfigs("sliding", u.Tier))
}
func (c08) Describe(tier string) fw.Description { return twDescribe("Sliding") }
func (c08) Replay(v fw.Violation) (string, bool) {
	return twReplay("C08", "sliding", v)
}

func twReplay(prop, kind string, v fw.Violation) (string, bool) {
	m := caseMap(v)
	if _, ok := m["scn"]; ok {
		return replaySched(twScenarios(prop, kind, "thorough"), m)
	}
	var c twCfg
	remarshal(m["cfg"], &c)
	var evs []ref.Event
	remarshal(m["events"], &evs)
	out := ""
	failed := false
	for i := 0; i < 2; i++ {
		r := detExec(twSQL(c), twOpts(c), twFeed(c, evs))
		ds, _ := twDeliveries(c, r.Batches)
		k, what := twCompare(c, evs, ds)
		out += fmt.Sprintf("run %d: status=%s deliveries=%s verdict=%s %s\n", i+1, r.Status, js(ds), k, what)
		if k != "" {
			failed = true
		}
	}
	return out, failed
}

func init() { fw.Register(c01{}); fw.Register(c08{}) }

// exactInt: nanosecond bounds of a present-day epoch exceed 2^53; integers are taken as they are.
func exactInt(v any) (int64, bool) {
	switch x := v.(type) {
	case int64:
		return x, true
	case int:
		return int64(x), true
	case uint64:
		return int64(x), true
	}
	f, ok := num(v)
	return int64(f), ok
}
