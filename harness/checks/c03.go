package checks

import (
	"math"
	"fmt"
	"os"
	"sort"
	"strconv"
	"strings"

	"verifharness/fw"
	"verifharness/ref"

	"github.com/rulego/streamsql/verifrt/sched"
	vtime "github.com/rulego/streamsql/verifrt/time"
)

// C03: aggregate functions equal their mathematical definition on the rows of the batch.

// value alphabet: index -> (row value, reference value)
type c03Val struct {
	Name string
	Set  func(r Row, col string)
	Ref  ref.Val
}

var c03Alphabet = []c03Val{
	{"-2", func(r Row, c string) { r[c] = -2 }, ref.Num(-2)},
	{"0", func(r Row, c string) { r[c] = 0 }, ref.Num(0)},
	{"1", func(r Row, c string) { r[c] = 1 }, ref.Num(1)},
	{"2.5", func(r Row, c string) { r[c] = 2.5 }, ref.Num(2.5)},
	{"NULL", func(r Row, c string) { r[c] = nil }, ref.Null()},
	{"missing", func(r Row, c string) {}, ref.Missing()},
}

// c03Typed: the same small numbers as every Go numeric type a caller may put into a row (float32 values are
// exactly representable); aggregates must not depend on the Go type of a number.
var c03Typed = []c03Val{
	{"int(3)", func(r Row, c string) { r[c] = int(3) }, ref.Num(3)},
	{"int8(3)", func(r Row, c string) { r[c] = int8(3) }, ref.Num(3)},
	{"int16(-2)", func(r Row, c string) { r[c] = int16(-2) }, ref.Num(-2)},
	{"int32(3)", func(r Row, c string) { r[c] = int32(3) }, ref.Num(3)},
	{"int64(-2)", func(r Row, c string) { r[c] = int64(-2) }, ref.Num(-2)},
	{"uint(3)", func(r Row, c string) { r[c] = uint(3) }, ref.Num(3)},
	{"uint8(1)", func(r Row, c string) { r[c] = uint8(1) }, ref.Num(1)},
	{"uint16(3)", func(r Row, c string) { r[c] = uint16(3) }, ref.Num(3)},
	{"uint32(1)", func(r Row, c string) { r[c] = uint32(1) }, ref.Num(1)},
	{"uint64(3)", func(r Row, c string) { r[c] = uint64(3) }, ref.Num(3)},
	{"float32(2.5)", func(r Row, c string) { r[c] = float32(2.5) }, ref.Num(2.5)},
	{"float64(2.5)", func(r Row, c string) { r[c] = 2.5 }, ref.Num(2.5)},
	{"NULL", func(r Row, c string) { r[c] = nil }, ref.Null()},
}

// c03Large: values that are large relative to their spread (counters, epoch seconds): a numerically naive
// one-pass variance (sum of squares minus square of sums) collapses to 0 or goes negative here.
var c03Large = []c03Val{
	{"1e9+1", func(r Row, c string) { r[c] = 1e9 + 1 }, ref.Num(1e9 + 1)},
	{"1e9+2", func(r Row, c string) { r[c] = 1e9 + 2 }, ref.Num(1e9 + 2)},
	{"1e9+4", func(r Row, c string) { r[c] = 1e9 + 4 }, ref.Num(1e9 + 4)},
	{"1e9+8", func(r Row, c string) { r[c] = 1e9 + 8 }, ref.Num(1e9 + 8)},
	{"-1e9", func(r Row, c string) { r[c] = -1e9 }, ref.Num(-1e9)},
	{"NULL", func(r Row, c string) { r[c] = nil }, ref.Null()},
}

// c03Cur is the alphabet of the running unit (a worker process runs one unit).
var c03Cur = c03Alphabet

type c03Cfg struct {
	Query string `json:"query"` // main | pct | expr | groups
	N     int    `json:"n"`
	Mode  string `json:"mode"` // single: every batch once on a shared instance (forward and reverse order); pairs: every ordered pair of batches on a fresh instance
}

func c03Configs(tier string) []c03Cfg {
	maxN := 4
	if tier == "thorough" {
		maxN = 6
	}
	var out []c03Cfg
	for n := 1; n <= maxN; n++ {
		out = append(out, c03Cfg{"main", n, "single"}, c03Cfg{"pct", n, "single"})
	}
	for n := 1; n <= 2; n++ {
		out = append(out, c03Cfg{"main", n, "pairs"})
	}
	exprN := 2
	if tier == "thorough" {
		exprN = 3
	}
	for n := 1; n <= exprN; n++ {
		out = append(out, c03Cfg{"expr", n, "single"})
	}
	out = append(out, c03Cfg{"typed", 2, "single"}, c03Cfg{"typed-pct", 2, "single"})
	out = append(out, c03Cfg{"large", 3, "single"}, c03Cfg{"large", 4, "single"})
	out = append(out, c03Cfg{"groups", 2, "single"})
	if tier == "thorough" {
		out = append(out, c03Cfg{"groups", 3, "single"})
	}
	return out
}

var c03Pcts = []float64{0, 0.25, 0.5, 0.95, 1}

func c03SQL(cfg c03Cfg) string {
	switch cfg.Query {
	case "typed", "large":
		return c03SQL(c03Cfg{"main", cfg.N, cfg.Mode})
	case "typed-pct":
		return c03SQL(c03Cfg{"pct", cfg.N, cfg.Mode})
	case "main":
		return fmt.Sprintf("SELECT count(*) AS n, count(v) AS c, sum(v) AS s, avg(v) AS a, min(v) AS mi, max(v) AS ma, stddev(v) AS sd, stddevs(v) AS sds, var(v) AS va, vars(v) AS vs, median(v) AS med, first_value(v) AS fv, last_value(v) AS lv, collect(v) AS col, deduplicate(v) AS dd, merge_agg(v) AS mg FROM stream GROUP BY CountingWindow(%d)", cfg.N)
	case "pct":
		return fmt.Sprintf("SELECT count(*) AS n, percentile(v, 0) AS p0, percentile(v, 0.25) AS p25, percentile(v, 0.5) AS p50, percentile(v, 0.95) AS p95, percentile(v, 1) AS p100, nth_value(v, 1) AS nv1, nth_value(v, 2) AS nv2 FROM stream GROUP BY CountingWindow(%d)", cfg.N)
	case "expr":
		return fmt.Sprintf("SELECT count(*) AS n, sum(v + w) AS s1, sum(v * 2) AS s2, percentile(v, 0.5) AS pmid, sum((v - 1) * 2) AS s3, sum(d.x) AS s4, avg(d.x) AS a4, max(v + w) AS m1, count(v * 2) AS c2, sum(wLoad) AS s5, max(wLoad * 2) AS m5, sum(v * 1.5) AS f1, sum(v * 2.5) AS f2, sum(d.x * 2) AS f3, min(d.x + 0.5) AS f4, nth_value(v, 1) AS nlast, count(v + w) AS c6 FROM stream GROUP BY CountingWindow(%d)", cfg.N) // a parameterised aggregate in the middle and at the end of the list: the items after it keep their own arguments
	case "groups":
		// every aggregate of the property at once, two groups in one batch (per-group state must not be shared);
		// stddev is left out here (known finding on "main"), its reference value is injected before the comparison
		return "SELECT k, count(*) AS n, count(v) AS c, sum(v) AS s, avg(v) AS a, min(v) AS mi, max(v) AS ma, stddevs(v) AS sds, var(v) AS va, vars(v) AS vs, median(v) AS med, first_value(v) AS fv, last_value(v) AS lv, collect(v) AS col, deduplicate(v) AS dd, merge_agg(v) AS mg, " +
			"percentile(v, 0) AS p0, percentile(v, 0.25) AS p25, percentile(v, 0.5) AS p50, percentile(v, 0.95) AS p95, percentile(v, 1) AS p100, nth_value(v, 1) AS nv1, nth_value(v, 2) AS nv2 " +
			"FROM stream GROUP BY k, TumblingWindow('2s') WITH (TIMESTAMP='ts', TIMEUNIT='ms')"
	}
	return ""
}

// sequences enumerates all index sequences of length n over an alphabet of size k.
func sequences(n, k int, f func([]int)) {
	seq := make([]int, n)
	var rec func(i int)
	rec = func(i int) {
		if i == n {
			f(seq)
			return
		}
		for x := 0; x < k; x++ {
			seq[i] = x
			rec(i + 1)
		}
	}
	rec(0)
}

func c03Names(seq []int) []string {
	out := make([]string, len(seq))
	for i, x := range seq {
		out[i] = c03Cur[x].Name
	}
	return out
}

func c03RefVals(seq []int) []ref.Val {
	out := make([]ref.Val, len(seq))
	for i, x := range seq {
		out[i] = c03Cur[x].Ref
	}
	return out
}

// cmpNum: got must be a number close to want.
// c03Tol: relative tolerance of numeric comparisons (1e-9; 1e-6 for the large-offset alphabet, where the
// correctly rounded mean already carries an absolute error of about 1e-7).
var c03Tol = 1e-9

func cmpNum(got any, want float64) bool {
	g, ok := num(got)
	if !ok {
		return false
	}
	if g == want {
		return true
	}
	return math.Abs(g-want) <= c03Tol*math.Max(math.Max(math.Abs(g), math.Abs(want)), 1)
}

func numList(v any) ([]float64, bool) {
	var out []float64
	switch x := v.(type) {
	case nil:
		return nil, true
	case []any:
		for _, e := range x {
			f, ok := num(e)
			if !ok {
				return nil, false
			}
			out = append(out, f)
		}
		return out, true
	case []float64:
		return x, true
	}
	return nil, false
}

func floatsEq(a, b []float64) bool {
	if len(a) != len(b) {
		return false
	}
	for i := range a {
		if !ref.Close(a[i], b[i]) {
			return false
		}
	}
	return true
}

// c03CheckMain compares one result row of the main query with the reference. It returns the
// name of the first disagreeing column.
// c03CheckMainAll checks every column; the known stddev finding must not hide the columns
// checked after it, so the stddev column is verified separately and the rest independently.
func c03CheckMainAll(r Row, vals []ref.Val, withDisp bool) (fails [][2]string) {
	if col, what := c03CheckMain(r, vals, withDisp); col != "" {
		fails = append(fails, [2]string{col, what})
		if strings.HasPrefix(col, "sd") {
			// re-check with the stddev column neutralised
			r2 := Row{}
			for k, v := range r {
				r2[k] = v
			}
			if xs := ref.Usable(vals); len(xs) > 0 {
				r2["sd"] = ref.StdPop(xs)
			}
			if col2, what2 := c03CheckMain(r2, vals, withDisp); col2 != "" {
				fails = append(fails, [2]string{col2, what2})
			}
		}
	}
	return fails
}

func c03CheckMain(r Row, vals []ref.Val, withDisp bool) (col, what string) {
	xs := ref.Usable(vals)
	bad := func(c string, want any) (string, string) {
		return c, fmt.Sprintf("%s=%v (%T), reference %v", c, r[c], r[c], want)
	}
	if !cmpNum(r["n"], float64(len(vals))) {
		return bad("count(*)", len(vals))
	}
	if !cmpNum(r["c"], float64(len(xs))) {
		return bad("c", len(xs))
	}
	if len(xs) == 0 {
		for _, c := range []string{"s", "a", "mi", "ma"} {
			if r[c] != nil {
				return c + "-empty", fmt.Sprintf("%s over no usable input = %v (%T), reference NULL", c, r[c], r[c])
			}
		}
	} else {
		if !cmpNum(r["s"], ref.Sum(xs)) {
			return bad("s", ref.Sum(xs))
		}
		if !cmpNum(r["a"], ref.Mean(xs)) {
			return bad("a", ref.Mean(xs))
		}
		if !cmpNum(r["mi"], ref.Min(xs)) {
			return bad("mi", ref.Min(xs))
		}
		if !cmpNum(r["ma"], ref.Max(xs)) {
			return bad("ma", ref.Max(xs))
		}
		if _, ok := r["med"]; ok && !cmpNum(r["med"], ref.Median(xs)) {
			return bad("med", ref.Median(xs))
		}
		if withDisp {
			if !cmpNum(r["sd"], ref.StdPop(xs)) {
				if len(xs) >= 2 && cmpNum(r["sd"], ref.StdSample(xs)) {
					return "sd=sample-formula(n-1)", fmt.Sprintf("stddev=%v is the sample deviation; the documented population deviation is %v", r["sd"], ref.StdPop(xs))
				}
				return bad("sd", ref.StdPop(xs))
			}
			if !cmpNum(r["va"], ref.VarPop(xs)) {
				return bad("va", ref.VarPop(xs))
			}
			if len(xs) >= 2 {
				if !cmpNum(r["sds"], ref.StdSample(xs)) {
					return bad("sds", ref.StdSample(xs))
				}
				if !cmpNum(r["vs"], ref.VarSample(xs)) {
					return bad("vs", ref.VarSample(xs))
				}
			}
		}
	}
	// first_value / last_value: value of the first / last row in which the field is present
	// (an explicit NULL is reported, a missing field is skipped)
	var first, last *ref.Val
	for i := range vals {
		if vals[i].Present {
			if first == nil {
				first = &vals[i]
			}
			last = &vals[i]
		}
	}
	chkFL := func(c string, want *ref.Val) (string, string) {
		switch {
		case want == nil || want.Null:
			if r[c] != nil {
				return c, fmt.Sprintf("%s=%v, reference NULL", c, r[c])
			}
		default:
			if !cmpNum(r[c], want.F) {
				return c, fmt.Sprintf("%s=%v, reference %v", c, r[c], want.F)
			}
		}
		return "", ""
	}
	if c, w := chkFL("fv", first); c != "" {
		return c, w
	}
	if c, w := chkFL("lv", last); c != "" {
		return c, w
	}
	if got, ok := numList(r["col"]); !ok || !floatsEq(got, xs) {
		return bad("col", xs)
	}
	if withDisp {
		if got, ok := numList(r["dd"]); !ok || !floatsEq(got, ref.Dedup(xs)) {
			return bad("dd", ref.Dedup(xs))
		}
		// merge_agg of scalars: the values joined with commas
		if len(xs) > 0 {
			var parts []float64
			okm := true
			switch m := r["mg"].(type) {
			case string:
				for _, p := range strings.Split(m, ",") {
					f, err := strconv.ParseFloat(strings.TrimSpace(p), 64)
					if err != nil {
						okm = false
					}
					parts = append(parts, f)
				}
			default:
				if f, ok := num(m); ok {
					parts = []float64{f}
				} else {
					okm = false
				}
			}
			if !okm || !floatsEq(parts, xs) {
				return bad("mg", xs)
			}
		}
	}
	return "", ""
}

func c03CheckPct(r Row, vals []ref.Val) (col, what string) {
	xs := ref.Usable(vals)
	if !cmpNum(r["n"], float64(len(vals))) {
		return "count(*)", fmt.Sprintf("count(*)=%v, reference %d", r["n"], len(vals))
	}
	if len(xs) > 0 {
		for i, c := range []string{"p0", "p25", "p50", "p95", "p100"} {
			lo, hi := ref.PercentileBracket(xs, c03Pcts[i])
			g, ok := num(r[c])
			if !ok || g < lo-1e-9 || g > hi+1e-9 {
				return c, fmt.Sprintf("percentile(v,%v)=%v outside the order-statistic bracket [%v,%v] of %v", c03Pcts[i], r[c], lo, hi, xs)
			}
		}
	}
	// nth_value(v,n): the n-th row's value; where NULL/missing rows precede it the documentation
	// is silent on whether they count, so both readings are accepted.
	for n, c := range map[int]string{1: "nv1", 2: "nv2"} {
		var accept []any
		if n <= len(vals) {
			v := vals[n-1]
			if v.Usable() {
				accept = append(accept, v.F)
			} else {
				accept = append(accept, nil)
			}
		} else {
			accept = append(accept, nil)
		}
		if n <= len(xs) {
			accept = append(accept, xs[n-1])
		} else {
			accept = append(accept, nil)
		}
		ok := false
		for _, a := range accept {
			if a == nil {
				if r[c] == nil {
					ok = true
				}
			} else if cmpNum(r[c], a.(float64)) {
				ok = true
			}
		}
		if !ok {
			return c, fmt.Sprintf("nth_value(v,%d)=%v, accepted %v", n, r[c], accept)
		}
	}
	return "", ""
}

// expression arguments: per row v, w, d.x derived from two alphabet indices
func c03ExprRow(i, j int) (Row, [5]ref.Val) {
	r := Row{}
	c03Alphabet[i].Set(r, "v")
	c03Alphabet[j].Set(r, "w")
	c03Alphabet[j].Set(r, "wLoad") // the same value under a name with an upper-case letter
	v, w := c03Alphabet[i].Ref, c03Alphabet[j].Ref
	d := Row{}
	c03Alphabet[j].Set(d, "x")
	r["d"] = d
	arith := func(ok bool, f float64) ref.Val {
		if !ok {
			return ref.Null()
		}
		return ref.Num(f)
	}
	both := v.Usable() && w.Usable()
	return r, [5]ref.Val{
		arith(both, v.F+w.F),
		arith(v.Usable(), v.F*2),
		arith(v.Usable(), (v.F-1)*2),
		w, // d.x
		arith(v.Usable(), v.F*2),
	}
}

func c03CheckExpr(r Row, per [][5]ref.Val) (col, what string) {
	colOf := func(k int) []float64 {
		var vs []ref.Val
		for _, p := range per {
			vs = append(vs, p[k])
		}
		return ref.Usable(vs)
	}
	chkSum := func(c string, xs []float64) (string, string) {
		if len(xs) == 0 {
			if r[c] != nil {
				return c + "-empty", fmt.Sprintf("%s over no usable input = %v, reference NULL", c, r[c])
			}
			return "", ""
		}
		if !cmpNum(r[c], ref.Sum(xs)) {
			return c, fmt.Sprintf("%s=%v, reference %v", c, r[c], ref.Sum(xs))
		}
		return "", ""
	}
	for k, c := range []string{"s1", "s2", "s3", "s4"} {
		if cc, w := chkSum(c, colOf(k)); cc != "" {
			return cc, w
		}
	}
	if xs := colOf(3); len(xs) > 0 && !cmpNum(r["a4"], ref.Mean(xs)) {
		return "a4", fmt.Sprintf("avg(d.x)=%v, reference %v", r["a4"], ref.Mean(xs))
	}
	if xs := colOf(0); len(xs) > 0 && !cmpNum(r["m1"], ref.Max(xs)) {
		return "m1", fmt.Sprintf("max(v+w)=%v, reference %v", r["m1"], ref.Max(xs))
	}
	if !cmpNum(r["c2"], float64(len(colOf(4)))) {
		return "c2", fmt.Sprintf("count(v*2)=%v, reference %d", r["c2"], len(colOf(4)))
	}
	if cc, w := chkSum("s5", colOf(3)); cc != "" {
		return cc, w
	}
	if xs := colOf(3); len(xs) > 0 && !cmpNum(r["m5"], 2*ref.Max(xs)) {
		return "m5", fmt.Sprintf("max(wLoad*2)=%v, reference %v", r["m5"], 2*ref.Max(xs))
	}
	// several aggregates whose arguments differ only in a literal or an operator and share their first column
	scaled := func(xs []float64, f float64) []float64 {
		out := make([]float64, len(xs))
		for i, x := range xs {
			out[i] = x * f
		}
		return out
	}
	if cc, w := chkSum("f1", scaled(colOf(1), 0.75)); cc != "" {
		return cc, w
	}
	if cc, w := chkSum("f2", scaled(colOf(1), 1.25)); cc != "" {
		return cc, w
	}
	if cc, w := chkSum("f3", scaled(colOf(3), 2)); cc != "" {
		return cc, w
	}
	if xs := colOf(3); len(xs) > 0 && !cmpNum(r["f4"], ref.Min(xs)+0.5) {
		return "f4", fmt.Sprintf("min(d.x+0.5)=%v, reference %v", r["f4"], ref.Min(xs)+0.5)
	}
	// an expression argument after the parameterised aggregates of the list
	if !cmpNum(r["c6"], float64(len(colOf(0)))) {
		return "c6", fmt.Sprintf("count(v+w)=%v, reference %d", r["c6"], len(colOf(0)))
	}
	return "", ""
}

type c03 struct{}

func (c03) ID() string { return "C03" }

func (c03) Plan(tier string) []fw.Unit {
	cfgs := c03Configs(tier)
	var us []fw.Unit
	for i, c := range cfgs {
		shards := 1
		if c.N >= 4 || c.Mode == "pairs" && c.N == 2 || c.Query == "groups" || c.Query == "expr" && c.N >= 2 {
			shards = 8
		}
		if c.N >= 5 {
			shards = 32
		}
		for s := 0; s < shards; s++ {
			us = append(us, fw.Unit{Check: "C03", Kind: "enum", Tier: tier, Spec: fw.Spec(enumSpec{Cfg: i, Shard: s, Shards: shards})})
		}
	}
	us = append(us, fw.Unit{Check: "C03", Kind: "text", Tier: tier, Spec: fw.Spec(enumSpec{})})
	return us
}

func c03Sig(cfg c03Cfg, col string, vals []ref.Val) string {
	if strings.HasPrefix(col, "sd=sample-formula") {
		return "C03|main|" + col // one root cause (stddev registered as the sample deviation) whatever the sweep
	}
	return fmt.Sprintf("C03|%s|%s", cfg.Query, col)
}

func (c03) Run(u fw.Unit) fw.Result {
	if u.Kind == "text" {
		maxL := 4
		if u.Tier == "thorough" {
			maxL = 5
		}
		return textAggUnit("C03", "det-agg-text", "SELECT k, %s FROM stream GROUP BY k, CountingWindow(%d)", maxL)
	}
	sp := parseEnum(u)
	cfg := c03Configs(u.Tier)[sp.Cfg]
	a := newAcc("C03", "det-agg-"+cfg.Query)
	sql := c03SQL(cfg)
	_ = cfg
	if cfg.Query == "typed" || cfg.Query == "typed-pct" {
		c03Cur = c03Typed
	}
	if cfg.Query == "large" {
		c03Cur = c03Large
		c03Tol = 1e-6
	}
	K := len(c03Cur)
	dump := os.Getenv("VERIF_PROBE") != ""
	switch {
	case cfg.Query == "groups":
		// two groups interleaved in one tumbling window; all pairs of per-group sequences
		idx := 0
		sequences(cfg.N, K, func(sa []int) {
			sa = append([]int(nil), sa...)
			sequences(cfg.N, K, func(sb []int) {
				idx++
				if idx%sp.Shards != sp.Shard {
					return
				}
				sb = append([]int(nil), sb...)
				r := detExec(sql, detOpts{}, func(e *Env) {
					for i := 0; i < cfg.N; i++ {
						ra := Row{"k": "a", "ts": 100 + i*10}
						c03Alphabet[sa[i]].Set(ra, "v")
						e.Emit(ra)
						rb := Row{"k": "b", "ts": 105 + i*10}
						c03Alphabet[sb[i]].Set(rb, "v")
						e.Emit(rb)
					}
					e.Emit(Row{"k": "z", "ts": 100000, "v": 0})
				})
				a.r.Evaluations++
				a.r.States++
				a.r.Transitions += int64(r.Steps)
				cs := map[string]any{"cfg": cfg, "a": c03Names(sa), "b": c03Names(sb), "sql": sql}
				if r.ExecErr != "" || r.Status != sched.StatusOK {
					a.fail("C03|groups|exec", r.ExecErr+" "+r.Status.String()+" "+firstLine(r.Panic), cs, nil, nil)
					return
				}
				if len(r.Batches) != 1 || len(r.Batches[0]) != 2 {
					a.fail("C03|groups|shape", fmt.Sprintf("expected one batch with two group rows, got %s", js(r.Batches)), cs, nil, r.Batches)
					return
				}
				a.r.Nontrivial++
				a.outcome(js(r.Batches))
				for _, row := range r.Batches[0] {
					vals := c03RefVals(sa)
					if row["k"] == "b" {
						vals = c03RefVals(sb)
					}
					if xs := ref.Usable(vals); len(xs) > 0 {
						row["sd"] = ref.StdPop(xs)
					} else {
						row["sd"] = nil
					}
					if col, what := c03CheckMain(row, vals, true); col != "" {
						a.fail(c03Sig(cfg, col, vals), fmt.Sprintf("group %v: %s", row["k"], what), cs, nil, row)
					}
					if col, what := c03CheckPct(row, vals); col != "" {
						a.fail(c03Sig(cfg, col, vals), fmt.Sprintf("group %v: %s", row["k"], what), cs, nil, row)
					}
				}
				if idx == 7 {
					a.sample(map[string]any{"sql": sql, "group_a": c03Names(sa), "group_b": c03Names(sb), "delivered": r.Batches})
				}
			})
		})
	case cfg.Mode == "pairs":
		idx := 0
		sequences(cfg.N, K, func(s1 []int) {
			s1 = append([]int(nil), s1...)
			sequences(cfg.N, K, func(s2 []int) {
				idx++
				if idx%sp.Shards != sp.Shard {
					return
				}
				s2 = append([]int(nil), s2...)
				r := detExec(sql, detOpts{Horizon: 200 * vtime.Millisecond}, func(e *Env) {
					for _, s := range [][]int{s1, s2} {
						for _, x := range s {
							row := Row{}
							c03Alphabet[x].Set(row, "v")
							e.Emit(row)
						}
					}
				})
				a.r.Evaluations++
				a.r.States++
				a.r.Transitions += int64(r.Steps)
				cs := map[string]any{"cfg": cfg, "batch1": c03Names(s1), "batch2": c03Names(s2), "sql": sql}
				if r.ExecErr != "" || r.Status != sched.StatusOK || len(r.Batches) != 2 {
					a.fail("C03|pairs|exec", fmt.Sprintf("%s %s batches=%d %s", r.ExecErr, r.Status, len(r.Batches), firstLine(r.Panic)), cs, nil, r.Batches)
					return
				}
				a.r.Nontrivial++
				a.outcome(js(r.Batches[1]))
				for bi, s := range [][]int{s1, s2} {
					if len(r.Batches[bi]) != 1 {
						a.fail("C03|pairs|shape", "batch without exactly one row", cs, nil, r.Batches)
						continue
					}
					for _, f := range c03CheckMainAll(r.Batches[bi][0], c03RefVals(s), true) {
						a.fail(c03Sig(cfg, f[0], c03RefVals(s)), fmt.Sprintf("batch %d: %s", bi+1, f[1]), cs, nil, r.Batches[bi][0])
					}
				}
			})
		})
	default:
		// every sequence once, all on one shared instance per direction (forward, reverse):
		// a state leak between consecutive batches shows up as a wrong later batch
		var all [][]int
		if cfg.Query == "expr" {
			// pairs (i,j) per row: alphabet K*K
			sequences(cfg.N, K*K, func(s []int) { all = append(all, append([]int(nil), s...)) })
		} else {
			sequences(cfg.N, K, func(s []int) { all = append(all, append([]int(nil), s...)) })
		}
		var mine [][]int
		for i, s := range all {
			if i%sp.Shards == sp.Shard {
				mine = append(mine, s)
			}
		}
		for dir := 0; dir < 2; dir++ {
			order := append([][]int(nil), mine...)
			if dir == 1 {
				sort.SliceStable(order, func(i, j int) bool { return false })
				for i, j := 0, len(order)-1; i < j; i, j = i+1, j-1 {
					order[i], order[j] = order[j], order[i]
				}
			}
			var perExpr [][][5]ref.Val
			r := detExec(sql, detOpts{Eager: true, Horizon: 200 * vtime.Millisecond}, func(e *Env) {
				for _, s := range order {
					var per [][5]ref.Val
					for _, x := range s {
						if cfg.Query == "expr" {
							row, refs := c03ExprRow(x/K, x%K)
							per = append(per, refs)
							e.Emit(row)
						} else {
							row := Row{}
							c03Cur[x].Set(row, "v")
							e.Emit(row)
						}
					}
					perExpr = append(perExpr, per)
				}
			})
			a.r.Transitions += int64(r.Steps)
			cs0 := map[string]any{"cfg": cfg, "sql": sql, "direction": dir}
			if r.ExecErr != "" || r.Status != sched.StatusOK || len(r.Batches) != len(order) {
				a.fail("C03|"+cfg.Query+"|exec", fmt.Sprintf("%s %s batches=%d want %d %s", r.ExecErr, r.Status, len(r.Batches), len(order), firstLine(r.Panic)), cs0, nil, nil)
				continue
			}
			for bi, s := range order {
				a.r.Evaluations++
				if dir == 0 {
					a.r.States++
					a.r.Nontrivial++
				}
				if len(r.Batches[bi]) != 1 {
					a.fail("C03|"+cfg.Query+"|shape", "batch without exactly one row", cs0, nil, r.Batches[bi])
					continue
				}
				row := r.Batches[bi][0]
				a.outcome(js(row))
				var col, what string
				var names any
				var vals []ref.Val
				switch cfg.Query {
				case "main", "typed", "large":
					vals = c03RefVals(s)
					names = c03Names(s)
					fs := c03CheckMainAll(row, vals, true)
					if len(fs) > 0 {
						col, what = fs[0][0], fs[0][1]
					}
					if len(fs) > 1 {
						a.fail(c03Sig(cfg, fs[1][0], vals), fs[1][1], map[string]any{"cfg": cfg, "sql": sql, "batch": names, "direction": dir}, nil, row)
					}
				case "pct", "typed-pct":
					vals = c03RefVals(s)
					names = c03Names(s)
					col, what = c03CheckPct(row, vals)
				case "expr":
					var nn []string
					for _, x := range s {
						nn = append(nn, "v="+c03Alphabet[x/K].Name+",w=d.x="+c03Alphabet[x%K].Name)
						vals = append(vals, c03Alphabet[x/K].Ref, c03Alphabet[x%K].Ref)
					}
					names = nn
					col, what = c03CheckExpr(row, perExpr[bi])
				}
				if dump && bi < 3 {
					fmt.Fprintf(os.Stderr, "PROBE %v -> %s\n", names, js(row))
				}
				if col != "" {
					var prev any
					if bi > 0 {
						prev = order[bi-1]
					}
					a.fail(c03Sig(cfg, col, vals), what, map[string]any{"cfg": cfg, "sql": sql, "batch": names, "previous_batch_indices": prev, "direction": dir}, nil, row)
				}
				if bi == len(order)/2 && dir == 0 {
					a.sample(map[string]any{"sql": sql, "batch": names, "delivered": row})
				}
			}
		}
	}
	return a.result()
}

func (c03) Describe(tier string) fw.Description {
	return fw.Description{
		Level: "model_checking",
		Rule: "(text: count / collect / first_value / last_value / deduplicate / merge_agg over all sequences of length <= 4/5 of a text column with values, an explicit NULL and rows without the column) bounded-exhaustive enumeration on the real engine (CountingWindow(N) batches, deterministic schedule): all value sequences of length N over {-2,0,1,2.5,NULL,missing} for 16 aggregate columns, percentile(p in 0,.25,.5,.95,1)/nth_value, expression arguments (v+w, v*2, (v-1)*2, d.x) over all pairs of values per row; every batch runs on an instance shared with all other batches in forward and reverse enumeration order (state leak between consecutive batches), all ordered pairs of batches for N<=2 on fresh instances, and two interleaved groups in one tumbling window for all pairs of per-group sequences; all pairs of values over the 12 Go numeric types (int8..uint64, float32, float64) for every aggregate; all sequences of length 3..4 over values that are large relative to their spread (1e9+1, 1e9+2, 1e9+4, 1e9+8, -1e9; tolerance 1e-6); compared with ref.Agg; a case = one batch; non-trivial = a result row was delivered and compared",
		Bounds:      map[string]any{"N": map[string]int{"quick": 4, "thorough": 6}, "alphabet": []string{"-2", "0", "1", "2.5", "NULL", "missing"}},
		Assumptions: []string{"percentile: only the order-statistic bracket and p=0/1 are asserted (the docs fix no interpolation rule)", "stddevs/vars are compared only for >=2 usable values; median/percentile/stddev/var over no usable input are not asserted (property fixes NULL only for sum/avg/min/max)", "nth_value with NULL/missing rows: both readings (n-th row / n-th usable value) accepted", "floats compared with relative tolerance 1e-9"},
	}
}

func init() { fw.Register(c03{}) }
