package checks

import (
	"sort"
	"fmt"
	"strings"
	"time"

	"verifharness/explore"
	"verifharness/fw"

	"github.com/rulego/streamsql/verifrt/sched"
	vtime "github.com/rulego/streamsql/verifrt/time"
)

// C02: watermark discipline: no early firing, no on-time loss, bounded late updates.

type c02Cfg struct {
	Kind     string `json:"kind"` // tumbling | sliding | session
	OOOMs    int64  `json:"ooo_ms"`
	LateMs   int64  `json:"allowed_lateness_ms"`
	MaxL     int    `json:"max_len"`
	Specials bool   `json:"with_garbage_rows"`
	Pusher   bool   `json:"second_key_pushes_watermark,omitempty"`
	// Scale > 1 divides every duration (window size, slide, timeout) and every distance of a timestamp from
	// 10000 ms by Scale: Scale 4 gives 500 ms windows, whose bounds share wall-clock seconds
	Scale int64 `json:"scale,omitempty"`
	// Lazy: the whole script is emitted before any engine goroutine runs (a burst faster than the trigger
	// goroutine); used by the burst unit, whose scripts are longer than the watermark channel (100)
	Lazy bool `json:"lazy_feed,omitempty"`
	// Edge: timestamps one millisecond before, at and after the interval bounds (and the bounds plus MAXOUTOFORDERNESS)
	Edge bool `json:"boundary_timestamps,omitempty"`
	// GapMs: half of the timestamp alphabet (and the sentinel) lies this much later in event time - a source silent
	// for more than a day, all of it far behind the clock
	GapMs int64 `json:"gap_ms,omitempty"`
	// Alpha: a reduced timestamp alphabet (longer scripts: several late rows into one fired window with another
	// window firing in between)
	Alpha []int64 `json:"alphabet_ms,omitempty"`
}

func (c c02Cfg) sentinel() int64 { return 500000 + c.GapMs }

func (c c02Cfg) scale() int64 {
	if c.Scale > 1 {
		return c.Scale
	}
	return 1
}

// ts maps an alphabet timestamp (ms) to the configuration's time scale.
func (c c02Cfg) ts(t int64) int64 {
	if t < 0 {
		return t
	}
	return 10000 + (t-10000)/c.scale()
}

// event alphabet: normal timestamps (ms) and three kinds of garbage rows
const (
	c02Fut   = -1 // timestamp = virtual now + 25h
	c02NoTS  = -2 // no ts field
	c02BadTS = -3 // ts is a non-numeric string
)

var c02Times = []int64{10000, 11000, 12000, 13000, 14500, 16000, 9000, 20000}
var c02Alphabet = append(append([]int64{}, c02Times...), c02Fut, c02NoTS, c02BadTS)

func c02Configs(tier string) []c02Cfg {
	maxL := 4
	if tier == "thorough" {
		maxL = 5
	}
	var out []c02Cfg
	for _, kind := range []string{"tumbling", "sliding", "session"} {
		for _, ooo := range []int64{0, 2000} {
			for _, late := range []int64{0, 1000, 3000} {
				out = append(out, c02Cfg{Kind: kind, OOOMs: ooo, LateMs: late, MaxL: maxL, Specials: true})
				if kind == "session" {
					out = append(out, c02Cfg{Kind: kind, OOOMs: ooo, LateMs: late, MaxL: maxL, Pusher: true})
				}
				if kind != "session" && late == 3000 && ooo == 0 {
					out = append(out, c02Cfg{Kind: kind, OOOMs: ooo, LateMs: late, MaxL: maxL + 1, Alpha: []int64{10000, 11000, 13000, 14500, 16000}})
				}
				if late <= 1000 && ooo == 2000 {
					out = append(out, c02Cfg{Kind: kind, OOOMs: ooo, LateMs: late, MaxL: maxL, GapMs: 36 * 3600 * 1000})
				}
				if kind != "session" && late <= 1000 {
					out = append(out, c02Cfg{Kind: kind, OOOMs: ooo, LateMs: late, MaxL: maxL, Edge: true})
				}
				if kind != "session" && late > 0 {
					// quarter scale: 500 ms windows / 1000-500 ms sliding, lateness 250 / 750 ms
					out = append(out, c02Cfg{Kind: kind, OOOMs: ooo / 4, LateMs: late / 4, MaxL: maxL, Specials: true, Scale: 4})
				}
			}
		}
	}
	return out
}

func c02SQL(c c02Cfg) string {
	k := c.scale()
	win := fmt.Sprintf("TumblingWindow('%dms')", 2000/k)
	switch c.Kind {
	case "sliding":
		win = fmt.Sprintf("SlidingWindow('%dms','%dms')", 4000/k, 2000/k)
	case "session":
		win = fmt.Sprintf("k, SessionWindow('%dms')", 2000/k)
	}
	sel := "count(*) AS c"
	if c.Kind == "session" {
		sel = "k, count(*) AS c"
	}
	with := "TIMESTAMP='ts', TIMEUNIT='ms'"
	if c.OOOMs > 0 {
		with += fmt.Sprintf(", MAXOUTOFORDERNESS='%dms'", c.OOOMs)
	}
	if c.LateMs > 0 {
		with += fmt.Sprintf(", ALLOWEDLATENESS='%dms'", c.LateMs)
	}
	return fmt.Sprintf("SELECT %s, collect(id) AS ids, window_start() AS ws, window_end() AS we FROM stream GROUP BY %s WITH (%s)", sel, win, with)
}

type c02Ev struct {
	ID  int    `json:"id"`
	TS  int64  `json:"ts"` // >= 0 normal, < 0 garbage kind
	Key string `json:"k,omitempty"` // "" = "a"
}

func (e c02Ev) key() string {
	if e.Key == "" {
		return "a"
	}
	return e.Key
}

// c02Sym is one symbol of a script alphabet.
type c02Sym struct {
	TS  int64
	Key string
}

// c02Symbols: the script alphabet of a configuration. Session windows with a single key never close before the
// sentinel (every row extends the open session), so their late-update path needs a second key whose rows only
// push the watermark: key a rows at/inside the first session, key b rows at and beyond its end.
func c02Symbols(c c02Cfg) []c02Sym {
	var out []c02Sym
	if c.Pusher {
		for _, t := range []int64{10000, 11000, 11999, 9000} {
			out = append(out, c02Sym{t, "a"})
		}
		for _, t := range []int64{12000, 13000, 14500, 16000, 20000} {
			out = append(out, c02Sym{t, "b"})
		}
		return out
	}
	if len(c.Alpha) > 0 {
		for _, t := range c.Alpha {
			out = append(out, c02Sym{t, ""})
		}
		return out
	}
	if c.GapMs > 0 {
		for _, t := range []int64{10000, 11000, 12000, 9000, c.GapMs + 10000, c.GapMs + 12000, c.GapMs + 14500, c.GapMs + 9000} {
			out = append(out, c02Sym{t, ""})
		}
		return out
	}
	if c.Edge {
		for _, t := range []int64{10000, 11999, 12000, 12001, 13999, 14000, 9999, 20000} {
			out = append(out, c02Sym{t, ""})
		}
		return out
	}
	for _, t := range c02Alphabet {
		out = append(out, c02Sym{c.ts(t), ""})
	}
	return out
}

func c02Row(e c02Ev) Row {
	r := Row{"id": e.ID, "k": e.key()}
	switch e.TS {
	case c02Fut:
		r["ts"] = sched.Base.UnixMilli() + 25*3600*1000
	case c02NoTS:
	case c02BadTS:
		r["ts"] = "abc"
	default:
		r["ts"] = e.TS
	}
	return r
}

type c02Del struct {
	Key    string // session results carry their key
	WID    string
	WS, WE int64
	IDs    []int
	AtOps  int
}

func c02Deliveries(r detResult) []c02Del {
	var out []c02Del
	for bi, b := range r.Batches {
		for _, row := range b {
			ws, _ := num(row["ws"])
			we, _ := num(row["we"])
			wid, _ := row["window_id"].(string)
			key, _ := row["k"].(string)
			if key != "" {
				wid = key + "/" + wid // sessions of different keys may share their bounds
			}
			out = append(out, c02Del{Key: key, WID: wid, WS: int64(ws) / 1000000, WE: int64(we) / 1000000, IDs: sortedInts(idList(row["ids"])), AtOps: r.AtOps[bi]})
		}
	}
	return out
}

func c02Run(c c02Cfg, evs []c02Ev) detResult {
	return detExec(c02SQL(c), detOpts{Eager: !c.Lazy, Horizon: 500 * vtime.Millisecond}, func(e *Env) {
		for _, ev := range evs {
			e.Emit(c02Row(ev))
		}
		// sentinel of another key far ahead: flushes every window that can still fire
		e.Emit(Row{"id": 99, "k": "zz", "ts": c.sentinel()})
	})
}

func intsEq(a, b []int) bool {
	if len(a) != len(b) {
		return false
	}
	for i := range a {
		if a[i] != b[i] {
			return false
		}
	}
	return true
}

func containsInt(a []int, x int) bool {
	for _, y := range a {
		if y == x {
			return true
		}
	}
	return false
}

// c02Check applies the monitors of the property to one eager execution.
func c02Check(c c02Cfg, evs []c02Ev, ds []c02Del) (kind, what string) {
	const negInf = int64(-1 << 62)
	all := append(append([]c02Ev{}, evs...), c02Ev{ID: 99, TS: c.sentinel()})
	// (1) no early firing
	maxAt := make([]int64, len(all)+1) // max normal ts among the first n emits
	maxAt[0] = negInf
	for i, e := range all {
		maxAt[i+1] = maxAt[i]
		if e.TS >= 0 && e.TS > maxAt[i+1] {
			maxAt[i+1] = e.TS
		}
	}
	for _, d := range ds {
		if d.AtOps > len(all) {
			continue
		}
		if maxAt[d.AtOps] < d.WE+c.OOOMs {
			return "fired-early", fmt.Sprintf("window %s [%d,%d) delivered after %d emits although the largest timestamp ingested so far is %d < end + MAXOUTOFORDERNESS = %d", d.WID, d.WS, d.WE, d.AtOps, maxAt[d.AtOps], d.WE+c.OOOMs)
		}
	}
	// walk the events, tracking the reference watermark and the last contents per window_id
	last := map[string][]int{}
	firstAt := map[string]c02Del{}
	delivered := map[int]bool{}
	for _, d := range ds {
		for _, id := range d.IDs {
			delivered[id] = true
		}
	}
	di := 0
	for i, e := range all {
		wmBefore := negInf
		if maxAt[i] != negInf {
			wmBefore = maxAt[i] - c.OOOMs
		}
		// deliveries caused by this emit
		var mine []c02Del
		for di < len(ds) && ds[di].AtOps <= i+1 {
			mine = append(mine, ds[di])
			di++
		}
		garbage := e.TS < 0
		lateOnArrival := !garbage && e.TS < wmBefore
		// (2) an on-time event is never lost
		if !garbage && !lateOnArrival && e.ID != 99 && !delivered[e.ID] {
			return "on-time-event-lost", fmt.Sprintf("event %d (ts %d) was not older than the watermark %d when it arrived but is in no result", e.ID, e.TS, wmBefore)
		}
		explained := map[int]bool{}
		if lateOnArrival {
			// windows already delivered that contain the event
			tooLate := false
			inFired := false
			for wid, f := range firstAt {
				if e.TS < f.WS || e.TS >= f.WE || (f.Key != "" && f.Key != e.key()) {
					continue
				}
				inFired = true
				if c.LateMs > 0 && wmBefore < f.WE+c.LateMs {
					// (3) must be re-delivered with previous contents + this event
					want := sortedInts(append(append([]int{}, last[wid]...), e.ID))
					found := false
					for mi, m := range mine {
						if m.WID == wid {
							if m.WS != f.WS || m.WE != f.WE {
								return "late-update-bounds", fmt.Sprintf("late event %d (ts %d) into fired window %s [%d,%d): the re-delivery reports window_start/window_end [%d,%d)", e.ID, e.TS, wid, f.WS, f.WE, m.WS, m.WE)
							}
							if !intsEq(m.IDs, want) {
								return "late-update-contents", fmt.Sprintf("late event %d (ts %d) into fired window %s: re-delivery holds %v, previous contents plus the event are %v", e.ID, e.TS, wid, m.IDs, want)
							}
							explained[mi] = true
							found = true
							last[wid] = m.IDs
							break
						}
					}
					if !found {
						return "late-update-missing", fmt.Sprintf("late event %d (ts %d) falls in fired window %s [%d,%d) still inside the allowance (watermark %d < end+lateness %d) but no re-delivery with that window_id followed", e.ID, e.TS, wid, f.WS, f.WE, wmBefore, f.WE+c.LateMs)
					}
				} else {
					tooLate = true
				}
			}
			// (a sliding-window event also belongs to windows that have not fired yet, where it
			// may legitimately be kept; a re-delivery of the closed window itself is caught as
			// spurious-redelivery below)
			if inFired && tooLate && !anyExplained(explained) && c.Kind != "sliding" {
				// (4) beyond the allowance: must change nothing
				if delivered[e.ID] {
					return "too-late-event-reported", fmt.Sprintf("event %d (ts %d) arrived when the watermark was %d, beyond the allowance of its fired window, yet it appears in a result", e.ID, e.TS, wmBefore)
				}
			}
		}
		for mi, m := range mine {
			if explained[mi] {
				continue
			}
			if _, again := firstAt[m.WID]; again {
				return "spurious-redelivery", fmt.Sprintf("window %s delivered again (contents %v, before %v) while processing event %d (ts %d) that does not justify a late update", m.WID, m.IDs, last[m.WID], e.ID, e.TS)
			}
			firstAt[m.WID] = m
			last[m.WID] = m.IDs
		}
		if garbage {
			if delivered[e.ID] && e.TS != c02Fut {
				return "unplaceable-row-reported", fmt.Sprintf("row %d without a usable timestamp appears in a result", e.ID)
			}
		}
	}
	return "", ""
}

// c02Burst: in-order bursts longer than every fixed internal buffer (watermark channel 100, window output 50),
// emitted before any engine goroutine runs: every on-time event must still be delivered once the engine has
// caught up (the monitors only see the final deliveries: AtOps is the script length for all of them).
func c02Burst() fw.Result {
	a := newAcc("C02", "det-burst")
	for _, kind := range []string{"tumbling", "sliding", "session"} {
		for _, n := range []int{120, 260} {
			for _, step := range []int64{100, 300} { // at most 40 windows: below the window output buffer (50), whose overflow legitimately drops results
				c := c02Cfg{Kind: kind, OOOMs: 0, LateMs: 0, MaxL: n, Lazy: true, Pusher: kind == "session"}
				var evs []c02Ev
				for i := 0; i < n; i++ {
					key := ""
					if kind == "session" && i > 0 {
						key = "b" // key a has one early event; key b's burst pushes the watermark past its session
					}
					evs = append(evs, c02Ev{ID: i + 1, TS: 10000 + int64(i)*step, Key: key})
				}
				r := c02Run(c, evs)
				a.r.Evaluations++
				a.r.States++
				a.r.Transitions += int64(r.Steps)
				a.r.Nontrivial++
				cs := map[string]any{"cfg": c, "sql": c02SQL(c), "events": fmt.Sprintf("%d in-order events %d ms apart from 10000", n, step)}
				if r.ExecErr != "" || r.Status != sched.StatusOK {
					a.fail("C02|"+kind+"|burst|exec", r.ExecErr+" "+r.Status.String()+" "+firstLine(r.Panic), cs, nil, nil)
					continue
				}
				ds := c02Deliveries(r)
				a.outcome(fmt.Sprint(len(ds)))
				delivered := map[int]int{}
				for _, d := range ds {
					for _, id := range d.IDs {
						delivered[id]++
					}
				}
				var lost []int
				for _, e := range evs {
					if delivered[e.ID] == 0 {
						lost = append(lost, e.ID)
					}
				}
				if len(lost) > 0 {
					if len(lost) > 12 {
						lost = lost[:12]
					}
					a.fail("C02|"+kind+"|burst|on-time-event-lost", fmt.Sprintf("%s: of %d in-order events emitted in one burst, events %v (...) are in no result after the engine went quiescent and the sentinel passed", c02SQL(c), n, lost), cs, nil, len(ds))
				}
			}
		}
	}
	a.sample(map[string]any{"burst_lengths": []int{120, 260}, "steps_ms": []int{100, 300}, "kinds": "tumbling, sliding, session"})
	return a.result()
}

func anyExplained(m map[int]bool) bool { return len(m) > 0 }

func c02Canon(ds []c02Del, skip map[int]bool) string {
	var s []string
	for _, d := range ds {
		var ids []int
		for _, id := range d.IDs {
			if !skip[id] {
				ids = append(ids, id)
			}
		}
		s = append(s, fmt.Sprintf("%s%v", d.WID, ids))
	}
	sort.Strings(s) // rows of one batch come in the engine's map order: the order of deliveries is checked elsewhere
	return strings.Join(s, ";")
}

type c02 struct{}

func (c02) ID() string { return "C02" }

func (c02) Plan(tier string) []fw.Unit {
	var us []fw.Unit
	for i, c := range c02Configs(tier) {
		shards := 4
		if c.MaxL >= 5 {
			shards = 24
		}
		for s := 0; s < shards; s++ {
			us = append(us, fw.Unit{Check: "C02", Kind: "enum", Tier: tier, Spec: fw.Spec(enumSpec{Cfg: i, Shard: s, Shards: shards})})
		}
	}
	us = append(us, fw.Unit{Check: "C02", Kind: "burst", Tier: tier, Spec: fw.Spec(enumSpec{})})
	for s := 0; s < 8; s++ {
		us = append(us, fw.Unit{Check: "C02", Kind: "idle", Tier: tier, Spec: fw.Spec(enumSpec{Shard: s, Shards: 8})})
	}
	bound := 2 // (raised from 1: a lock-upgrade race in Trigger needs the clock to fire a due timer and one preemption)
	if tier == "thorough" {
		bound = 3
	}
	for i, sc := range c02Scenarios(tier) {
		us = append(us, fw.Unit{Check: "C02", Kind: "sched", Tier: tier, Spec: fw.Spec(schedSpec{Scn: i, Name: sc.Name, Items: []explore.Item{{}}, Bound: bound, Budget: 20000})})
	}
	return us
}

func (c02) Replay(v fw.Violation) (string, bool) {
	m := caseMap(v)
	if _, ok := m["scn"]; ok {
		return replaySched(c02Scenarios("thorough"), m)
	}
	return "deterministic case: see events in the replay file", false
}

func (c02) Run(u fw.Unit) fw.Result {
	if u.Kind == "sched" {
		return runSched("C02", u, c02Scenarios(u.Tier))
	}
	if u.Kind == "idle" {
		return c02Idle(u)
	}
	if u.Kind == "burst" {
		return c02Burst()
	}
	sp := parseEnum(u)
	c := c02Configs(u.Tier)[sp.Cfg]
	a := newAcc("C02", "det-"+c.Kind)
	sql := c02SQL(c)
	idx := 0
	for L := 1; L <= c.MaxL; L++ {
		syms := c02Symbols(c)
		sequences(L, len(syms), func(seq []int) {
			idx++
			if idx%sp.Shards != sp.Shard {
				return
			}
			var evs []c02Ev
			nGarbage := 0
			for i, x := range seq {
				evs = append(evs, c02Ev{ID: i + 1, TS: syms[x].TS, Key: syms[x].Key})
				if syms[x].TS < 0 {
					nGarbage++
				}
			}
			if nGarbage > 1 {
				return // at most one garbage row per script keeps the product small
			}
			r := c02Run(c, evs)
			a.r.Evaluations++
			a.r.States++
			a.r.Transitions += int64(r.Steps)
			cs := map[string]any{"cfg": c, "sql": sql, "events": evs}
			if r.ExecErr != "" || r.Status != sched.StatusOK {
				a.fail("C02|"+c.Kind+"|exec", r.ExecErr+" "+r.Status.String()+" "+firstLine(r.Panic), cs, nil, nil)
				return
			}
			ds := c02Deliveries(r)
			if len(ds) > 1 {
				a.r.Nontrivial++
			}
			a.outcome(c02Canon(ds, nil))
			if kind, what := c02Check(c, evs, ds); kind != "" {
				a.fail(fmt.Sprintf("C02|%s|%s|lateness>0=%v|future-row-in-script=%v", c.Kind, kind, c.LateMs > 0, nGarbage == 1 && hasTS(evs, c02Fut)), what, cs, nil, ds)
			}
			if nGarbage == 1 {
				// (4) differential: the same script without the garbage row must give the same deliveries
				var clean []c02Ev
				skip := map[int]bool{}
				for _, e := range evs {
					if e.TS >= 0 {
						clean = append(clean, e)
					} else {
						skip[e.ID] = true
					}
				}
				r2 := c02Run(c, clean)
				a.r.Evaluations++
				a.r.Transitions += int64(r2.Steps)
				if got, want := c02Canon(ds, skip), c02Canon(c02Deliveries(r2), nil); got != want {
					gk := "future-timestamp"
					for _, e := range evs {
						if e.TS == c02NoTS {
							gk = "row-without-timestamp"
						} else if e.TS == c02BadTS {
							gk = "non-numeric-timestamp"
						}
					}
					a.fail(fmt.Sprintf("C02|%s|garbage-row-changes-results|%s", c.Kind, gk), fmt.Sprintf("with the garbage row: %s ; without it: %s", got, want), cs, want, got)
				}
			}
			if idx == 2000 {
				a.sample(map[string]any{"sql": sql, "events(id,ts_ms)": evs, "deliveries": ds})
			}
		})
	}
	return a.result()
}

func (c02) Describe(tier string) fw.Description {
	return fw.Description{
		Level: "model_checking",
		Rule: "bounded-exhaustive: all event scripts of length 1..L over 8 timestamps (on time, late into a fired window inside / beyond the allowance, early) plus at most one garbage row (timestamp now+25h, missing ts, non-numeric ts) x {tumbling 2s, sliding 4s/2s, session 2s; session also with a two-key alphabet in which key b only pushes the watermark, so that key a's session fires and receives late rows} x MAXOUTOFORDERNESS {0,2s} x ALLOWEDLATENESS {0,1s,3s}, followed by a far sentinel; executed on the real engine with the eager feed (every goroutine runs to quiescence after each Emit, so the set of rows ingested before each delivery is known exactly) and the virtual clock; monitors: (1) a delivery only when max ingested ts >= end + MAXOUTOFORDERNESS, (2) every event not older than the watermark on arrival is reported, (3) a late event into a fired window inside the allowance causes a re-delivery with the same window_id and contents = previous + event, nothing else is re-delivered, an event beyond the allowance is never reported, (4) a script with a garbage row delivers exactly what the script without it delivers; non-trivial = >= 2 deliveries; plus W-level schedule exploration (<= bound deviations) of the tumbling and sliding window objects on 4 late-event scripts with schedule-safe monitors on the observation log (delivery only after a started Add carried ts >= end+OOO; on-time events not lost; a re-delivery only inside the Add of a late event of that window inside the allowance, contents = previous + event; a window fired before the Add started and inside the allowance must be re-delivered)",
		Bounds:      map[string]any{"max_len": map[string]int{"quick": 4, "thorough": 5}, "alphabet_ms": c02Times, "garbage_rows": []string{"now+25h", "no ts", "ts='abc'"}},
		Assumptions: []string{"an event older than the watermark whose window has not fired yet may be kept or dropped (both accepted)", "schedule dimension: the tumbling and sliding window objects are additionally driven under the schedule explorer for 4 late-event scripts (see rule)"},
	}
}

func init() { fw.Register(c02{}) }

func hasTS(evs []c02Ev, ts int64) bool {
	for _, e := range evs {
		if e.TS == ts {
			return true
		}
	}
	return false
}

// c02Idle: IDLETIMEOUT. Scripts of (Emit ts, Sleep d) steps on the virtual clock; a window may
// only be delivered when an ingested event carries ts >= end + MAXOUTOFORDERNESS or when more
// than IDLETIMEOUT of (virtual) time has passed since the last Emit.
func c02Idle(u fw.Unit) fw.Result {
	sp := parseEnum(u)
	a := newAcc("C02", "det-idle")
	tss := []int64{9500, 10500, 12500}
	sleeps := []time.Duration{0, 3 * time.Second, 6 * time.Second}
	const idle = 5 * time.Second
	maxL := 3
	if u.Tier == "thorough" {
		maxL = 4
	}
	idx := 0
	for _, kind := range []string{"tumbling", "sliding", "session"} {
		for _, ooo := range []int64{0, 2000} {
			cfg := c02Cfg{Kind: kind, OOOMs: ooo}
			sql := strings.Replace(c02SQL(cfg), "TIMEUNIT='ms'", "TIMEUNIT='ms', IDLETIMEOUT='5s'", 1)
			for L := 1; L <= maxL; L++ {
				sequences(L, len(tss)*len(sleeps), func(seq []int) {
					idx++
					if idx%sp.Shards != sp.Shard {
						return
					}
					type step struct {
						TS    int64 `json:"ts"`
						Sleep int   `json:"sleep_ms_after"`
					}
					steps := []step{{10000, 2000}}
					for _, x := range seq {
						steps = append(steps, step{tss[x/len(sleeps)], int(sleeps[x%len(sleeps)] / time.Millisecond)})
					}
					// timestamps are taken relative to the virtual "now": an idle advance moves the
					// watermark to processing time, and the engine then walks every empty window between
					// the data and now (decades of 2 s windows for epoch-1970 data: it never returns)
					base := sched.Base.UnixMilli() - 10000
					r := detExec(sql, detOpts{Eager: true, Horizon: 500 * time.Millisecond}, func(e *Env) {
						for i, st := range steps {
							e.Emit(Row{"id": i + 1, "k": "a", "ts": base + st.TS})
							if st.Sleep > 0 {
								e.Sleep(time.Duration(st.Sleep) * time.Millisecond)
							}
						}
					})
					a.r.Evaluations++
					a.r.States++
					a.r.Transitions += int64(r.Steps)
					cs := map[string]any{"sql": sql, "steps": steps}
					if r.ExecErr != "" || r.Status != sched.StatusOK {
						a.fail("C02|idle|exec", r.ExecErr+" "+r.Status.String()+" "+firstLine(r.Panic), cs, nil, nil)
						return
					}
					ds := c02Deliveries(r)
					if len(ds) > 0 {
						a.r.Nontrivial++
					}
					a.outcome(c02Canon(ds, nil))
					bi := 0
				deliveries:
					for _, b := range r.Batches {
						for range b {
							d := ds[bi]
							at := r.AtNs[biBatch(r, bi)]
							bi++
							maxTS := int64(-1 << 62)
							lastEmit := int64(-1)
							for j := 0; j < d.AtOps && j < len(steps); j++ {
								if steps[j].TS > maxTS {
									maxTS = steps[j].TS
								}
								lastEmit = r.OpNs[j]
							}
							if base+maxTS >= d.WE+ooo {
								continue
							}
							if lastEmit >= 0 && at-lastEmit > int64(idle) {
								break deliveries // idle advance: from here on the reference watermark does not apply
							}
							a.fail(fmt.Sprintf("C02|%s|fired-early-with-idle-timeout", kind), fmt.Sprintf("%s: window %s [%d,%d) (ms relative to the script's time base) delivered at virtual +%dms although the largest ingested timestamp is %d < end+OOO %d and the last Emit was only %dms earlier (IDLETIMEOUT 5s)", sql, d.WID, d.WS-base, d.WE-base, at/1e6, maxTS, d.WE-base+ooo, (at-lastEmit)/1e6), cs, nil, ds)
							return
						}
					}
					// an event that arrives after the source has been idle for more than IDLETIMEOUT (+0.5 s of slack for the
					// watermark tick) and whose timestamp lies more than a second behind processing time - MAXOUTOFORDERNESS is
					// older than the idle-advanced watermark: with ALLOWEDLATENESS 0 it changes no result
					for j := 1; j < len(steps) && j < len(r.OpNs); j++ {
						gap := r.OpNs[j] - r.OpNs[j-1]
						nowMs := sched.Base.UnixMilli() + r.OpNs[j]/1e6
						if gap <= int64(idle)+int64(500*time.Millisecond) || base+steps[j].TS >= nowMs-1000-ooo {
							continue
						}
						for _, d := range ds {
							for _, id := range d.IDs {
								if id == j+1 {
									a.fail(fmt.Sprintf("C02|%s|event-behind-idle-watermark-reported", kind), fmt.Sprintf("%s: event %d (ts %d on the script's time base) arrived %d ms after the previous one (IDLETIMEOUT 5s had advanced the watermark to processing time) and is reported in window %s [%d,%d)", sql, j+1, steps[j].TS, gap/1e6, d.WID, d.WS-base, d.WE-base), cs, nil, ds)
									return
								}
							}
						}
					}
				})
			}
		}
	}
	a.sample(map[string]any{"oracles": "no delivery before the watermark or the idle timeout; an event that arrives after an idle advance and lies behind processing time - tolerance changes no result", "idle_timeout": "5s", "steps": "Emit ts in {9500,10500,12500} then Sleep in {0,3s,6s}, after a first Emit(10000)+2s"})
	return a.result()
}

// biBatch maps the index of a delivered row to the index of its batch.
func biBatch(r detResult, rowIdx int) int {
	n := 0
	for i, b := range r.Batches {
		n += len(b)
		if rowIdx < n {
			return i
		}
	}
	return len(r.Batches) - 1
}
