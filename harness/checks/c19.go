package checks

import (
	"fmt"
	"os"
	"sort"
	"strings"

	"verifharness/explore"
	"verifharness/fw"

	"github.com/rulego/streamsql"
	"github.com/rulego/streamsql/logger"
	vsync "github.com/rulego/streamsql/verifrt/sync"
	vtime "github.com/rulego/streamsql/verifrt/time"
	"github.com/rulego/streamsql/verifrt/sched"
)

// C19: every emitted row is either processed exactly once or counted as dropped.

type c19Cfg struct {
	Producers int    `json:"producers"`
	Rows      int    `json:"rows"`
	Buf       int    `json:"buf"`
	Strategy  string `json:"strategy"`
	TimeoutUs int    `json:"block_timeout_us"`
	Ceiling   int    `json:"ceiling"`
	Prefill   int    `json:"prefill"`        // rows emitted by the main thread before the producers start (buffer already full)
	Threshold float64 `json:"trigger_threshold"` // expansion trigger threshold (default 0.8)
	Growth    float64 `json:"growth_factor,omitempty"` // default 1.5
	Inc       int     `json:"min_increment,omitempty"` // default 1
	// Parked: the processor takes one pre-filled row and is then held inside the synchronous sink until every
	// producer has returned, so it touches no channel while the producers fill, expand and migrate
	Parked bool `json:"processor_parked,omitempty"`
	// Empty: the first row of every producer is a row without any column (an empty map; a nil map for producer 1)
	Empty bool `json:"field_less_rows,omitempty"`
}

func (c c19Cfg) name() string {
	n := fmt.Sprintf("p%d-r%d-buf%d-%s-to%d-ceil%d", c.Producers, c.Rows, c.Buf, c.Strategy, c.TimeoutUs, c.Ceiling)
	if c.Prefill > 0 {
		n += fmt.Sprintf("-prefill%d-thr%v", c.Prefill, c.Threshold)
	}
	if c.Growth > 0 || c.Inc > 0 {
		n += fmt.Sprintf("-g%v-inc%d", c.Growth, c.Inc)
	}
	if c.Parked {
		n += "-parked"
	}
	if c.Empty {
		n += "-emptyrows"
	}
	return n
}

func c19Configs(tier string) []c19Cfg {
	var out []c19Cfg
	for _, p := range []int{1, 2, 3} {
		for _, buf := range []int{1, 2} {
			out = append(out, c19Cfg{Producers: p, Rows: 2, Buf: buf, Strategy: "drop"})
			out = append(out, c19Cfg{Producers: p, Rows: 2, Buf: buf, Strategy: "block"})
			out = append(out, c19Cfg{Producers: p, Rows: 2, Buf: buf, Strategy: "block", TimeoutUs: 1000})
			for _, ceil := range []int{2, 3} {
				if ceil > buf {
					out = append(out, c19Cfg{Producers: p, Rows: 2, Buf: buf, Strategy: "expand", Ceiling: ceil})
				}
			}
		}
	}
	// buffer pre-filled by the main thread, then 2 producers x 1 row: the expansion happens while
	// the consumer is draining; threshold 0.5 lets a half-full sample still expand (stale length)
	out = append(out, c19Cfg{Producers: 2, Rows: 1, Buf: 2, Strategy: "expand", Ceiling: 4, Prefill: 2, Threshold: 0.5},
		c19Cfg{Producers: 2, Rows: 1, Buf: 2, Strategy: "expand", Ceiling: 3, Prefill: 2, Threshold: 0.8},
		c19Cfg{Producers: 2, Rows: 1, Buf: 2, Strategy: "drop", Prefill: 2},
		// other growth parameters: doubling with increment 2 up to 4 / 8, and a factor that rounds down to no growth
		c19Cfg{Producers: 2, Rows: 2, Buf: 1, Strategy: "expand", Ceiling: 4, Growth: 2, Inc: 2},
		c19Cfg{Producers: 1, Rows: 2, Buf: 2, Strategy: "expand", Ceiling: 8, Growth: 2, Inc: 1, Prefill: 2, Threshold: 0.5},
		c19Cfg{Producers: 2, Rows: 2, Buf: 2, Strategy: "expand", Ceiling: 3, Growth: 1.1, Inc: 1})
	// rows without any column are rows: processed or counted like every other
	for _, st := range []string{"drop", "block", "expand"} {
		c := c19Cfg{Producers: 2, Rows: 2, Buf: 2, Strategy: st, Empty: true}
		if st == "expand" {
			c.Ceiling = 3
		}
		out = append(out, c)
	}
	// the processor parked in the sink: whatever the producers do to the channel among themselves, every producer's
	// rows come out in emission order afterwards (the known hand-over finding needs the processor to receive
	// during a migration and cannot occur here)
	out = append(out, c19Cfg{Producers: 2, Rows: 2, Buf: 1, Strategy: "expand", Ceiling: 4, Prefill: 1, Parked: true},
		c19Cfg{Producers: 2, Rows: 2, Buf: 2, Strategy: "expand", Ceiling: 6, Prefill: 1, Parked: true})
	return out
}

type c19Obs struct {
	empties   int // field-less rows seen by the sink
	processed []int
	dropped   int64
	input     int64
	capEnd    int64
	execErr   string
}

func c19Run(cfg c19Cfg) explore.RunFunc {
	return func(ch sched.Chooser, local map[int]bool) (*sched.Result, string, *explore.Failure) {
		var o c19Obs
		res := sched.Run(sched.Config{Chooser: ch, Local: local, MaxSteps: 20000, Trace: traceFn()}, func() {
			perf := smallPerf(cfg.Strategy, cfg.Buf, 8, 2)
			if cfg.TimeoutUs > 0 {
				perf.OverflowConfig.BlockTimeout = durUs(cfg.TimeoutUs)
			}
			if cfg.Strategy == "expand" {
				perf.BufferConfig.MaxBufferSize = cfg.Ceiling
				perf.OverflowConfig.ExpansionConfig.GrowthFactor = 1.5
				perf.OverflowConfig.ExpansionConfig.MinIncrement = 1
				if cfg.Growth > 0 {
					perf.OverflowConfig.ExpansionConfig.GrowthFactor = cfg.Growth
				}
				if cfg.Inc > 0 {
					perf.OverflowConfig.ExpansionConfig.MinIncrement = cfg.Inc
				}
				perf.OverflowConfig.ExpansionConfig.TriggerThreshold = 0.8
				if cfg.Threshold > 0 {
					perf.OverflowConfig.ExpansionConfig.TriggerThreshold = cfg.Threshold
				}
			}
			ssql := streamsql.New(streamsql.WithCustomPerformance(perf), streamsql.WithLogger(logger.NewDiscardLogger()))
			if err := ssql.Execute("SELECT id FROM stream"); err != nil {
				o.execErr = err.Error()
				return
			}
			gate := make(chan struct{}, 1)
			gateOpen := false
			ssql.AddSyncSink(func(rows []map[string]any) {
				for _, r := range rows {
					if r["id"] == nil && cfg.Empty {
						o.empties++
						continue
					}
					o.processed = append(o.processed, toInt(r["id"]))
				}
				if cfg.Parked && !gateOpen {
					sched.Recv(gate)
				}
			})
			for j := 0; j < cfg.Prefill; j++ {
				ssql.Emit(map[string]any{"id": 900 + j})
			}
			if cfg.Parked {
				sched.Quiesce() // the processor takes the pre-filled row and parks inside the sink
			}
			var wg vsync.WaitGroup
			for p := 0; p < cfg.Producers; p++ {
				p := p
				wg.Add(1)
				sched.Go(func() {
					defer wg.Done()
					for j := 0; j < cfg.Rows; j++ {
						switch {
						case cfg.Empty && j == 0 && p == 1:
							ssql.Emit(nil)
						case cfg.Empty && j == 0:
							ssql.Emit(map[string]any{})
						default:
							ssql.Emit(map[string]any{"id": p*100 + j})
						}
					}
				})
			}
			wg.Wait()
			if cfg.Parked {
				gateOpen = true
				sched.Close(gate)
			}
			// let the processor's poll ticker fire (a row migrated to a new channel is only seen
			// at the next poll), then wait for the pipeline to drain
			vtime.Sleep(250 * vtime.Millisecond)
			sched.Quiesce()
			st := ssql.GetStats()
			o.dropped = st["input_dropped_count"]
			o.input = st["input_count"]
			o.capEnd = st["data_chan_cap"]
			ssql.Stop()
			sched.Quiesce()
		})
		out := fmt.Sprintf("proc=%v dropped=%d cap=%d", o.processed, o.dropped, o.capEnd)
		return res, out, c19Oracle(cfg, res, &o)
	}
}

func c19Oracle(cfg c19Cfg, res *sched.Result, o *c19Obs) *explore.Failure {
	total := cfg.Producers*cfg.Rows + cfg.Prefill
	fail := func(kind, what string) *explore.Failure {
		sig := fmt.Sprintf("C19|%s|strategy=%s|expanded=%v", kind, cfg.Strategy, o.capEnd != int64(cfg.Buf))
		if cfg.Parked {
			sig += "|processor-parked"
		}
		return &explore.Failure{Signature: sig, What: what,
			Expected: fmt.Sprintf("processed+dropped == %d, ids distinct, per-producer order", total),
			Observed: fmt.Sprintf("processed=%v dropped=%d input=%d cap=%d status=%s", o.processed, o.dropped, o.input, o.capEnd, res.Status)}
	}
	if o.execErr != "" {
		return fail("execute-error", o.execErr)
	}
	switch res.Status {
	case sched.StatusDeadlock:
		return fail("deadlock", "producers/pipeline deadlocked: "+liveDesc(res))
	case sched.StatusPanic:
		return fail("panic", "panic escaped: "+firstLine(res.PanicVal))
	case sched.StatusCapHit:
		return fail("livelock", "step cap hit")
	}
	if o.input != int64(total) {
		return fail("input-count", fmt.Sprintf("input_count=%d, want %d", o.input, total))
	}
	seen := map[int]bool{}
	for _, id := range o.processed {
		if seen[id] {
			return fail("duplicate", fmt.Sprintf("row %d processed twice", id))
		}
		seen[id] = true
	}
	if int64(len(o.processed)+o.empties)+o.dropped != int64(total) {
		if int64(len(o.processed)+o.empties)+o.dropped < int64(total) {
			return fail("lost-row", fmt.Sprintf("%d rows neither processed nor counted as dropped", int64(total)-int64(len(o.processed)+o.empties)-o.dropped))
		}
		return fail("overcount", "processed+dropped exceeds the number of Emit calls")
	}
	if total <= cfg.Buf && o.dropped != 0 {
		// dropping is the *overflow* strategy: a buffer that can hold every row ever emitted never overflows
		return fail("dropped-without-overflow", fmt.Sprintf("%d row(s) counted as dropped although the buffer (%d) can hold all %d rows emitted", o.dropped, cfg.Buf, total))
	}
	if cfg.Strategy == "block" && cfg.TimeoutUs == 0 && o.dropped != 0 {
		return fail("block-dropped", "block strategy without timeout dropped rows")
	}
	last := map[int]int{}
	for _, id := range o.processed {
		p := id / 100
		if prev, ok := last[p]; ok && id < prev {
			return fail("order", fmt.Sprintf("producer %d: row %d processed after %d", p, id, prev))
		}
		last[p] = id
	}
	if cfg.Strategy == "expand" {
		if o.capEnd > int64(cfg.Ceiling) {
			return fail("ceiling", fmt.Sprintf("data channel capacity %d exceeds the configured maximum %d", o.capEnd, cfg.Ceiling))
		}
	} else if o.capEnd != int64(cfg.Buf) {
		return fail("cap-changed", fmt.Sprintf("capacity changed to %d under strategy %s", o.capEnd, cfg.Strategy))
	}
	return nil
}

func liveDesc(res *sched.Result) string {
	var s []string
	for _, t := range res.Live {
		s = append(s, fmt.Sprintf("%s@%s", t.Site, t.Blocked))
	}
	sort.Strings(s)
	return strings.Join(s, ",")
}

type c19 struct{}

func (c19) ID() string { return "C19" }

func c19Scenarios(tier string) []schedScenario {
	var out []schedScenario
	for _, cfg := range c19Configs(tier) {
		out = append(out, schedScenario{Name: cfg.name(), Params: cfg, Run: c19Run(cfg)})
	}
	return out
}

func (c19) Plan(tier string) []fw.Unit {
	scs := c19Scenarios(tier)
	var us []fw.Unit
	for i, sc := range scs {
		cfg := sc.Params.(c19Cfg)
		// measured sizes (HB-cached executions): p1 bound 2: 42k total; p2 bound 1: 85k total;
		// p2 bound 2: ~700k per scenario; p3 bound 1: >4M total
		bound := map[int]int{1: 2, 2: 1, 3: 0}[cfg.Producers]
		if tier == "thorough" {
			bound = map[int]int{1: 3, 2: 2, 3: 1}[cfg.Producers]
		}
		if cfg.Prefill > 0 {
			bound = 2
			if tier == "thorough" {
				bound = 3
			}
		}
		if only := os.Getenv("VERIF_ONLY"); only != "" && !strings.Contains(sc.Name, only) {
			continue
		}
		if b := os.Getenv("VERIF_BOUND"); b != "" {
			fmt.Sscan(b, &bound)
		}
		us = append(us, fw.Unit{Check: "C19", Kind: "sched", Tier: tier, Spec: fw.Spec(schedSpec{
			Scn: i, Name: sc.Name, Items: []explore.Item{{}}, Bound: bound, Budget: 20000})})
	}
	return us
}

func (c19) Run(u fw.Unit) fw.Result { return runSched("C19", u, c19Scenarios(u.Tier)) }

func (c19) Describe(tier string) fw.Description {
	return fw.Description{
		Level: "model_checking",
		Rule: "stateless DFS over all schedules (thread choices at sync/atomic/channel points of stream+root packages, early timer firings, select-case choices) " +
			"with at most `bound` deviations, of closed harnesses (also: buffer pre-filled, other growth parameters, the processor parked inside the sink until every producer has returned, rows without any column): P producers x 2 rows -> real Stream (SELECT id FROM stream) with data buffer 1|2 under drop / block / block+1ms / expand(ceiling 2|3); " +
			"each execution is one state (DFS node); non-trivial = reached through >=1 deviation from the default schedule; oracle at quiescence: processed+input_dropped==emits, ids distinct, block never drops, nothing is dropped while the buffer can hold every row emitted, cap<=ceiling, per-producer order",
		Bounds: map[string]any{"producers": "1..3", "rows_per_producer": 2, "buffer": "1,2", "deviations": "quick: 2/1/0 for 1/2/3 producers; thorough: 3/2/1 (time-capped)", "forced_switch_cost": 0},
		Assumptions: []string{
			"scheduling points only at sync, sync/atomic, channel and timer operations: unsynchronised accesses are invisible here (covered by the separate -race pass)",
			"virtual clock: timers fire only when chosen; wall-clock durations are not modelled",
			"operations inside functions/aggregator/expr/condition/rsql/metrics/logger/utils are not preemption candidates",
		},
	}
}

func init() { fw.Register(c19{}) }
