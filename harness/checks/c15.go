package checks

import (
	"fmt"
	"sort"
	"strings"

	"verifharness/fw"
	"verifharness/ref"

	"github.com/rulego/streamsql/verifrt/sched"
	vtime "github.com/rulego/streamsql/verifrt/time"
)

// C15: MATCH_RECOGNIZE reports exactly the valid leftmost-longest matches per partition.

func v(n string) ref.Pat { return ref.PVar{Name: n} }
func seq(p ...ref.Pat) ref.Pat { return ref.PSeq{Items: p} }
func alt(p ...ref.Pat) ref.Pat { return ref.PAlt{Items: p} }
func rep(p ref.Pat, min, max int) ref.Pat { return ref.PRep{X: p, Min: min, Max: max} }

func c15Patterns() []ref.Pat {
	A, B, C, D := v("A"), v("B"), v("C"), v("D")
	return []ref.Pat{
		A, seq(A, B), seq(A, B, C), rep(A, 1, -1), seq(rep(A, 1, -1), B), seq(A, rep(B, 1, -1)), seq(A, rep(B, 0, -1), C), seq(A, rep(B, 0, 1), C),
		rep(A, 2, 2), rep(A, 2, 3), seq(rep(A, 2, 2), B), rep(seq(A, B), 1, -1), seq(alt(A, B), C), seq(A, alt(B, C)), seq(A, rep(alt(B, C), 1, -1)),
		alt(A, B), alt(seq(A, B), C), ref.PPermute{Items: []ref.Pat{A, B}}, seq(ref.PPermute{Items: []ref.Pat{A, B}}, C), seq(A, rep(seq(B, C), 0, 1)),
		seq(rep(A, 1, -1), rep(B, 1, -1)), seq(A, rep(alt(B, C), 0, -1), D), rep(A, 3, 3), seq(A, rep(B, 1, 2), C),
		// bounded ranges with at least two optional repetitions
		rep(A, 1, 3), seq(A, rep(B, 1, 3), C), seq(rep(A, 0, 2), B), rep(seq(A, B), 1, 3), rep(A, 2, 4),
		// PERMUTE of three elements (all six arrival orders)
		ref.PPermute{Items: []ref.Pat{A, B, C}},
		// an exact count next to a variable-length part (greedy selection must not be lost on the way)
		seq(rep(A, 2, 2), rep(seq(B, C), 0, 1)), seq(rep(A, 2, 2), rep(B, 0, -1), C), seq(rep(A, 2, 2), rep(B, 1, -1)),
	}
}

type c15Def struct {
	Name string
	SQL  map[string]string
	Fn   ref.Define
}

func c15Defines() []c15Def {
	eq := func(x float64) func(ref.DefCtx) bool { return func(c ref.DefCtx) bool { return c.Cur().V == x } }
	return []c15Def{
		{"values", map[string]string{"A": "v = 1", "B": "v = 2", "C": "v = 3"}, ref.Define{"A": eq(1), "B": eq(2), "C": eq(3)}},
		{"prev", map[string]string{"A": "v > 1", "B": "v > PREV(v)", "C": "v < PREV(v)"}, ref.Define{
			"A": func(c ref.DefCtx) bool { return c.Cur().V > 1 },
			"B": func(c ref.DefCtx) bool { p, ok := c.Prev(); return ok && c.Cur().V > p.V },
			"C": func(c ref.DefCtx) bool { p, ok := c.Prev(); return ok && c.Cur().V < p.V },
		}},
		{"overlap", map[string]string{"A": "v >= 2", "B": "v <= 2", "C": "v >= 1"}, ref.Define{
			"A": func(c ref.DefCtx) bool { return c.Cur().V >= 2 },
			"B": func(c ref.DefCtx) bool { return c.Cur().V <= 2 },
			"C": func(c ref.DefCtx) bool { return c.Cur().V >= 1 },
		}},
		{"agg", map[string]string{"A": "v >= 1", "B": "v > FIRST(A.v)", "C": "COUNT(A.*) < 3"}, ref.Define{
			"A": func(c ref.DefCtx) bool { return c.Cur().V >= 1 },
			"B": func(c ref.DefCtx) bool { f, ok := c.FirstOf("A"); return ok && c.Cur().V > f.V },
			"C": func(c ref.DefCtx) bool { return c.CountOf("A") < 3 },
		}},
		// one function called twice in one condition with different arguments (another column, another offset,
		// another variable): every call must see its own arguments
		{"twice-nav", map[string]string{"A": "v >= 1", "B": "v > PREV(v) AND id - PREV(id) = 1", "C": "v < PREV(v, 1) OR v > PREV(v, 2)"}, ref.Define{
			"A": func(c ref.DefCtx) bool { return c.Cur().V >= 1 },
			"B": func(c ref.DefCtx) bool { p, ok := c.Prev(); return ok && c.Cur().V > p.V && c.Cur().ID-p.ID == 1 },
			"C": func(c ref.DefCtx) bool {
				p1, ok1 := c.PrevN(1)
				p2, ok2 := c.PrevN(2)
				return ok1 && c.Cur().V < p1.V || ok2 && c.Cur().V > p2.V
			},
		}},
		// aggregates qualified by the very variable being defined: the row under test counts
		{"own-agg", map[string]string{"A": "SUM(A.v) <= 4", "B": "COUNT(B.*) <= 2 AND v >= 2", "C": "v >= 1"}, ref.Define{
			"A": func(c ref.DefCtx) bool { return c.SumOf("A") <= 4 },
			"B": func(c ref.DefCtx) bool { return c.CountOf("B") <= 2 && c.Cur().V >= 2 },
			"C": func(c ref.DefCtx) bool { return c.Cur().V >= 1 },
		}},
		// MAX / MIN / SUM over a column whose values are all negative (n = v - 4), the row under test included
		{"neg-agg", map[string]string{"A": "n >= MAX(n)", "B": "n <= MIN(n)", "C": "SUM(n) >= -6 AND MAX(A.n) < 0"}, ref.Define{
			"A": func(c ref.DefCtx) bool { mx, _, _ := c15NegAgg(c, ""); return c.Cur().V-4 >= mx },
			"B": func(c ref.DefCtx) bool { _, mn, _ := c15NegAgg(c, ""); return c.Cur().V-4 <= mn },
			"C": func(c ref.DefCtx) bool {
				_, _, sum := c15NegAgg(c, "")
				mxA, _, _ := c15NegAgg(c, "A")
				return sum >= -6 && c.CountOf("A") > 0 && mxA < 0 // MAX over no row is NULL, and NULL < 0 is not true
			},
		}},
		{"twice-agg", map[string]string{"A": "v >= 1", "B": "v >= FIRST(A.v) AND id - FIRST(A.id) >= 2", "C": "COUNT(A.*) < 3 AND COUNT(B.*) < 2"}, ref.Define{
			"A": func(c ref.DefCtx) bool { return c.Cur().V >= 1 },
			"B": func(c ref.DefCtx) bool { f, ok := c.FirstOf("A"); return ok && c.Cur().V >= f.V && c.Cur().ID-f.ID >= 2 },
			"C": func(c ref.DefCtx) bool { return c.CountOf("A") < 3 && c.CountOf("B") < 2 },
		}},
	}
}

// c15NegAgg: max, min and sum of n = v - 4 over the rows of the match so far (the row under test included) that are
// classified as name ("" = all rows).
func c15NegAgg(c ref.DefCtx, name string) (mx, mn, sum float64) {
	first := true
	for i, l := range c.Labels {
		if name != "" && l != name {
			continue
		}
		n := c.Ev[c.Start+i].V - 4
		if first || n > mx {
			mx = n
		}
		if first || n < mn {
			mn = n
		}
		first = false
		sum += n
	}
	return
}

func patVars(p ref.Pat) map[string]bool {
	out := map[string]bool{}
	var rec func(p ref.Pat)
	rec = func(p ref.Pat) {
		switch x := p.(type) {
		case ref.PVar:
			out[x.Name] = true
		case ref.PSeq:
			for _, i := range x.Items {
				rec(i)
			}
		case ref.PAlt:
			for _, i := range x.Items {
				rec(i)
			}
		case ref.PRep:
			rec(x.X)
		case ref.PPermute:
			for _, i := range x.Items {
				rec(i)
			}
		}
	}
	rec(p)
	return out
}

func c15SQL(p ref.Pat, d c15Def, skip string, allRows bool) string {
	vars := patVars(p)
	var defs []string
	for _, name := range []string{"A", "B", "C"} {
		if vars[name] {
			defs = append(defs, name+" AS "+d.SQL[name])
		}
	}
	rows := "MEASURES MATCH_NUMBER() AS mn, FIRST(id) AS f, LAST(id) AS l, LAST(k) AS pk, LAST(id) * 10 - LAST(v) AS dl, FIRST(id) * 10 + FIRST(v) AS df, MAX(n) AS mxn, MIN(n) AS mnn, SUM(n) AS sn, COUNT(*) AS cn ONE ROW PER MATCH"
	if allRows {
		rows = "MEASURES MATCH_NUMBER() AS mn, CLASSIFIER() AS cl ALL ROWS PER MATCH"
	}
	return fmt.Sprintf("SELECT * FROM stream MATCH_RECOGNIZE (PARTITION BY k ORDER BY ts %s AFTER MATCH SKIP %s PATTERN (%s) DEFINE %s)", rows, skip, p.String(), strings.Join(defs, ", "))
}

type c15Cfg struct {
	Pat  int
	Def  int
	Skip string
}

func c15Configs() []c15Cfg {
	var out []c15Cfg
	for pi, p := range c15Patterns() {
		vars := patVars(p)
		for di := range c15Defines() {
			skips := []string{ref.SkipPastLast, ref.SkipNextRow}
			if vars["B"] {
				skips = append(skips, "TO FIRST B", "TO LAST B", "TO B")
			}
			for _, s := range skips {
				out = append(out, c15Cfg{pi, di, s})
			}
		}
	}
	return out
}

type c15Obs struct {
	MN, F, L int
	PK       string
}

type c15 struct{}

func (c15) ID() string { return "C15" }

func (c15) Plan(tier string) []fw.Unit {
	us := planEnum("C15", tier, 1, 32)
	for sh := 0; sh < 8; sh++ {
		us = append(us, fw.Unit{Check: "C15", Kind: "within", Tier: tier, Spec: fw.Spec(enumSpec{Shard: sh, Shards: 8})})
	}
	us = append(us, fw.Unit{Check: "C15", Kind: "empty-rows", Tier: tier, Spec: fw.Spec(enumSpec{})})
	us = append(us, fw.Unit{Check: "C15", Kind: "missing-column", Tier: tier, Spec: fw.Spec(enumSpec{})})
	return append(us, fw.Unit{Check: "C15", Kind: "key-pairs", Tier: tier, Spec: fw.Spec(enumSpec{})})
}

// c15EmptyRows: an event without any field is an event like any other (its columns are NULL): inserting {} at a
// position must give exactly what inserting a row with one irrelevant column gives there. No PARTITION BY, so the
// event sits in the one sequence.
func c15EmptyRows() fw.Result {
	a := newAcc("C15", "cep-empty-rows")
	pats := c15Patterns()
	d := c15Defines()[0]
	for pi, p := range pats {
		if pi%2 == 1 {
			continue
		}
		sql := strings.Replace(c15SQL(p, d, ref.SkipPastLast, false), "PARTITION BY k ", "", 1)
		for L := 1; L <= 3; L++ {
			sequences(L, 3, func(vals []int) {
				vals = append([]int(nil), vals...)
				for pos := 0; pos <= L; pos++ {
					run := func(filler Row) (string, string) {
						r := detExec(sql, detOpts{Eager: true, Horizon: 50 * vtime.Millisecond}, func(e *Env) {
							ts := 0
							for i := 0; i <= L; i++ {
								if i == pos {
									ts++
									e.Emit(copyVal(filler).(map[string]any))
								}
								if i < L {
									ts++
									e.Emit(Row{"k": "a", "id": i + 1, "ts": ts, "v": float64(vals[i] + 1)})
								}
							}
						})
						var got []string
						for _, b := range r.Batches {
							for _, row := range b {
								got = append(got, fmt.Sprintf("%v:%v-%v", row["mn"], row["f"], row["l"]))
							}
						}
						return strings.Join(got, ","), r.ExecErr + r.Status.String()
					}
					g1, e1 := run(Row{})
					g2, e2 := run(Row{"zz": 1})
					a.r.Evaluations += 2
					a.r.States++
					a.r.Nontrivial++
					a.outcome(g1)
					if g1 != g2 || e1 != e2 {
						a.fail("C15|empty-row-not-an-event|pattern="+p.String(), fmt.Sprintf("%s over v=%v with a field-less event inserted at position %d reports %q (%s); with a row carrying only an unrelated column there it reports %q (%s)", sql, vals, pos, g1, e1, g2, e2),
							map[string]any{"sql": sql, "values": vals, "position": pos}, g2, g1)
						return
					}
				}
			})
		}
	}
	a.sample(map[string]any{"filler_rows": []string{"{}", "{zz:1}"}, "max_len": 3})
	return a.result()
}

// c15Within: WITHIN '2s' over events one second apart (a match spans at most three rows): every pattern x the
// first two DEFINE templates x SKIP PAST LAST ROW / TO NEXT ROW x all value streams; the reference admits a run
// only if last.ts - first.ts <= WITHIN and takes the longest admitted run per start.
func c15Within(u fw.Unit) fw.Result {
	sp := parseEnum(u)
	a := newAcc("C15", "cep-within")
	pats := c15Patterns()
	defs := c15Defines()
	maxL := 5
	if u.Tier == "thorough" {
		maxL = 6
	}
	base := sched.Base.UnixMilli() + 3600*1000 // one hour ahead of the virtual clock: the wall-clock sweeper never applies
	ci := 0
	for _, p := range pats {
		for di := 0; di < 2 && di < len(defs); di++ {
			for _, skip := range []string{ref.SkipPastLast, ref.SkipNextRow} {
				ci++
				if ci%sp.Shards != sp.Shard {
					continue
				}
				d := defs[di]
				sql := strings.Replace(c15SQL(p, d, skip, false), "PATTERN ("+p.String()+")", "PATTERN ("+p.String()+") WITHIN '2s'", 1)
				rejected := false
				for L := 1; L <= maxL && !rejected; L++ {
					sequences(L, 3, func(vals []int) {
						if rejected {
							return
						}
						vals = append([]int(nil), vals...)
						ev := c15Events(vals, "a", 0)
						for i := range ev {
							ev[i].TS = base + int64(i+1)*1000
						}
						want, defined := ref.ExpectedMatchesWithin(p, d.Fn, ev, skip, 2000)
						r := detExec(sql, detOpts{Eager: true, Horizon: 50 * vtime.Millisecond}, func(e *Env) {
							for _, x := range ev {
								e.Emit(Row{"k": "a", "id": x.ID, "ts": x.TS, "v": x.V, "n": x.V - 4})
							}
						})
						a.r.Evaluations++
						a.r.Transitions += int64(r.Steps)
						cs := map[string]any{"sql": sql, "values": ev}
						if r.ExecErr != "" {
							a.fail(fmt.Sprintf("C15|rejected|within|pattern=%s", p.String()), "statement rejected: "+r.ExecErr, cs, nil, nil)
							rejected = true
							return
						}
						if r.Status != sched.StatusOK {
							a.fail("C15|abort", r.Status.String()+" "+firstLine(r.Panic), cs, nil, nil)
							return
						}
						if !defined {
							a.r.Skipped++
							return
						}
						a.r.States++
						if len(want) > 0 {
							a.r.Nontrivial++
						}
						var got []c15Obs
						for _, b := range r.Batches {
							for _, row := range b {
								pk, _ := row["pk"].(string)
								got = append(got, c15Obs{toInt(row["mn"]), toInt(row["f"]), toInt(row["l"]), pk})
							}
						}
						wantObs := c15ExpectedObs(want, ev, "a")
						a.outcome(fmt.Sprint(got))
						if fmt.Sprint(got) != fmt.Sprint(wantObs) {
							kind := "wrong-match"
							if len(got) < len(wantObs) {
								kind = "match-omitted"
							} else if len(got) > len(wantObs) {
								kind = "extra-match"
							}
							a.fail(fmt.Sprintf("C15|within|%s|pattern=%s|define=%s|skip=%s", kind, p.String(), d.Name, skip),
								fmt.Sprintf("%s over v=%v (one second apart): reported (mn,first,last) %v, reference %v", sql, vals1(ev), got, wantObs), cs, wantObs, got)
						}
					})
				}
			}
		}
	}
	a.sample(map[string]any{"within": "2s", "event_spacing": "1s", "max_len": maxL})
	return a.result()
}

// c15KeyPairs: PARTITION BY isolates every pair of distinct key tuples. Rows t1(v=1) t2(v=1) t1(v=2) t2(v=2)
// with PATTERN (A B), A: v = 1, B: v = 2 match once per partition; merged partitions would match once in all.
func c15KeyPairs() fw.Result {
	a := newAcc("C15", "cep-key-pairs")
	comps := []any{"", "|", "a", "a|1:a", "1:a|", "1", 1, nil, true, "string|a", 16777216.0, 16777217.0}
	var uni [][]any
	for _, x := range comps {
		for _, y := range comps[:6] {
			uni = append(uni, []any{x, y})
		}
	}
	sql := "SELECT * FROM stream MATCH_RECOGNIZE (PARTITION BY a, b ORDER BY ts MEASURES FIRST(id) AS f, LAST(id) AS l ONE ROW PER MATCH PATTERN (A B) DEFINE A AS v = 1, B AS v = 2)"
	// plus the tuples that collide under any "join the components with a middle" encoding
	nUni := len(uni)
	mp := collisionPairs()
	for _, pr := range mp {
		uni = append(uni, []any{pr[0][0], pr[0][1]}, []any{pr[1][0], pr[1][1]})
	}
	for i := 0; i < len(uni); i++ {
		for j := i + 1; j < len(uni); j++ {
			if j >= nUni && !(i == j-1 && (j-nUni)%2 == 1) {
				continue // the middle tuples are only compared with their own partner
			}
			var rows []Row
			for n := 0; n < 4; n++ {
				t := uni[[]int{i, j}[n%2]]
				rows = append(rows, Row{"id": n + 1, "ts": int64(1000 + n), "v": 1 + n/2, "a": t[0], "b": t[1]})
			}
			r := detExec(sql, detOpts{Eager: true, Horizon: 100 * vtime.Millisecond}, func(e *Env) {
				for _, row := range rows {
					e.Emit(row)
				}
			})
			a.r.Evaluations++
			a.r.States++
			a.r.Transitions += int64(r.Steps)
			a.r.Nontrivial++
			cs := map[string]any{"sql": sql, "rows": rows}
			if r.ExecErr != "" || r.Status != sched.StatusOK {
				a.fail("C15|key-pairs|exec", r.ExecErr+" "+r.Status.String()+" "+firstLine(r.Panic), cs, nil, nil)
				continue
			}
			var got []string
			for _, b := range r.Batches {
				for _, row := range b {
					got = append(got, fmt.Sprintf("%v-%v", row["f"], row["l"]))
				}
			}
			sort.Strings(got)
			a.outcome(strings.Join(got, ","))
			if strings.Join(got, ",") != "1-3,2-4" {
				a.fail("C15|key-pairs|partitions-not-isolated", fmt.Sprintf("%s: partition keys %s and %s fed alternately give matches %v, reference [1-3 2-4]", sql, js(uni[i]), js(uni[j]), got), cs, "1-3,2-4", got)
			}
		}
	}
	a.sample(map[string]any{"sql": sql, "component_values": fmt.Sprint(comps), "tuples": len(uni)})
	return a.result()
}

func c15Events(vals []int, key string, idBase int) []ref.MREvent {
	out := make([]ref.MREvent, len(vals))
	for i, x := range vals {
		out[i] = ref.MREvent{ID: idBase + i + 1, V: float64(x + 1)}
	}
	return out
}

func c15ExpectedObs(ms []ref.MRMatch, ev []ref.MREvent, key string) []c15Obs {
	var out []c15Obs
	for i, m := range ms {
		out = append(out, c15Obs{MN: i + 1, F: ev[m.Start].ID, L: ev[m.End-1].ID, PK: key})
	}
	return out
}

func (c15) Run(u fw.Unit) fw.Result {
	if u.Kind == "key-pairs" {
		return c15KeyPairs()
	}
	if u.Kind == "within" {
		return c15Within(u)
	}
	if u.Kind == "empty-rows" {
		return c15EmptyRows()
	}
	if u.Kind == "missing-column" {
		return c15MissingColumn()
	}
	sp := parseEnum(u)
	a := newAcc("C15", "cep")
	pats := c15Patterns()
	defs := c15Defines()
	maxL := 5
	if u.Tier == "thorough" {
		maxL = 7
	}
	cfgs := c15Configs()
	for ci, cfg := range cfgs {
		if ci%sp.Shards != sp.Shard {
			continue
		}
		p, d := pats[cfg.Pat], defs[cfg.Def]
		sql := c15SQL(p, d, cfg.Skip, false)
		sqlAll := c15SQL(p, d, cfg.Skip, true)
		idx := 0
		rejected := false
		for L := 1; L <= maxL && !rejected; L++ {
			sequences(L, 3, func(vals []int) {
				if rejected {
					return
				}
				idx++
				vals = append([]int(nil), vals...)
				ev := c15Events(vals, "a", 0)
				want, defined := ref.ExpectedMatches(p, d.Fn, ev, cfg.Skip)
				feed := func(e *Env) {
					for i, x := range ev {
						e.Emit(Row{"k": "a", "id": x.ID, "ts": i + 1, "v": x.V, "n": x.V - 4})
					}
				}
				r := detExec(sql, detOpts{Eager: true, Horizon: 50 * vtime.Millisecond}, feed)
				a.r.Evaluations++
				a.r.Transitions += int64(r.Steps)
				cs := map[string]any{"sql": sql, "values": ev}
				if r.ExecErr != "" {
					a.fail(fmt.Sprintf("C15|rejected|pattern=%s", p.String()), "statement rejected: "+r.ExecErr, cs, nil, nil)
					rejected = true
					return
				}
				if r.Status != sched.StatusOK {
					a.fail("C15|abort", r.Status.String()+" "+firstLine(r.Panic), cs, nil, nil)
					return
				}
				if !defined {
					a.r.Skipped++
					return
				}
				a.r.States++
				if len(want) > 0 {
					a.r.Nontrivial++
				}
				var got []c15Obs
				for _, b := range r.Batches {
					for _, row := range b {
						pk, _ := row["pk"].(string)
						got = append(got, c15Obs{toInt(row["mn"]), toInt(row["f"]), toInt(row["l"]), pk})
					}
				}
				wantObs := c15ExpectedObs(want, ev, "a")
				a.outcome(fmt.Sprint(got))
				if fmt.Sprint(got) != fmt.Sprint(wantObs) {
					kind := "wrong-match"
					if len(got) < len(wantObs) {
						kind = "match-omitted"
					} else if len(got) > len(wantObs) {
						kind = "extra-match"
					}
					a.fail(fmt.Sprintf("C15|%s|pattern=%s|define=%s|skip=%s", kind, p.String(), d.Name, cfg.Skip),
						fmt.Sprintf("%s over v=%v: reported (mn,first,last) %v, reference %v", sql, vals1(ev), got, wantObs), cs, wantObs, got)
					return
				}
				// measures calling one function twice with different columns
				mi := 0
				for _, b := range r.Batches {
					for _, row := range b {
						m := want[mi]
						mi++
						dl, ok1 := num(row["dl"])
						df, ok2 := num(row["df"])
						wl, wf := float64(ev[m.End-1].ID)*10-ev[m.End-1].V, float64(ev[m.Start].ID)*10+ev[m.Start].V
						if !ok1 || !ok2 || dl != wl || df != wf {
							a.fail("C15|measures|same-function-two-columns", fmt.Sprintf("%s over v=%v: match %d reports LAST(id)*10-LAST(v)=%v, FIRST(id)*10+FIRST(v)=%v; reference %v, %v", sql, vals1(ev), mi, row["dl"], row["df"], wl, wf), cs, []float64{wl, wf}, []any{row["dl"], row["df"]})
							return
						}
						// aggregates over the whole match, on the all-negative column n = v - 4
						mx, mn, sum := ev[m.Start].V-4, ev[m.Start].V-4, 0.0
						for _, e := range ev[m.Start:m.End] {
							n := e.V - 4
							if n > mx {
								mx = n
							}
							if n < mn {
								mn = n
							}
							sum += n
						}
						gmx, o1 := num(row["mxn"])
						gmn, o2 := num(row["mnn"])
						gs, o3 := num(row["sn"])
						gc, o4 := num(row["cn"])
						if !o1 || !o2 || !o3 || !o4 || gmx != mx || gmn != mn || gs != sum || int(gc) != m.End-m.Start {
							a.fail("C15|measures|aggregates-over-the-match", fmt.Sprintf("%s over v=%v: match %d (rows %d..%d) reports MAX(n)=%v MIN(n)=%v SUM(n)=%v COUNT(*)=%v; reference %v %v %v %d", sql, vals1(ev), mi, m.Start+1, m.End, row["mxn"], row["mnn"], row["sn"], row["cn"], mx, mn, sum, m.End-m.Start), cs, []float64{mx, mn, sum}, []any{row["mxn"], row["mnn"], row["sn"], row["cn"]})
							return
						}
					}
				}
				// ALL ROWS PER MATCH: classification of each reported run must be a valid labeling
				if idx%4 == 0 && len(want) > 0 {
					r2 := detExec(sqlAll, detOpts{Eager: true, Horizon: 50 * vtime.Millisecond}, feed)
					a.r.Evaluations++
					if r2.ExecErr != "" || r2.Status != sched.StatusOK {
						a.fail("C15|all-rows|exec", r2.ExecErr+" "+r2.Status.String(), map[string]any{"sql": sqlAll, "values": ev}, nil, nil)
						return
					}
					byMN := map[int][]Row{}
					for _, b := range r2.Batches {
						for _, row := range b {
							byMN[toInt(row["mn"])] = append(byMN[toInt(row["mn"])], row)
						}
					}
					for i, m := range want {
						rows := byMN[i+1]
						sort.Slice(rows, func(x, y int) bool { return toInt(rows[x]["id"]) < toInt(rows[y]["id"]) })
						var labels []string
						var ids []int
						for _, row := range rows {
							cl, _ := row["cl"].(string)
							labels = append(labels, cl)
							ids = append(ids, toInt(row["id"]))
						}
						var wantIDs []int
						for j := m.Start; j < m.End; j++ {
							wantIDs = append(wantIDs, ev[j].ID)
						}
						if !intsEq(ids, wantIDs) || !m.LabelingValid(labels) {
							a.fail(fmt.Sprintf("C15|all-rows|classification|pattern=%s|define=%s", p.String(), d.Name),
								fmt.Sprintf("%s over v=%v: match %d rows %v classified %v; valid labelings of rows %v: %v", sqlAll, vals1(ev), i+1, ids, labels, wantIDs, m.Labelings), map[string]any{"sql": sqlAll, "values": ev}, m.Labelings, labels)
							return
						}
					}
				}
				// two interleaved partitions: partition a's matches must not depend on partition b
				if idx%6 == 0 && L >= 2 {
					evB := c15Events(reverseInts(vals), "b", 100)
					wantB, definedB := ref.ExpectedMatches(p, d.Fn, evB, cfg.Skip)
					if !definedB {
						return
					}
					r3 := detExec(sql, detOpts{Eager: true, Horizon: 50 * vtime.Millisecond}, func(e *Env) {
						ts := 0
						for i := range ev {
							ts++
							e.Emit(Row{"k": "a", "id": ev[i].ID, "ts": ts, "v": ev[i].V, "n": ev[i].V - 4})
							ts++
							e.Emit(Row{"k": "b", "id": evB[i].ID, "ts": ts, "v": evB[i].V, "n": evB[i].V - 4})
						}
					})
					a.r.Evaluations++
					var gotA, gotB []c15Obs
					for _, b := range r3.Batches {
						for _, row := range b {
							pk, _ := row["pk"].(string)
							o := c15Obs{toInt(row["mn"]), toInt(row["f"]), toInt(row["l"]), pk}
							if o.F > 100 {
								gotB = append(gotB, o)
							} else {
								gotA = append(gotA, o)
							}
						}
					}
					wa, wb := c15ExpectedObs(want, ev, "a"), c15ExpectedObs(wantB, evB, "b")
					if fmt.Sprint(gotA) != fmt.Sprint(wa) || fmt.Sprint(gotB) != fmt.Sprint(wb) {
						a.fail(fmt.Sprintf("C15|interleaved-partitions|pattern=%s|skip=%s", p.String(), cfg.Skip),
							fmt.Sprintf("%s, partitions interleaved a=%v b=%v: partition a reports %v (alone: %v), partition b reports %v (alone: %v)", sql, vals1(ev), vals1(evB), gotA, wa, gotB, wb),
							map[string]any{"sql": sql, "a": ev, "b": evB}, fmt.Sprint(wa, wb), fmt.Sprint(gotA, gotB))
						return
					}
				}
				if ci == 7 && idx == 30 {
					a.sample(map[string]any{"sql": sql, "v": vals1(ev), "matches(mn,first_id,last_id)": got})
				}
			})
		}
	}
	return a.result()
}

func vals1(ev []ref.MREvent) []float64 {
	out := make([]float64, len(ev))
	for i, e := range ev {
		out[i] = e.V
	}
	return out
}

func reverseInts(a []int) []int {
	out := make([]int, len(a))
	for i, x := range a {
		out[len(a)-1-i] = x
	}
	return out
}

func (c15) Describe(tier string) fw.Description {
	return fw.Description{
		Level: "model_checking",
		Rule: "(WITHIN: every pattern x 2 DEFINE templates x 2 SKIP modes with WITHIN 2s over events one second apart, reference = longest run per start whose span fits; partition isolation: pairwise search over typed two-column partition keys and over key tuples that collide under join-with-a-middle and faulty-escaping encoders) " + fmt.Sprint(len(c15Patterns())) + " patterns over <= 4 variables (sequence, alternation, ?, *, +, {n}, {n,m} also with m >= n+2, {n} next to a variable-length part, groups, PERMUTE of two and of three variables) x " + fmt.Sprint(len(c15Defines())) + " DEFINE templates (constants, PREV, overlapping conditions, FIRST()/COUNT() aggregates, MAX/MIN/SUM over an all-negative column, FIRST(A.v)/LAST(A.v) qualified by a variable, one function called twice with different arguments - also in MEASURES; undefined variable always true) x every AFTER MATCH SKIP mode (PAST LAST ROW, TO NEXT ROW, TO FIRST B, TO LAST B, TO B) x all event streams of length 1..L over v in {1,2,3}; executed on the real engine (Emit, flush at Stop) and compared with a brute-force reference (all valid (start,end,labeling) by backtracking; leftmost start, longest end, SKIP rule, MATCH_NUMBER 1,2,..; FIRST(id)/LAST(id)); every 4th stream also with ALL ROWS PER MATCH (CLASSIFIER() must be one of the valid labelings), every 6th also with a second interleaved partition (each partition must report what it reports alone); non-trivial = at least one expected match",
		Bounds:      map[string]any{"max_len": map[string]int{"quick": 5, "thorough": 7}, "values": []int{1, 2, 3}, "patterns": len(c15Patterns())},
		Assumptions: []string{"SKIP TO FIRST/LAST X cases where the target is ambiguous among valid labelings or equals the match start are skipped and counted", "WITHIN and the memory guards are not exercised (the property excludes the guarded regime)", "PREV navigates the match so far (property text)"},
	}
}

func init() { fw.Register(c15{}) }
