package checks

import (
	"fmt"
	"reflect"
	"strings"

	"verifharness/explore"
	"verifharness/fw"
	"verifharness/ref"

	"github.com/rulego/streamsql"
	"github.com/rulego/streamsql/logger"
	"github.com/rulego/streamsql/verifrt/sched"
	vtime "github.com/rulego/streamsql/verifrt/time"
)

// C05: non-aggregate queries are a stateless, ordered, row-wise filter and projection.

type c05Item struct {
	SQL string
	// Apply writes the expected output of the item into out; ok=false: the reference declines
	Apply func(r Row, out map[string]any, alt map[string][]any)
}

func getPath(r Row, path ...string) any {
	var cur any = r
	for _, p := range path {
		m, ok := cur.(map[string]any)
		if !ok {
			return nil
		}
		v, ok := m[p]
		if !ok {
			return nil
		}
		cur = v
	}
	return cur
}

var c05Items = []c05Item{
	{"*", func(r Row, out map[string]any, alt map[string][]any) {
		for k, v := range r {
			if _, set := out[k]; !set {
				out[k] = v
			}
		}
	}},
	{"a", func(r Row, out map[string]any, _ map[string][]any) { out["a"] = getPath(r, "a") }},
	{"a AS x", func(r Row, out map[string]any, _ map[string][]any) { out["x"] = getPath(r, "a") }},
	{"d.x", func(r Row, out map[string]any, _ map[string][]any) { out["d.x"] = getPath(r, "d", "x") }},
	{"d.x AS y", func(r Row, out map[string]any, _ map[string][]any) { out["y"] = getPath(r, "d", "x") }},
	{"'lit' AS l", func(r Row, out map[string]any, _ map[string][]any) { out["l"] = "lit" }},
	{"a + 1 AS e", func(r Row, out map[string]any, _ map[string][]any) {
		if f, ok := ref.ToNum(getPath(r, "a")); ok {
			out["e"] = f + 1
		} else {
			out["e"] = nil
		}
	}},
	{"upper(s) AS u", func(r Row, out map[string]any, alt map[string][]any) {
		if s, ok := getPath(r, "s").(string); ok {
			out["u"] = strings.ToUpper(s)
		} else {
			out["u"] = nil
			alt["u"] = []any{""} // upper of NULL: the docs do not say; NULL or '' accepted
		}
	}},
	{"b", func(r Row, out map[string]any, _ map[string][]any) { out["b"] = getPath(r, "b") }},
	// quoted text holding the other quote character, or the ':' the engine uses internally between item and alias
	{"'5\" pipe' AS part", func(r Row, out map[string]any, _ map[string][]any) { out["part"] = "5\" pipe" }},
	{"\"it's fine\" AS note", func(r Row, out map[string]any, _ map[string][]any) { out["note"] = "it's fine" }},
	{"'a:b' AS c1", func(r Row, out map[string]any, _ map[string][]any) { out["c1"] = "a:b" }},
	// a column whose name has upper-case letters (every row lacks the lower-case spelling)
	{"cpuLoad", func(r Row, out map[string]any, _ map[string][]any) { out["cpuLoad"] = getPath(r, "cpuLoad") }},
	{"cpuLoad * 2 AS cl2", func(r Row, out map[string]any, _ map[string][]any) {
		if f, ok := ref.ToNum(getPath(r, "cpuLoad")); ok {
			out["cl2"] = f * 2
		} else {
			out["cl2"] = nil
		}
	}},
}

type c05Where struct {
	SQL  string
	Pass func(r Row) bool
}

func numGT(v any, x float64) bool { f, ok := ref.ToNum(v); return ok && f > x }
func numLT(v any, x float64) bool { f, ok := ref.ToNum(v); return ok && f < x }

var c05Wheres = []c05Where{
	{"", func(r Row) bool { return true }},
	{"a > 1", func(r Row) bool { return numGT(getPath(r, "a"), 1) }},
	{"s = 'x'", func(r Row) bool { return getPath(r, "s") == "x" }},
	{"d.x > 0", func(r Row) bool { return numGT(getPath(r, "d", "x"), 0) }},
	{"a > 1 AND b < 2", func(r Row) bool { return numGT(getPath(r, "a"), 1) && numLT(getPath(r, "b"), 2) }},
	{"a IS NULL", func(r Row) bool { return getPath(r, "a") == nil }},
	{"s LIKE 'a%bc'", func(r Row) bool { v, ok := getPath(r, "s").(string); return ok && ref.Like(v, "a%bc") }},
	{"s LIKE '%b_c%' AND a > 0", func(r Row) bool {
		v, ok := getPath(r, "s").(string)
		return ok && ref.Like(v, "%b_c%") && numGT(getPath(r, "a"), 0)
	}},
	{"cpuLoad > 1", func(r Row) bool { return numGT(getPath(r, "cpuLoad"), 1) }},
	// AND binds tighter than OR (no parentheses)
	// (over columns that are never NULL in an ordering comparison: NULL there is C06's known finding)
	{"cpuLoad > 2 OR b < 2 AND s = 'x'", func(r Row) bool {
		return numGT(getPath(r, "cpuLoad"), 2) || numLT(getPath(r, "b"), 2) && getPath(r, "s") == "x"
	}},
	// text comparisons with the row's text below, at and above the bound
	{"s >= 'abc'", func(r Row) bool { v, ok := getPath(r, "s").(string); return ok && v >= "abc" }},
	{"s <= 'abc' AND b > 0", func(r Row) bool { v, ok := getPath(r, "s").(string); return ok && v <= "abc" && numGT(getPath(r, "b"), 0) }},
	{"s > 'abc' OR s < 'abbc'", func(r Row) bool { v, ok := getPath(r, "s").(string); return ok && (v > "abc" || v < "abbc") }},
}

func c05Rows() []Row {
	var rows []Row
	as := []any{2, 0, 1.5, nil, c04Missing}
	ds := []any{map[string]any{"x": 1}, map[string]any{"x": -1, "z": "q"}, map[string]any{}, c04Missing}
	ss := []any{"x", "y", nil, "abbc", "a-bbc", "abc", "abxbxc", "bbc"}
	i := 0
	for _, a := range as {
		for _, d := range ds {
			for _, s := range ss {
				// "__seq__" / "_u": ordinary user columns whose names look like the engine's internal placeholders
				// "x": a top-level column named like the last segment of the nested item d.x (never a stand-in for it)
				r := Row{"b": 1 + (i%2)*2, "flag": i%3 == 0, "__seq__": i, "_u": "u", "cpuLoad": i % 4, "x": "top-level"}
				i++
				if a != c04Missing {
					r["a"] = a
				}
				if d != c04Missing {
					r["d"] = d
				}
				r["s"] = s
				rows = append(rows, r)
			}
		}
	}
	// an empty and a nil row in the middle of the stream: every later row must still be processed
	mid := len(rows) / 2
	rows = append(rows[:mid], append([]Row{{}, nil, {"a": 5, "b": 1, "s": "x", "cpuLoad": 1}}, rows[mid:]...)...)
	return rows
}

type c05Prog struct {
	Items []int
	Where int
}

func (p c05Prog) SQL() string {
	var it []string
	for _, i := range p.Items {
		it = append(it, c05Items[i].SQL)
	}
	s := "SELECT " + strings.Join(it, ", ") + " FROM stream"
	if c05Wheres[p.Where].SQL != "" {
		s += " WHERE " + c05Wheres[p.Where].SQL
	}
	return s
}

func c05Progs(tier string) []c05Prog {
	var out []c05Prog
	n := len(c05Items)
	maxSize := 2
	if tier == "thorough" {
		maxSize = 3
	}
	var rec func(cur []int)
	rec = func(cur []int) {
		if len(cur) > 0 {
			for w := range c05Wheres {
				out = append(out, c05Prog{append([]int(nil), cur...), w})
			}
		}
		if len(cur) == maxSize {
			return
		}
		for i := 0; i < n; i++ {
			dup := false
			for _, c := range cur {
				if c == i {
					dup = true
				}
				// output-name clashes (a / *) are legal but make the expectation order-dependent: skip '*' with others except expressions
			}
			if dup {
				continue
			}
			if c05Items[i].SQL == "*" && len(cur) > 0 {
				continue // the grammar (rsql/parser.go parseSelect) knows '*' only as the first item
			}
			rec(append(cur, i))
		}
	}
	rec(nil)
	return out
}

// c05Expect returns the expected result row (nil = filtered out) and accepted alternatives per column.
func c05Expect(p c05Prog, r Row) (map[string]any, map[string][]any) {
	if !c05Wheres[p.Where].Pass(r) {
		return nil, nil
	}
	out := map[string]any{}
	alt := map[string][]any{}
	// explicit items first, '*' fills the rest
	for _, i := range p.Items {
		if c05Items[i].SQL != "*" {
			c05Items[i].Apply(r, out, alt)
		}
	}
	for _, i := range p.Items {
		if c05Items[i].SQL == "*" {
			c05Items[i].Apply(r, out, alt)
		}
	}
	return out, alt
}

func valEq(got, want any) bool {
	if want == nil || got == nil {
		return want == nil && got == nil
	}
	if wf, ok := num(want); ok {
		gf, ok2 := num(got)
		return ok2 && ref.Close(gf, wf)
	}
	return reflect.DeepEqual(got, want)
}

func c05RowEq(got Row, want map[string]any, alt map[string][]any) (bool, string) {
	if (got == nil) != (want == nil) {
		return false, "presence"
	}
	if got == nil {
		return true, ""
	}
	for k, w := range want {
		g, ok := got[k]
		if !ok {
			return false, "missing-column " + k
		}
		if valEq(g, w) {
			continue
		}
		okAlt := false
		for _, a := range alt[k] {
			if valEq(g, a) {
				okAlt = true
			}
		}
		if !okAlt {
			return false, "column " + k
		}
	}
	for k := range got {
		if _, ok := want[k]; !ok {
			return false, "extra-column " + k
		}
	}
	return true, ""
}

type c05 struct{}

func (c05) ID() string { return "C05" }

func (c05) Plan(tier string) []fw.Unit {
	shards := 16
	var us []fw.Unit
	for s := 0; s < shards; s++ {
		us = append(us, fw.Unit{Check: "C05", Kind: "enum", Tier: tier, Spec: fw.Spec(enumSpec{Shard: s, Shards: shards})})
	}
	for s := 0; s < 8; s++ {
		us = append(us, fw.Unit{Check: "C05", Kind: "paths", Tier: tier, Spec: fw.Spec(enumSpec{Shard: s, Shards: 8})})
	}
	us = append(us, fw.Unit{Check: "C05", Kind: "from-alias", Tier: tier, Spec: fw.Spec(enumSpec{})})
	bound := 2 // (raised from 1: a lock-upgrade race in Trigger needs the clock to fire a due timer and one preemption)
	if tier == "thorough" {
		bound = 3
	}
	for i, sc := range c05Scenarios() {
		us = append(us, fw.Unit{Check: "C05", Kind: "sched", Tier: tier, Spec: fw.Spec(schedSpec{Scn: i, Name: sc.Name, Items: []explore.Item{{}}, Bound: bound, Budget: 20000})})
	}
	return us
}

func c05ItemClass(p c05Prog, reason string) string {
	var cls []string
	for _, i := range p.Items {
		s := c05Items[i].SQL
		switch {
		case s == "*":
			cls = append(cls, "star")
		case strings.Contains(s, "("):
			cls = append(cls, "func")
		case strings.Contains(s, "+"):
			cls = append(cls, "arith")
		case strings.Contains(s, "'"):
			cls = append(cls, "literal")
		case strings.Contains(s, "."):
			cls = append(cls, "nested")
		default:
			cls = append(cls, "col")
		}
	}
	return strings.Join(cls, ",")
}

func (c05) Run(u fw.Unit) fw.Result {
	if u.Kind == "sched" {
		return runSched("C05", u, c05Scenarios())
	}
	if u.Kind == "paths" {
		return c05Paths(u)
	}
	if u.Kind == "from-alias" {
		return c05FromAlias()
	}
	sp := parseEnum(u)
	a := newAcc("C05", "sync-projection")
	progs := c05Progs(u.Tier)
	rows := c05Rows()
	for pi, p := range progs {
		if pi%sp.Shards != sp.Shard {
			continue
		}
		sql := p.SQL()
		// path 1: EmitSync over all rows in order on one instance (history = all earlier rows)
		res, execErr, st, pv := syncEval(sql, rows)
		cs := map[string]any{"sql": sql}
		if execErr != "" || st != sched.StatusOK {
			a.fail("C05|exec|"+c05ItemClass(p, ""), execErr+" "+st.String()+" "+firstLine(pv), cs, nil, nil)
			continue
		}
		// path 2: Emit + sync sink + channel, eager
		var chanBatches []Batch
		r2 := detExec(sql, detOpts{Eager: true, Horizon: 150 * vtime.Millisecond, Setup: nil}, func(e *Env) {
			ch := e.S.ToChannel()
			for _, row := range rows {
				if row == nil {
					e.Emit(nil) // a nil map is a legal (empty) row
				} else {
					e.Emit(copyVal(row).(map[string]any))
				}
				for {
					select {
					case b := <-ch:
						chanBatches = append(chanBatches, copyBatch(b))
						continue
					default:
					}
					break
				}
			}
		})
		var sinkRows, chanRows []Row
		for _, b := range r2.Batches {
			sinkRows = append(sinkRows, b...)
		}
		for _, b := range chanBatches {
			chanRows = append(chanRows, b...)
		}
		var syncRows []Row
		for ri, row := range rows {
			a.r.Evaluations++
			a.r.States++
			a.r.Transitions++
			want, alt := c05Expect(p, row)
			if want != nil {
				a.r.Nontrivial++
			}
			got := res[ri].Row
			if got != nil {
				syncRows = append(syncRows, got)
			}
			if ok, why := c05RowEq(got, want, alt); !ok {
				a.fail(fmt.Sprintf("C05|projection|items=%s|where=%q|%s", c05ItemClass(p, why), c05Wheres[p.Where].SQL, strings.SplitN(why, " ", 2)[0]),
					fmt.Sprintf("%s on %s: EmitSync gives %s (err %q), reference %s [%s]", sql, js(row), js(got), res[ri].Err, js(want), why), map[string]any{"sql": sql, "row": row}, want, got)
			}
			// statelessness: the same row alone on a fresh instance
			if ri%7 == 3 {
				solo, _, _, _ := syncEval(sql, []Row{row})
				a.r.Evaluations++
				if len(solo) == 1 && js(solo[0].Row) != js(got) {
					a.fail("C05|history-dependent|items="+c05ItemClass(p, ""), fmt.Sprintf("%s on %s: %s after %d earlier rows, %s alone", sql, js(row), js(got), ri, js(solo[0].Row)), map[string]any{"sql": sql, "row": row}, js(solo[0].Row), js(got))
				}
			}
		}
		a.outcome(js(syncRows))
		// path equality and order
		if js(sinkRows) != js(syncRows) {
			a.fail("C05|path|emit-sink-differs-from-emitsync|items="+c05ItemClass(p, ""), fmt.Sprintf("%s: EmitSync results %s ; Emit+sync sink %s", sql, js(syncRows), js(sinkRows)), cs, js(syncRows), js(sinkRows))
		}
		if js(chanRows) != js(syncRows) {
			a.fail("C05|path|channel-differs-from-emitsync|items="+c05ItemClass(p, ""), fmt.Sprintf("%s: EmitSync results %s ; ToChannel %s", sql, js(syncRows), js(chanRows)), cs, js(syncRows), js(chanRows))
		}
		if pi == 33 {
			a.sample(map[string]any{"sql": sql, "rows": len(rows), "results": len(syncRows)})
		}
	}
	return a.result()
}

// schedule scenarios: one producer, a sync sink, an async sink and a channel reader
func c05Scenarios() []schedScenario {
	var out []schedScenario
	for _, sql := range []string{"SELECT id, a + 1 AS e FROM stream WHERE a > 0", "SELECT * FROM stream"} {
		sql := sql
		out = append(out, schedScenario{Name: "order-" + sql, Params: map[string]any{"sql": sql}, Run: func(ch sched.Chooser, local map[int]bool) (*sched.Result, string, *explore.Failure) {
			var syncSeen, asyncSeen, chanSeen []int
			var execErr string
			res := sched.Run(sched.Config{Chooser: ch, MaxSteps: 50000, Trace: traceFn()}, func() {
				perf := smallPerf("block", 4, 4, 2)
				s := streamsql.New(streamsql.WithCustomPerformance(perf), streamsql.WithLogger(logger.NewDiscardLogger()))
				if err := s.Execute(sql); err != nil {
					execErr = err.Error()
					return
				}
				s.AddSyncSink(func(rows []map[string]any) {
					for _, r := range rows {
						syncSeen = append(syncSeen, toInt(r["id"]))
					}
				})
				s.AddSink(func(rows []map[string]any) {
					for _, r := range rows {
						asyncSeen = append(asyncSeen, toInt(r["id"]))
					}
				})
				out := s.ToChannel()
				stop := make(chan struct{}, 1)
				sched.Go(func() {
					for {
						switch sched.Select(false, sched.Case{Ch: out}, sched.Case{Ch: stop}) {
						case 0:
							b := <-out
							for _, r := range b {
								chanSeen = append(chanSeen, toInt(r["id"]))
							}
						case 1:
							<-stop
							return
						}
					}
				})
				for i := 1; i <= 3; i++ {
					s.Emit(Row{"id": i, "a": i})
				}
				vtime.Sleep(150 * vtime.Millisecond)
				sched.Quiesce()
				stop <- struct{}{}
				s.Stop()
				sched.Quiesce()
			})
			outc := fmt.Sprint(syncSeen, asyncSeen, chanSeen)
			if execErr != "" {
				return res, outc, &explore.Failure{Signature: "C05|sched|exec", What: execErr}
			}
			if res.Status != sched.StatusOK {
				return res, outc, &explore.Failure{Signature: "C05|sched|" + res.Status.String(), What: "execution ended with " + res.Status.String() + " " + firstLine(res.PanicVal) + " live=" + liveDesc(res)}
			}
			want := []int{1, 2, 3}
			if !intsEq(syncSeen, want) {
				return res, outc, &explore.Failure{Signature: "C05|sched|sync-sink-order", What: fmt.Sprintf("sync sink saw %v, emission order %v", syncSeen, want), Observed: syncSeen}
			}
			if !intsEq(chanSeen, want) {
				return res, outc, &explore.Failure{Signature: "C05|sched|channel-order", What: fmt.Sprintf("result channel delivered %v, emission order %v", chanSeen, want), Observed: chanSeen}
			}
			if !intsEq(sortedInts(asyncSeen), want) {
				return res, outc, &explore.Failure{Signature: "C05|sched|async-sink-multiset", What: fmt.Sprintf("async sink saw %v", asyncSeen), Observed: asyncSeen}
			}
			return res, outc, nil
		}})
	}
	// the default overflow strategy (drop) with an input buffer of one row: rows may be dropped, but a row is never
	// delivered twice and the delivered ones keep their emission order
	for _, strat := range []string{"drop", "expand"} {
		strat := strat
		sql := "SELECT id, a + 1 AS e FROM stream WHERE a > 0"
		out = append(out, schedScenario{Name: "full-buffer-" + strat, Params: map[string]any{"sql": sql, "strategy": strat, "data_buffer": 1}, Run: func(ch sched.Chooser, local map[int]bool) (*sched.Result, string, *explore.Failure) {
			var syncSeen []int
			var execErr string
			res := sched.Run(sched.Config{Chooser: ch, MaxSteps: 50000, Trace: traceFn()}, func() {
				perf := smallPerf(strat, 1, 4, 2)
				if strat == "expand" {
					perf.BufferConfig.MaxBufferSize = 2
				}
				s := streamsql.New(streamsql.WithCustomPerformance(perf), streamsql.WithLogger(logger.NewDiscardLogger()))
				if err := s.Execute(sql); err != nil {
					execErr = err.Error()
					return
				}
				s.AddSyncSink(func(rows []map[string]any) {
					for _, r := range rows {
						syncSeen = append(syncSeen, toInt(r["id"]))
					}
				})
				for i := 1; i <= 3; i++ {
					s.Emit(Row{"id": i, "a": i})
				}
				vtime.Sleep(250 * vtime.Millisecond)
				sched.Quiesce()
				s.Stop()
				sched.Quiesce()
			})
			outc := fmt.Sprint(syncSeen)
			if execErr != "" {
				return res, outc, &explore.Failure{Signature: "C05|sched|exec", What: execErr}
			}
			if res.Status != sched.StatusOK {
				return res, outc, &explore.Failure{Signature: "C05|sched|" + res.Status.String(), What: "execution ended with " + res.Status.String() + " " + firstLine(res.PanicVal) + " live=" + liveDesc(res)}
			}
			for i := 1; i < len(syncSeen); i++ {
				if syncSeen[i] <= syncSeen[i-1] {
					return res, outc, &explore.Failure{Signature: "C05|sched|full-buffer|row-twice-or-out-of-order|strategy=" + strat, What: fmt.Sprintf("rows 1,2,3 emitted into an input buffer of one row under strategy %s: the sync sink saw %v", strat, syncSeen), Observed: syncSeen}
				}
			}
			return res, outc, nil
		}})
	}
	return out
}

func (c05) Describe(tier string) fw.Description {
	return fw.Description{
		Level: "model_checking",
		Rule: "(a) all SELECT lists of 1..2 (thorough 3) distinct items, order significant, from {*, a, a AS x, d.x, d.x AS y, 'lit' AS l, a + 1 AS e, upper(s) AS u, b} x 8 WHERE clauses (comparisons, AND, IS NULL, LIKE with inner wildcards), each on 160 rows (ints, floats, strings, bools, NULL, missing, nested maps) through EmitSync on one instance (history = all earlier rows), every 7th row also alone on a fresh instance, and through Emit with a sync sink and the result channel (eager deterministic schedule); oracle: produced iff WHERE true, exactly the selected columns with missing sources as NULL, EmitSync == sink == channel, emission order; (a2) nested access paths of docs/NESTED_FIELD_ACCESS.md (arr[0], arr[-1], out-of-range index, d['x'], ds[1].x, ds[0]['x'], m.n.o, mat[1][0]) as single items and ordered pairs x 5 WHERE clauses over such paths on 360 rows (arrays of length 0/1/3, missing keys, a number where an array is expected), missing sources are NULL; (a3) FROM stream AS s / FROM stream s without a JOIN: qualified and unqualified references in SELECT and WHERE, SELECT *; (b) schedules: 1 producer x 3 rows with a sync sink, an async sink and a channel reader explored with <= bound deviations: sync sink and channel in emission order, async sink as a multiset; three Emits into an input buffer of one row under drop / expand: no row twice, order kept; non-trivial = the row passes the WHERE",
		Bounds:      map[string]any{"items_per_select": map[string]int{"quick": 2, "thorough": 3}, "rows": 160, "where": 8, "sched_bound": map[string]int{"quick": 2, "thorough": 3}},
		Assumptions: []string{"upper(NULL) may be NULL or ''", "block strategy with buffers of 4 in the schedule scenario so that nothing is dropped"},
	}
}

func (c05) Replay(v fw.Violation) (string, bool) {
	m := caseMap(v)
	if _, ok := m["scn"]; ok {
		return replaySched(c05Scenarios(), m)
	}
	return "replay: run `bin/check probe` with the sql and row of the case", false
}

func init() { fw.Register(c05{}) }
