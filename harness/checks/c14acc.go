package checks

import (
	"fmt"
	"math"

	"verifharness/fw"

	"github.com/rulego/streamsql/verifrt/sched"
)

// c14StartReset: the start / reset arguments of acc_*(value, start, reset): a row on which reset holds empties the
// accumulator and stops it (that row is not accumulated, whatever start says); otherwise a row on which start holds,
// or any row once started, is accumulated. Overlapping predicates (both true on one row), resets while idle, two
// resets in a row. All sequences of length <= L over 2 partitions x v in {0,1,2,3}; sync and (every 5th) async.
type c14AccSpec struct {
	col, fn      string
	start, reset func(v float64) bool
	hasReset     bool
}

func c14StartReset(u fw.Unit) fw.Result {
	sp := parseEnum(u)
	a := newAcc("C14", "analytic-start-reset")
	maxL := 4
	if u.Tier == "thorough" {
		maxL = 6
	}
	sql := "SELECT k, acc_sum(v, v > 1, v > 2) OVER (PARTITION BY k) AS s, acc_count(v, v > 1, v > 2) OVER (PARTITION BY k) AS c, " +
		"acc_max(v, v >= 2, v < 1) OVER (PARTITION BY k) AS m, acc_avg(v, v > 0, v == 3) OVER (PARTITION BY k) AS a, " +
		"acc_min(v, v > 1) OVER (PARTITION BY k) AS mn, acc_count(v, v > -1000, v < 1) OVER (PARTITION BY k) AS c2 FROM stream"
	specs := []c14AccSpec{
		{"s", "sum", func(v float64) bool { return v > 1 }, func(v float64) bool { return v > 2 }, true},
		{"c", "count", func(v float64) bool { return v > 1 }, func(v float64) bool { return v > 2 }, true},
		{"m", "max", func(v float64) bool { return v >= 2 }, func(v float64) bool { return v < 1 }, true},
		{"a", "avg", func(v float64) bool { return v > 0 }, func(v float64) bool { return v == 3 }, true},
		{"mn", "min", func(v float64) bool { return v > 1 }, nil, false},
		{"c2", "count", func(v float64) bool { return v > -1000 }, func(v float64) bool { return v < 1 }, true},
	}
	type st struct {
		started bool
		xs      []float64
	}
	idx := 0
	for L := 1; L <= maxL; L++ {
		sequences(L, 8, func(seq []int) {
			idx++
			if idx%sp.Shards != sp.Shard {
				return
			}
			var rows []Row
			for i, x := range seq {
				rows = append(rows, Row{"id": i + 1, "k": []string{"a", "b"}[x/4], "v": float64(x % 4)})
			}
			res, execErr, status, pv := syncEval(sql, rows)
			a.r.Evaluations++
			a.r.States++
			a.r.Nontrivial++
			a.r.Transitions += int64(len(rows))
			cs := map[string]any{"sql": sql, "rows": rows}
			if execErr != "" || status != sched.StatusOK {
				a.fail("C14|start-reset|exec", execErr+" "+status.String()+" "+firstLine(pv), cs, nil, nil)
				return
			}
			state := map[string]*st{}
			for i, row := range rows {
				k, v := row["k"].(string), row["v"].(float64)
				g := res[i].Row
				if g == nil {
					a.fail("C14|start-reset|no-result", fmt.Sprintf("%s: row %d gives no result (%s); rows %s", sql, i+1, res[i].Err, js(rows)), cs, nil, nil)
					return
				}
				for _, spc := range specs {
					key := k + "/" + spc.col
					s := state[key]
					if s == nil {
						s = &st{}
						state[key] = s
					}
					if spc.hasReset && spc.reset(v) {
						s.started, s.xs = false, nil
					} else if s.started || spc.start(v) {
						s.started = true
						s.xs = append(s.xs, v)
					}
					var want any
					sum, mx, mn := 0.0, math.Inf(-1), math.Inf(1)
					for _, x := range s.xs {
						sum += x
						mx = math.Max(mx, x)
						mn = math.Min(mn, x)
					}
					switch spc.fn {
					case "sum":
						want = sum
					case "count":
						want = float64(len(s.xs))
					case "avg":
						if len(s.xs) > 0 {
							want = sum / float64(len(s.xs))
						}
					case "max":
						if len(s.xs) > 0 {
							want = mx
						}
					case "min":
						if len(s.xs) > 0 {
							want = mn
						}
					}
					got, isNum := num(g[spc.col])
					ok := want == nil && g[spc.col] == nil || want != nil && isNum && math.Abs(got-want.(float64)) < 1e-9
					if !ok {
						both := spc.hasReset && spc.reset(v) && spc.start(v)
						a.fail(fmt.Sprintf("C14|start-reset|acc_%s|start-and-reset-on-one-row=%v", spc.fn, both),
							fmt.Sprintf("%s: row %d (k=%s v=%v) column %s = %v, reference %v; rows %s", sql, i+1, k, v, spc.col, g[spc.col], want, js(rows)), cs, want, g[spc.col])
						return
					}
				}
			}
			a.outcome(js(res))
			if idx%5 == 0 {
				r := detExec(sql, detOpts{Eager: true}, func(e *Env) {
					for _, row := range rows {
						e.Emit(copyVal(row).(map[string]any))
					}
				})
				var async []Row
				for _, b := range r.Batches {
					async = append(async, b...)
				}
				var syncRows []Row
				for _, x := range res {
					syncRows = append(syncRows, x.Row)
				}
				if js(async) != js(syncRows) {
					a.fail("C14|start-reset|sync-async-differ", fmt.Sprintf("%s: EmitSync gives %s, Emit gives %s", sql, js(syncRows), js(async)), cs, syncRows, async)
				}
			}
		})
	}
	a.sample(map[string]any{"sql": sql, "values": []float64{0, 1, 2, 3}, "partitions": 2})
	return a.result()
}
