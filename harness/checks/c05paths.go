package checks

import (
	"fmt"
	"reflect"
	"strings"

	"verifharness/fw"
	"verifharness/ref"

	"github.com/rulego/streamsql/verifrt/sched"
)

// C05 (paths): the documented nested access syntax (docs/NESTED_FIELD_ACCESS.md) - dotted paths, array
// indexes incl. negative ones, map keys in brackets, mixed - in SELECT items and WHERE. A source that does
// not exist (missing key, index out of range, indexing a non-array) is NULL.

type c05Step struct {
	Key string
	Idx int
	IsI bool
}

func k(s string) c05Step { return c05Step{Key: s} }
func ix(i int) c05Step   { return c05Step{Idx: i, IsI: true} }

func c05Walk(r Row, steps ...c05Step) any {
	var cur any = map[string]any(r)
	for _, s := range steps {
		rv := reflect.ValueOf(cur)
		if s.IsI {
			if !rv.IsValid() || rv.Kind() != reflect.Slice {
				return nil
			}
			i := s.Idx
			if i < 0 {
				i += rv.Len()
			}
			if i < 0 || i >= rv.Len() {
				return nil
			}
			cur = rv.Index(i).Interface()
			continue
		}
		if !rv.IsValid() || rv.Kind() != reflect.Map || rv.Type().Key().Kind() != reflect.String {
			return nil
		}
		v := rv.MapIndex(reflect.ValueOf(s.Key))
		if !v.IsValid() {
			return nil
		}
		cur = v.Interface()
	}
	return cur
}

type c05PathItem struct {
	SQL, Alias string
	Steps      []c05Step
}

var c05PathItems = []c05PathItem{
	{"arr[0] AS a0", "a0", []c05Step{k("arr"), ix(0)}},
	{"arr[-1] AS al", "al", []c05Step{k("arr"), ix(-1)}},
	{"arr[2] AS a2", "a2", []c05Step{k("arr"), ix(2)}},
	{"d['x'] AS dx", "dx", []c05Step{k("d"), k("x")}},
	{"d[' x '] AS dpad", "dpad", []c05Step{k("d"), k(" x ")}}, // a quoted key keeps its leading and trailing blanks
	{"ds[1].x AS d1x", "d1x", []c05Step{k("ds"), ix(1), k("x")}},
	{"ds[0]['x'] AS d0x", "d0x", []c05Step{k("ds"), ix(0), k("x")}},
	{"m.n.o AS deep", "deep", []c05Step{k("m"), k("n"), k("o")}},
	{"mat[1][0] AS m10", "m10", []c05Step{k("mat"), ix(1), ix(0)}},
	{"id", "id", []c05Step{k("id")}},
}

type c05PathWhere struct {
	SQL   string
	Steps []c05Step
	Op    string
	Lit   float64
}

var c05PathWheres = []c05PathWhere{
	{"", nil, "", 0},
	{"arr[0] > 1", []c05Step{k("arr"), ix(0)}, ">", 1},
	{"d['x'] > 0", []c05Step{k("d"), k("x")}, ">", 0},
	{"ds[1].x = 2", []c05Step{k("ds"), ix(1), k("x")}, "=", 2},
	{"m.n.o >= 7", []c05Step{k("m"), k("n"), k("o")}, ">=", 7},
}

func (w c05PathWhere) pass(r Row) bool {
	if w.SQL == "" {
		return true
	}
	f, ok := ref.ToNum(c05Walk(r, w.Steps...))
	if !ok {
		return false
	}
	switch w.Op {
	case ">":
		return f > w.Lit
	case ">=":
		return f >= w.Lit
	}
	return f == w.Lit
}

func c05PathRows() []Row {
	// typed slices and maps (what a Go caller builds without going through JSON) besides []any / map[string]any
	arrs := []any{[]any{3, 1, 2}, []any{5}, []any{}, c04Missing, 7, []int{4, 6, 8}, []float64{2.5}} // a string is indexable (bytes): left out
	dvals := []any{map[string]any{"x": 1, " x ": 8}, map[string]any{"x": -1}, map[string]any{" x ": 5}, c04Missing, map[string]int{"x": 3}}
	dss := []any{[]any{map[string]any{"x": 1}, map[string]any{"x": 2}}, []any{map[string]any{"x": 0}}, c04Missing, []map[string]any{{"x": 9}, {"x": 2}}}
	mats := []any{[]any{[]any{1, 2}, []any{3, 4}}, c04Missing}
	ms := []any{map[string]any{"n": map[string]any{"o": 7}}, map[string]any{"n": map[string]any{}}, c04Missing}
	var rows []Row
	id := 0
	for _, a := range arrs {
		for _, d := range dvals {
			for _, ds := range dss {
				for _, mt := range mats {
					for _, m := range ms {
						id++
						r := Row{"id": id}
						for name, v := range map[string]any{"arr": a, "d": d, "ds": ds, "mat": mt, "m": m} {
							if v != c04Missing {
								r[name] = copyVal(v)
							}
						}
						rows = append(rows, r)
					}
				}
			}
		}
	}
	return rows
}

func c05Paths(u fw.Unit) fw.Result {
	sp := parseEnum(u)
	a := newAcc("C05", "sync-paths")
	rows := c05PathRows()
	pi := 0
	for i := range c05PathItems {
		for j := -1; j < len(c05PathItems); j++ {
			if i == j {
				continue
			}
			for _, w := range c05PathWheres {
				pi++
				if pi%sp.Shards != sp.Shard {
					continue
				}
				items := []c05PathItem{c05PathItems[i]}
				if j >= 0 {
					items = append(items, c05PathItems[j])
				}
				var sel []string
				for _, it := range items {
					sel = append(sel, it.SQL)
				}
				sql := "SELECT " + strings.Join(sel, ", ") + " FROM stream"
				if w.SQL != "" {
					sql += " WHERE " + w.SQL
				}
				res, execErr, st, pv := syncEval(sql, rows)
				cs := map[string]any{"sql": sql}
				if execErr != "" || st != sched.StatusOK {
					a.fail("C05|paths|exec", execErr+" "+st.String()+" "+firstLine(pv), cs, nil, nil)
					continue
				}
				for ri, row := range rows {
					a.r.Evaluations++
					a.r.States++
					a.r.Transitions++
					var want map[string]any
					if w.pass(row) {
						want = map[string]any{}
						for _, it := range items {
							want[it.Alias] = c05Walk(row, it.Steps...)
						}
						a.r.Nontrivial++
					}
					got := res[ri].Row
					if ok, why := c05RowEq(got, want, nil); !ok {
						a.fail(fmt.Sprintf("C05|paths|%s|where=%q", strings.Fields(why)[0], w.SQL), fmt.Sprintf("%s on %s: EmitSync gives %s (%s), reference %s", sql, js(row), js(got), res[ri].Err, js(want)),
							map[string]any{"sql": sql, "row": row}, want, got)
						break
					}
				}
				if pi == 33 {
					a.sample(map[string]any{"sql": sql, "rows": len(rows)})
				}
			}
		}
	}
	return a.result()
}
