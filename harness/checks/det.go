package checks

import (
	"encoding/json"
	"fmt"
	"sort"
	"time"

	"verifharness/fw"

	"github.com/rulego/streamsql"
	"github.com/rulego/streamsql/logger"
	"github.com/rulego/streamsql/types"
	"github.com/rulego/streamsql/verifrt/sched"
	vtime "github.com/rulego/streamsql/verifrt/time"
)

// Row / Batch as delivered to sinks.
type Row = map[string]any
type Batch = []Row

// Env is what a deterministic script drives.
type Env struct {
	S     *streamsql.Streamsql
	Eager bool // run every other thread to quiescence after each operation
	Ops   int
	OpNs  []int64 // virtual time at which each Emit was issued
}

func (e *Env) Emit(r Row) {
	e.OpNs = append(e.OpNs, sched.Cur().Elapsed())
	e.S.Emit(r)
	e.Ops++
	if e.Eager {
		sched.Quiesce()
	}
}

func (e *Env) Sleep(d time.Duration) {
	vtime.Sleep(d)
	sched.Quiesce()
}

type detResult struct {
	Mutated string // non-empty: a delivered batch was altered by the engine after its delivery
	Batches []Batch
	AtOps   []int // number of harness operations completed when each batch was delivered
	AtNs    []int64 // virtual time of each delivery
	OpNs    []int64 // virtual time of each Emit
	Status  sched.Status
	Panic   string
	ExecErr string
	Live    []sched.ThreadInfo // threads alive after Stop
	Steps   int
	Ops     int
}

type detOpts struct {
	Perf    *types.PerformanceConfig
	Eager   bool
	Options []streamsql.Option
	Horizon time.Duration // virtual time slept after the script (default 1s)
	NoStop  bool
	Setup   func(s *streamsql.Streamsql) error // after Execute, before the script (tables, ...)
	SinkDelay time.Duration // virtual time the recording sync sink takes per batch (a lagging consumer)
	PanicSink bool          // a synchronous sink registered before the recording one panics on every batch (the engine recovers it)
}

// detExec runs one query instance under the scheduler's default (deterministic) schedule with
// the virtual clock: no sleeps in real time, quiescence is observed, not guessed.
func detExec(sql string, o detOpts, script func(e *Env)) detResult {
	var r detResult
	res := sched.Run(sched.Config{MaxSteps: 2000000}, func() {
		opts := []streamsql.Option{streamsql.WithLogger(logger.NewDiscardLogger())}
		if o.Perf != nil {
			opts = append(opts, streamsql.WithCustomPerformance(*o.Perf))
		}
		opts = append(opts, o.Options...)
		s := streamsql.New(opts...)
		if err := s.Execute(sql); err != nil {
			r.ExecErr = err.Error()
			return
		}
		if o.Setup != nil {
			if err := o.Setup(s); err != nil {
				r.ExecErr = "setup: " + err.Error()
				s.Stop()
				return
			}
		}
		e := &Env{S: s, Eager: o.Eager}
		var rawRefs [][]map[string]any
		defer func() {
			// a batch handed to the sink must still read the same when the run is over
			for i, ref := range rawRefs {
				if i < len(r.Batches) && js(ref) != js(r.Batches[i]) {
					r.Mutated = fmt.Sprintf("batch %d was delivered as %s and later reads %s", i+1, js(r.Batches[i]), js(ref))
					break
				}
			}
		}()
		if o.PanicSink {
			s.AddSyncSink(func([]map[string]any) { panic("an earlier synchronous sink panics on every batch") })
		}
		s.AddSyncSink(func(rows []map[string]any) {
			rawRefs = append(rawRefs, rows)
			r.Batches = append(r.Batches, copyBatch(rows))
			r.AtOps = append(r.AtOps, e.Ops)
			r.AtNs = append(r.AtNs, sched.Cur().Elapsed())
			if o.SinkDelay > 0 {
				vtime.Sleep(o.SinkDelay)
			}
		})
		script(e)
		h := o.Horizon
		if h == 0 {
			h = time.Second
		}
		e.Sleep(h)
		r.Ops = e.Ops
		r.OpNs = e.OpNs
		if !o.NoStop {
			s.Stop()
			sched.Quiesce()
			r.Live = sched.LiveThreads()
		}
	})
	r.Status = res.Status
	r.Panic = res.PanicVal
	r.Steps = res.Steps
	return r
}

func copyVal(v any) any { return copyValDepth(v, 0) }

// copyValDepth: deep copy; a structure deeper than 64 levels is cyclic for every purpose of the checks (a row
// whose nested maps were made to contain the row itself by the code under test) and is cut with a marker.
func copyValDepth(v any, depth int) any {
	if depth > 64 {
		return "<deeper than 64 levels: cyclic?>"
	}
	switch x := v.(type) {
	case map[string]any:
		m := make(map[string]any, len(x))
		for k, vv := range x {
			m[k] = copyValDepth(vv, depth+1)
		}
		return m
	case []any:
		s := make([]any, len(x))
		for i, vv := range x {
			s[i] = copyValDepth(vv, depth+1)
		}
		return s
	case []map[string]any:
		s := make([]map[string]any, len(x))
		for i, vv := range x {
			s[i] = copyValDepth(vv, depth+1).(map[string]any)
		}
		return s
	}
	return v
}

func copyBatch(b []map[string]any) Batch {
	out := make(Batch, len(b))
	for i, r := range b {
		out[i] = copyVal(r).(map[string]any)
	}
	return out
}

// num converts any numeric value to float64.
func num(v any) (float64, bool) {
	switch x := v.(type) {
	case int:
		return float64(x), true
	case int8:
		return float64(x), true
	case int16:
		return float64(x), true
	case int32:
		return float64(x), true
	case int64:
		return float64(x), true
	case uint:
		return float64(x), true
	case uint8:
		return float64(x), true
	case uint16:
		return float64(x), true
	case uint32:
		return float64(x), true
	case uint64:
		return float64(x), true
	case float32:
		return float64(x), true
	case float64:
		return x, true
	}
	return 0, false
}

// ids extracts a collect(id) column as ints.
func idList(v any) []int {
	var out []int
	switch x := v.(type) {
	case []any:
		for _, e := range x {
			out = append(out, toInt(e))
		}
	case []int:
		out = append(out, x...)
	case nil:
	default:
		out = append(out, -777777)
	}
	return out
}

func sortedInts(a []int) []int {
	b := append([]int(nil), a...)
	sort.Ints(b)
	return b
}

func js(v any) string {
	b, err := json.Marshal(v)
	if err != nil {
		return fmt.Sprintf("%v", v)
	}
	return string(b)
}

// ---- enumeration units ----

type enumSpec struct {
	Cfg    int `json:"cfg"`
	Shard  int `json:"shard"`
	Shards int `json:"shards"`
}

func planEnum(check, tier string, cfgs, shards int) []fw.Unit {
	var us []fw.Unit
	for c := 0; c < cfgs; c++ {
		for s := 0; s < shards; s++ {
			us = append(us, fw.Unit{Check: check, Kind: "enum", Tier: tier, Spec: fw.Spec(enumSpec{Cfg: c, Shard: s, Shards: shards})})
		}
	}
	return us
}

func parseEnum(u fw.Unit) enumSpec {
	var sp enumSpec
	json.Unmarshal(u.Spec, &sp)
	if sp.Shards == 0 {
		sp.Shards = 1
	}
	return sp
}

// acc accumulates the result of an enumeration unit.
type acc struct {
	r        fw.Result
	sigSeen  map[string]int
	outcomes map[string]bool
	prop     string
	harness  string
}

func newAcc(prop, harness string) *acc {
	return &acc{sigSeen: map[string]int{}, outcomes: map[string]bool{}, prop: prop, harness: harness, r: fw.Result{Extra: map[string]int64{}}}
}

// fail records a violation; at most 3 witnesses per signature are kept.
func (a *acc) fail(sig, what string, cs, expected, observed any) {
	a.sigSeen[sig]++
	a.r.Extra["failing_cases"]++
	if a.sigSeen[sig] > 2 {
		return
	}
	a.r.Violations = append(a.r.Violations, fw.Violation{Property: a.prop, Harness: a.harness, Signature: sig, What: what, Case: cs, Expected: expected, Observed: observed, Reproduced: 1})
}

func (a *acc) outcome(s string) {
	if len(a.outcomes) < 5000 {
		a.outcomes[fw.Hash(s)] = true
	}
}

func (a *acc) sample(v any) {
	if len(a.r.Samples) < 2 {
		a.r.Samples = append(a.r.Samples, v)
	}
}

func (a *acc) result() fw.Result {
	for k := range a.outcomes {
		a.r.Outcomes = append(a.r.Outcomes, k)
	}
	return a.r
}

// Probe runs one query over the given rows under the deterministic executor (debugging aid).
func Probe(sql, rowsJSON string, eager bool) string {
	var rows []Row
	if err := json.Unmarshal([]byte(rowsJSON), &rows); err != nil {
		return "bad rows: " + err.Error()
	}
	r := detExec(sql, detOpts{Eager: eager}, func(e *Env) {
		for _, row := range rows {
			e.Emit(row)
		}
	})
	out := fmt.Sprintf("status=%s err=%q steps=%d live=%v\n", r.Status, r.ExecErr, r.Steps, r.Live)
	for _, b := range r.Batches {
		out += js(b) + "\n"
	}
	return out
}
