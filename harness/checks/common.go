// Package checks holds one harness per property.
package checks

import (
	"encoding/json"
	"fmt"
	"sort"
	"os"
	"strings"
	"time"

	"verifharness/explore"
	"verifharness/fw"

	"github.com/rulego/streamsql/logger"
	"github.com/rulego/streamsql/types"
	"github.com/rulego/streamsql/verifrt/sched"
)

func init() {
	logger.SetDefault(logger.NewDiscardLogger())
}

// smallPerf is the performance configuration used by the harnesses: tiny buffers so that
// overflow paths are reachable inside the bounds.
func smallPerf(strategy string, dataBuf, resultBuf, windowBuf int) types.PerformanceConfig {
	p := types.DefaultPerformanceConfig()
	p.BufferConfig.DataChannelSize = dataBuf
	p.BufferConfig.ResultChannelSize = resultBuf
	p.BufferConfig.WindowOutputSize = windowBuf
	p.OverflowConfig.Strategy = strategy
	p.OverflowConfig.AllowDataLoss = strategy == "drop"
	p.OverflowConfig.BlockTimeout = 0
	p.WorkerConfig.SinkPoolSize = 1
	p.WorkerConfig.SinkWorkerCount = 1
	return p
}

// ---- schedule exploration units ----

// schedScenario is one closed harness explored over its schedules.
type schedScenario struct {
	Name   string
	Params any
	Run    explore.RunFunc
}

type schedSpec struct {
	Scn        int            `json:"scn"`
	Name       string         `json:"name"`
	Items      []explore.Item `json:"items"`
	Bound      int            `json:"bound"`
	ForcedCost int            `json:"forced_cost"`
	Budget     int64          `json:"budget"`
}

// planSched creates one root unit per scenario.
func planSched(check, tier string, n int, names []string, bound, forcedCost int, budget int64) []fw.Unit {
	var us []fw.Unit
	for i := 0; i < n; i++ {
		us = append(us, fw.Unit{Check: check, Kind: "sched", Tier: tier, Spec: fw.Spec(schedSpec{
			Scn: i, Name: names[i], Items: []explore.Item{{}}, Bound: bound, ForcedCost: forcedCost, Budget: budget})})
	}
	return us
}

// runSched explores one unit; the unexplored frontier is returned as leftover units.
func runSched(property string, u fw.Unit, scenarios []schedScenario) fw.Result {
	var sp schedSpec
	if err := json.Unmarshal(u.Spec, &sp); err != nil {
		return fw.Result{Err: err.Error()}
	}
	if sp.Scn >= len(scenarios) {
		return fw.Result{Err: fmt.Sprintf("scenario %d out of range", sp.Scn)}
	}
	sc := scenarios[sp.Scn]
	if b := os.Getenv("VERIF_BOUND"); b != "" {
		fmt.Sscan(b, &sp.Bound) // development override of the deviation bound
	}
	budget := sp.Budget
	if budget == 0 {
		budget = 1500
	}
	if len(sp.Items) == 1 && len(sp.Items[0].C) == 0 && budget > 3000 {
		budget = 3000 // root unit: hand the frontier to the other worker processes early
	}
	deadline := time.Now().Add(20 * time.Second)
	var res fw.Result
	res.Extra = map[string]int64{}
	items := sp.Items
	var total explore.Stats
	total.Outcomes = map[string]int64{}
	total.Status = map[string]int64{}
	visited := map[uint64]int8{}
	if envOn("VERIF_NO_STATE_CACHE") {
		visited = nil
	}
	for len(items) > 0 && total.Execs < budget && time.Now().Before(deadline) {
		st, left, found := explore.Explore(sc.Run, items, explore.Options{Bound: sp.Bound, ForcedCost: sp.ForcedCost, MaxExec: 500, Visited: visited}, nil)
		total.Pruned += st.Pruned
		total.Expanded += st.Expanded
		items = left
		total.Execs += st.Execs
		total.Steps += st.Steps
		total.Points += st.Points
		total.Diverged += st.Diverged
		total.Flaky += st.Flaky
		total.Nontrivial += st.Nontrivial
		if st.MaxPoints > total.MaxPoints {
			total.MaxPoints = st.MaxPoints
		}
		for k, v := range st.Outcomes {
			total.Outcomes[k] += v
		}
		for k, v := range st.Status {
			total.Status[k] += v
		}
		for _, f := range found {
			res.Violations = append(res.Violations, fw.Violation{
				Property: property, Harness: sc.Name, Signature: f.Failure.Signature, What: f.Failure.What,
				Case:     map[string]any{"scenario": sc.Name, "scn": sp.Scn, "params": sc.Params, "choices": f.Choices, "status": f.Status, "bound": sp.Bound},
				Expected: f.Failure.Expected, Observed: f.Failure.Observed, Reproduced: f.Reproduced,
			})
		}
	}
	res.Evaluations = total.Execs
	res.States = total.Execs
	res.Transitions = total.Steps
	res.Nontrivial = total.Nontrivial
	res.Divergences = total.Diverged
	res.Extra["flaky_failures"] = total.Flaky
	res.Extra["choice_points"] = total.Points
	res.Extra["states_pruned_by_hb_cache"] = total.Pruned
	res.Extra["states_expanded"] = total.Expanded
	for k, v := range total.Status {
		res.Extra["status_"+k] += v
	}
	if int64(total.MaxPoints) > res.Extra["max_points_per_execution"] {
		res.Extra["max_points_per_execution"] = int64(total.MaxPoints)
	}
	if total.MaxPoints > 1500 {
		res.Extra["long_execution|"+sc.Name] = int64(total.MaxPoints)
	}
	for k := range total.Outcomes {
		res.Outcomes = append(res.Outcomes, sc.Name+"|"+fw.Hash(k))
	}
	if d := os.Getenv("VERIF_DUMP_OUTCOMES"); d != "" {
		f, _ := os.OpenFile(d, os.O_APPEND|os.O_CREATE|os.O_WRONLY, 0o644)
		for k, v := range total.Outcomes {
			fmt.Fprintf(f, "%s\t%s\t%d\n", sc.Name, k, v)
		}
		f.Close()
	}
	if len(sp.Items) == 1 && len(sp.Items[0].C) == 0 {
		// root unit: record a sample
		ks := make([]string, 0, len(total.Outcomes))
		for k := range total.Outcomes {
			ks = append(ks, k)
		}
		sort.Strings(ks)
		if len(ks) > 3 {
			ks = ks[:3]
		}
		res.Samples = append(res.Samples, map[string]any{"scenario": sc.Name, "params": sc.Params, "bound": sp.Bound, "some_outcomes": ks})
	}
	// split the remaining frontier into leftover units
	const chunk = 48
	for i := 0; i < len(items); i += chunk {
		j := i + chunk
		if j > len(items) {
			j = len(items)
		}
		res.Leftover = append(res.Leftover, fw.Unit{Check: u.Check, Kind: u.Kind, Tier: u.Tier, Spec: fw.Spec(schedSpec{
			Scn: sp.Scn, Name: sp.Name, Items: items[i:j], Bound: sp.Bound, ForcedCost: sp.ForcedCost, Budget: sp.Budget})})
	}
	return res
}

// replaySched re-executes one recorded schedule of a scenario twice and reports.
func replaySched(scenarios []schedScenario, c map[string]any) (string, bool) {
	scn := int(c["scn"].(float64))
	var choices []uint16
	if cs, ok := c["choices"].([]any); ok {
		for _, x := range cs {
			choices = append(choices, uint16(x.(float64)))
		}
	}
	sc := scenarios[scn]
	ch := func(idx int, p sched.PointRec) int {
		if idx < len(choices) {
			if int(choices[idx]) >= int(p.N) {
				return -1
			}
			return int(choices[idx])
		}
		return 0
	}
	var outs []string
	failed := false
	TraceLines = nil
	TraceOn = true
	sc.Run(ch, nil)
	TraceOn = false
	outs = append(outs, TraceLines...)
	for i := 0; i < 2; i++ {
		res, out, fail := sc.Run(ch, nil)
		s := fmt.Sprintf("run %d: status=%s outcome=%s", i+1, res.Status, out)
		if fail != nil {
			failed = true
			s += fmt.Sprintf("\n   FAIL %s: %s\n   expected=%v\n   observed=%v", fail.Signature, fail.What, fail.Expected, fail.Observed)
		}
		outs = append(outs, s)
	}
	return strings.Join(outs, "\n"), failed
}

// TraceOn makes the scenario bodies pass a trace sink to the scheduler (replay only).
var TraceOn bool
var TraceLines []string

func traceFn() func(string) {
	if !TraceOn {
		return nil
	}
	return func(l string) { TraceLines = append(TraceLines, l) }
}

func envOn(k string) bool { v := os.Getenv(k); return v != "" && v != "0" }
