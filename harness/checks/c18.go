package checks

import (
	"fmt"
	"os"
	"strings"

	"verifharness/explore"
	"verifharness/fw"

	"github.com/rulego/streamsql"
	"github.com/rulego/streamsql/functions"
	"github.com/rulego/streamsql/logger"
	"github.com/rulego/streamsql/verifrt/sched"
	vsync "github.com/rulego/streamsql/verifrt/sync"
	vtime "github.com/rulego/streamsql/verifrt/time"
)

// C18: lifecycle operations are safe under any interleaving and Stop is a barrier.

var c18Queries = map[string]string{
	"direct":        "SELECT id, v + 1 AS e FROM stream WHERE v > 0",
	"analytic":      "SELECT id, lag(v) AS p FROM stream",
	"cep":           "SELECT * FROM stream MATCH_RECOGNIZE (ORDER BY ts MEASURES MATCH_NUMBER() AS mn, LAST(id) AS l ONE ROW PER MATCH PATTERN (A+) DEFINE A AS v > 0)",
	"tumbling-evt":  "SELECT count(*) AS c, collect(id) AS ids FROM stream GROUP BY TumblingWindow('2s') WITH (TIMESTAMP='ts', TIMEUNIT='ms')",
	"tumbling-proc": "SELECT count(*) AS c, collect(id) AS ids FROM stream GROUP BY TumblingWindow('200ms')",
	"sliding-evt":   "SELECT count(*) AS c, collect(id) AS ids FROM stream GROUP BY SlidingWindow('4s','2s') WITH (TIMESTAMP='ts', TIMEUNIT='ms')",
	"sliding-proc":  "SELECT count(*) AS c, collect(id) AS ids FROM stream GROUP BY SlidingWindow('400ms','200ms')",
	"session-evt":   "SELECT k, count(*) AS c FROM stream GROUP BY k, SessionWindow('2s') WITH (TIMESTAMP='ts', TIMEUNIT='ms')",
	"session-proc":  "SELECT k, count(*) AS c FROM stream GROUP BY k, SessionWindow('200ms')",
	"counting":      "SELECT count(*) AS c, collect(id) AS ids FROM stream GROUP BY CountingWindow(1)",
	"global":        "SELECT k, count(*) AS c FROM stream GROUP BY k, GLOBAL WINDOW TRIGGER WHEN count(*) >= 1",
}

// the same kinds with a user function that panics on v = -1 in the position the kind evaluates per row
var c18RowPanicQueries = map[string]string{
	"direct":       "SELECT id, vboom(v) AS e FROM stream",
	"direct-where": "SELECT id FROM stream WHERE vboom(v) > 0",
	"analytic":     "SELECT id, vboom(v) AS e, lag(v) AS p FROM stream",
	"cep":          "SELECT * FROM stream MATCH_RECOGNIZE (ORDER BY ts MEASURES MATCH_NUMBER() AS mn, LAST(id) AS l ONE ROW PER MATCH PATTERN (A) DEFINE A AS vboom(v) > 0)",
	"counting":     "SELECT count(*) AS c, sum(vboom(v)) AS s FROM stream GROUP BY CountingWindow(1)",
	"global":       "SELECT k, count(*) AS c, sum(vboom(v)) AS s FROM stream GROUP BY k, GLOBAL WINDOW TRIGGER WHEN count(*) >= 1",
}

var c18BoomRegistered = false

func c18RegisterBoom() {
	if c18BoomRegistered {
		return
	}
	c18BoomRegistered = true
	functions.RegisterCustomFunction("vboom", functions.TypeMath, "verif", "panics on -1", 1, 1, func(ctx *functions.FunctionContext, args []any) (any, error) {
		x, _ := num(args[0])
		if x == -1 {
			panic("vboom: the row's value makes a user function panic")
		}
		return x, nil
	})
}

var c18KindOrder = []string{"direct", "analytic", "cep", "tumbling-evt", "tumbling-proc", "sliding-evt", "sliding-proc", "session-evt", "session-proc", "counting", "global"}

type c18Cfg struct {
	Kind     string `json:"kind"`
	Strategy string `json:"strategy"`
	Threads  string `json:"threads"` // subset of P S A G T E
	Sink     string `json:"sink"`    // plain | panic | reenter-stats | reenter-addsink | block
	Rows     int    `json:"rows_per_producer,omitempty"` // default 2
	Buf0     bool   `json:"unbuffered_data_channel,omitempty"` // DataChannelSize 0 (accepted by the configuration): every Emit overflows unless the processor is waiting
	RowPanic bool   `json:"panicking_row,omitempty"`           // the second row of every producer (and the first EmitSync) makes a user function panic
}

func (c c18Cfg) name() string {
	n := fmt.Sprintf("%s-%s-%s-%s", c.Kind, c.Strategy, c.Threads, c.Sink)
	if c.Buf0 {
		n += "-buf0"
	}
	if c.Rows > 0 {
		n += fmt.Sprintf("-rows%d", c.Rows)
	}
	if c.RowPanic {
		n += "-rowpanic"
	}
	return n
}

func c18Configs(tier string) []c18Cfg {
	var out []c18Cfg
	for _, k := range c18KindOrder {
		for _, st := range []string{"drop", "block", "expand"} {
			out = append(out, c18Cfg{Kind: k, Strategy: st, Threads: "PSA", Sink: "plain"})
		}
	}
	// other thread subsets and sink variants on the direct and tumbling-event kinds
	for _, k := range []string{"direct", "tumbling-evt"} {
		for _, th := range []string{"PS", "PSG", "PST", "PSE", "PPS"} {
			out = append(out, c18Cfg{Kind: k, Strategy: "drop", Threads: th, Sink: "plain"})
		}
		for _, sink := range []string{"panic", "reenter-stats", "reenter-addsink", "block"} {
			out = append(out, c18Cfg{Kind: k, Strategy: "drop", Threads: "PS", Sink: sink})
		}
	}
	out = append(out, c18Cfg{Kind: "counting", Strategy: "drop", Threads: "PS", Sink: "panic"}, c18Cfg{Kind: "cep", Strategy: "drop", Threads: "PS", Sink: "reenter-stats"}, c18Cfg{Kind: "global", Strategy: "block", Threads: "PSG", Sink: "plain"},
		// MATCH_RECOGNIZE delivers its flushed matches from inside Stop (a different dispatch path)
		c18Cfg{Kind: "cep", Strategy: "drop", Threads: "PS", Sink: "reenter-addsink"}, c18Cfg{Kind: "cep", Strategy: "drop", Threads: "PS", Sink: "panic"}, c18Cfg{Kind: "cep", Strategy: "block", Threads: "PSG", Sink: "reenter-addsink"})
	// no concurrent Stop: a sink that panics on its first batch must not keep the later rows from being
	// processed and delivered (liveness clause; with a racing Stop nothing can be demanded), and the panic
	// must not escape through EmitSync
	for _, k := range []string{"direct", "analytic", "counting", "global"} {
		out = append(out, c18Cfg{Kind: k, Strategy: "drop", Threads: "P", Sink: "panic"})
	}
	out = append(out, c18Cfg{Kind: "direct", Strategy: "drop", Threads: "E", Sink: "panic"}, c18Cfg{Kind: "direct", Strategy: "drop", Threads: "PE", Sink: "panic"}, c18Cfg{Kind: "analytic", Strategy: "block", Threads: "PE", Sink: "panic"},
		c18Cfg{Kind: "direct", Strategy: "drop", Threads: "P", Sink: "panic-async"}, c18Cfg{Kind: "counting", Strategy: "drop", Threads: "P", Sink: "panic-async"}, c18Cfg{Kind: "direct", Strategy: "drop", Threads: "PS", Sink: "panic-async"}, c18Cfg{Kind: "tumbling-evt", Strategy: "drop", Threads: "PS", Sink: "panic-async"})
	out = append(out, c18Cfg{Kind: "direct", Strategy: "drop", Threads: "P", Sink: "panic-then-plain"}, c18Cfg{Kind: "direct", Strategy: "drop", Threads: "PE", Sink: "panic-then-plain"},
		c18Cfg{Kind: "counting", Strategy: "drop", Threads: "P", Sink: "panic-then-plain"}, c18Cfg{Kind: "tumbling-evt", Strategy: "drop", Threads: "PS", Sink: "panic-then-plain"})
	// TriggerWindow racing Stop on every keyed / timed window kind (an open session, a partial counting batch)
	for _, k := range []string{"session-evt", "session-proc", "sliding-evt", "tumbling-proc", "counting"} {
		out = append(out, c18Cfg{Kind: k, Strategy: "drop", Threads: "PST", Sink: "plain"})
	}
	// a producer parked inside Emit on a full input channel (the sink holds the pipeline until Stop has returned)
	// must be released by Stop, under every strategy
	for _, st := range []string{"block", "drop", "expand"} {
		out = append(out, c18Cfg{Kind: "direct", Strategy: st, Threads: "PS", Sink: "gate", Rows: 5})
	}
	for _, k := range []string{"counting", "global", "tumbling-evt", "session-evt", "sliding-proc"} { // (not MATCH_RECOGNIZE: Stop itself delivers its flush to the sinks, the gate would wait for its own thread)
		// every row (or window) fires: the window output buffer (2) fills behind the gated sink while Stop runs
		out = append(out, c18Cfg{Kind: k, Strategy: "block", Threads: "PS", Sink: "gate", Rows: 5})
	}
	// a sink that calls EmitSync on its own instance (refused or served, never parked until Stop's grace timer fires)
	out = append(out, c18Cfg{Kind: "direct", Strategy: "drop", Threads: "PS", Sink: "reenter-emitsync"}, c18Cfg{Kind: "analytic", Strategy: "block", Threads: "PS", Sink: "reenter-emitsync"},
		c18Cfg{Kind: "direct", Strategy: "expand", Threads: "PSG", Sink: "reenter-emitsync"})
	// slow asynchronous sinks behind a saturated sink pool: Stop is a barrier for invocations run inline too
	out = append(out, c18Cfg{Kind: "direct", Strategy: "drop", Threads: "EEES", Sink: "slow-async"}, c18Cfg{Kind: "direct", Strategy: "block", Threads: "PES", Sink: "slow-async"},
		c18Cfg{Kind: "counting", Strategy: "drop", Threads: "PS", Sink: "slow-async", Rows: 4})
	// a row whose evaluation panics inside a user function: later rows must still be processed and delivered, Stop
	// must return without its grace timer, nothing escapes to the caller of Emit / EmitSync
	for _, k := range []string{"direct", "direct-where", "analytic", "cep", "counting", "global"} {
		out = append(out, c18Cfg{Kind: k, Strategy: "block", Threads: "P", Sink: "plain", Rows: 4, RowPanic: true}) // block: no row is dropped on the way in
	}
	out = append(out, c18Cfg{Kind: "direct", Strategy: "block", Threads: "E", Sink: "plain", RowPanic: true}, c18Cfg{Kind: "cep", Strategy: "block", Threads: "PS", Sink: "plain", Rows: 4, RowPanic: true},
		c18Cfg{Kind: "direct-where", Strategy: "block", Threads: "PE", Sink: "plain", Rows: 4, RowPanic: true})
	// (DataChannelSize 0 - an unbuffered input channel - is exercised by the free-running pass only: the scheduler
	// models buffered channels and closed-only unbuffered ones, not rendezvous sends inside select)
	if tier == "thorough" {
		for _, k := range c18KindOrder {
			for _, sink := range []string{"panic", "reenter-stats"} {
				out = append(out, c18Cfg{Kind: k, Strategy: "drop", Threads: "PSAG", Sink: sink})
			}
		}
	}
	return out
}

type c18Obs struct {
	execErr        string
	sinkCalls      int
	sinkAfterStop  int
	deliveredAfterPanic bool
	stopVirtualNs  int64
	secondStopNs   int64
	liveAfter      []sched.ThreadInfo
	emitAfterStopSinks int
	panicked       bool
	syncResults    int
	inSink            int
	sinkRunningAtStop int
	secondSinkCalls   int
}

func c18Run(cfg c18Cfg) explore.RunFunc {
	return func(ch sched.Chooser, local map[int]bool) (*sched.Result, string, *explore.Failure) {
		var o c18Obs
		res := sched.Run(sched.Config{Chooser: ch, MaxSteps: 60000, Trace: traceFn()}, func() {
			perf := smallPerf(cfg.Strategy, 2, 2, 2)
			if cfg.Buf0 {
				perf.BufferConfig.DataChannelSize = 0
			}
			if cfg.Strategy == "expand" {
				perf.BufferConfig.MaxBufferSize = 3
				perf.OverflowConfig.ExpansionConfig.MinIncrement = 1
				perf.OverflowConfig.ExpansionConfig.TriggerThreshold = 0.8
			}
			s := streamsql.New(streamsql.WithCustomPerformance(perf), streamsql.WithLogger(logger.NewDiscardLogger()))
			sql := c18Queries[cfg.Kind]
			if cfg.RowPanic {
				c18RegisterBoom()
				sql = c18RowPanicQueries[cfg.Kind]
			}
			if err := s.Execute(sql); err != nil {
				o.execErr = err.Error()
				return
			}
			stopReturned := false
			blockCh := make(chan struct{}, 1) // never written: a receive blocks for ever
			gateCh := make(chan struct{}, 1)
			gateOpen := false
			sink := func(rows []map[string]any) {
				o.sinkCalls++
				if stopReturned {
					o.sinkAfterStop++
				}
				switch cfg.Sink {
				case "panic":
					if o.sinkCalls == 1 {
						o.panicked = true
						panic("sink panics on its first batch")
					}
					o.deliveredAfterPanic = true
				case "reenter-stats":
					s.GetStats()
				case "reenter-addsink":
					if o.sinkCalls == 1 {
						s.AddSink(func([]map[string]any) {})
					}
				case "reenter-emitsync":
					if o.sinkCalls == 1 {
						s.EmitSync(Row{"id": 55, "k": "a", "v": 5, "ts": 1200}) // forwards a derived row through the same instance
					}
				case "block":
					sched.Recv(blockCh)
				case "gate":
					sched.Recv(gateCh) // released (closed) by the stopping thread after Stop has returned
				}
			}
			if cfg.Sink == "slow-async" {
				// asynchronous sinks only, each invocation takes 50 ms: with a pool of one worker and a queue of one the
				// engine runs further invocations inline on the goroutine that produced the result
				s.AddSink(func(rows []map[string]any) {
					o.sinkCalls++
					o.inSink++
					if stopReturned {
						o.sinkAfterStop++
					}
					vtime.Sleep(50 * vtime.Millisecond)
					o.inSink--
				})
			} else if cfg.Sink == "panic-async" {
				// the same body registered as an asynchronous sink (runs on the sink worker pool)
				s.AddSink(func(rows []map[string]any) {
					o.sinkCalls++
					if stopReturned {
						o.sinkAfterStop++
					}
					if o.sinkCalls == 1 {
						o.panicked = true
						panic("async sink panics on its first batch")
					}
					o.deliveredAfterPanic = true
				})
			} else if cfg.Sink == "panic-then-plain" {
				// two synchronous sinks: the first panics on every batch, the second is well-behaved
				s.AddSyncSink(func(rows []map[string]any) {
					o.sinkCalls++
					o.panicked = true
					panic("first sync sink panics on every batch")
				})
				s.AddSyncSink(func(rows []map[string]any) {
					o.secondSinkCalls++
					if stopReturned {
						o.sinkAfterStop++
					}
				})
			} else {
				s.AddSyncSink(sink)
			}
			var wg vsync.WaitGroup
			nP := 0
			for _, th := range cfg.Threads {
				th := th
				wg.Add(1)
				switch th {
				case 'P':
					base := nP * 10
					nP++
					sched.Go(func() {
						defer wg.Done()
						s.Emit(Row{"id": base + 1, "k": "a", "v": 1, "ts": 1000})
						if cfg.RowPanic {
							s.Emit(Row{"id": base + 2, "k": "a", "v": -1, "ts": 5000})
						} else {
							s.Emit(Row{"id": base + 2, "k": "a", "v": 2, "ts": 5000})
						}
						for j := 3; j <= cfg.Rows; j++ {
							s.Emit(Row{"id": base + j, "k": "a", "v": j, "ts": 5000 + j})
						}
					})
				case 'S':
					sched.Go(func() {
						defer wg.Done()
						t0 := sched.Cur().Elapsed()
						s.Stop()
						o.stopVirtualNs = sched.Cur().Elapsed() - t0
						stopReturned = true
						o.sinkRunningAtStop = o.inSink
						if cfg.Sink == "gate" && !gateOpen {
							gateOpen = true
							sched.Close(gateCh)
						}
					})
				case 'A':
					sched.Go(func() {
						defer wg.Done()
						s.AddSink(func(rows []map[string]any) {
							if stopReturned {
								o.sinkAfterStop++
							}
						})
					})
				case 'G':
					sched.Go(func() { defer wg.Done(); s.GetStats(); s.GetDetailedStats() })
				case 'T':
					sched.Go(func() { defer wg.Done(); s.TriggerWindow() })
				case 'E':
					sched.Go(func() {
						defer wg.Done()
						if cfg.RowPanic {
							s.EmitSync(Row{"id": 76, "k": "a", "v": -1, "ts": 1400})
						}
						if r, err := s.EmitSync(Row{"id": 77, "k": "a", "v": 3, "ts": 1500}); err == nil && r != nil {
							o.syncResults++
						}
					})
				}
			}
			wg.Wait()
			if !strings.Contains(cfg.Threads, "S") {
				vtime.Sleep(300 * vtime.Millisecond)
				sched.Quiesce()
			}
			// Stop is idempotent and returns at once the second time
			t1 := sched.Cur().Elapsed()
			s.Stop()
			o.secondStopNs = sched.Cur().Elapsed() - t1
			stopReturned = true
			before := o.sinkCalls
			s.Emit(Row{"id": 99, "k": "a", "v": 9, "ts": 9000}) // silent no-op after Stop
			s.TriggerWindow()                                    // the manual flush after Stop: no panic, nothing reaches a sink
			vtime.Sleep(700 * vtime.Millisecond)                 // lets every poll ticker fire: stragglers would show up
			sched.Quiesce()
			o.emitAfterStopSinks = o.sinkCalls - before
			o.liveAfter = sched.LiveThreads()
		})
		out := fmt.Sprintf("sinks=%d after=%d stopNs=%d live=%d", o.sinkCalls, o.sinkAfterStop, o.stopVirtualNs, len(o.liveAfter))
		return res, out, c18Oracle(cfg, res, &o)
	}
}

func c18Oracle(cfg c18Cfg, res *sched.Result, o *c18Obs) *explore.Failure {
	fail := func(kind, what string) *explore.Failure {
		return &explore.Failure{Signature: fmt.Sprintf("C18|%s|kind=%s|sink=%s", kind, cfg.Kind, cfg.Sink), What: what, Observed: fmt.Sprintf("%+v", *o)}
	}
	if o.execErr != "" {
		return fail("execute-error", o.execErr)
	}
	switch res.Status {
	case sched.StatusPanic:
		return fail("panic-escaped", firstLine(res.PanicVal))
	case sched.StatusDeadlock:
		return fail("deadlock", "threads blocked for ever: "+liveDesc(res))
	case sched.StatusCapHit:
		return fail("livelock", "step cap hit")
	}
	const grace = int64(5e9)
	if cfg.Sink == "block" || cfg.Sink == "gate" {
		// a sink that never returns (or only after Stop has returned): Stop must still return, by its grace timer
		// (the grace period plus the sub-millisecond retry waits a strategy may add before Stop gets to its join)
		if o.stopVirtualNs > grace+int64(50e6) || o.secondStopNs > grace+int64(50e6) {
			return fail("stop-exceeds-grace", fmt.Sprintf("Stop took %d ns of virtual time", o.stopVirtualNs))
		}
		return nil
	}
	if o.stopVirtualNs >= grace || o.secondStopNs >= grace {
		return fail("stop-needed-grace-timer", fmt.Sprintf("with well-behaved sinks Stop returned only through its 5s grace timer (Stop %d ns, second Stop %d ns)", o.stopVirtualNs, o.secondStopNs))
	}
	if (cfg.Sink == "panic" || cfg.Sink == "panic-async") && !strings.Contains(cfg.Threads, "S") {
		// rows offered to the engine: 2 per producer, 1 per EmitSync caller; each is one batch for these kinds
		want := 2*strings.Count(cfg.Threads, "P") + strings.Count(cfg.Threads, "E")
		if o.sinkCalls < want {
			return fail("rows-after-sink-panic-not-delivered", fmt.Sprintf("the sink panicked on its first batch and was invoked %d time(s) in all; %d rows were offered and every one forms its own batch", o.sinkCalls, want))
		}
	}
	if cfg.Sink == "panic-then-plain" && !strings.Contains(cfg.Threads, "S") {
		want := 2*strings.Count(cfg.Threads, "P") + strings.Count(cfg.Threads, "E")
		if o.secondSinkCalls < want {
			return fail("sink-after-panicking-sink-not-invoked", fmt.Sprintf("the first synchronous sink panics on every batch; the second synchronous sink was invoked %d time(s), %d rows were offered and every one forms its own batch (the first sink was invoked %d time(s))", o.secondSinkCalls, want, o.sinkCalls))
		}
	}
	if cfg.RowPanic && !strings.Contains(cfg.Threads, "S") {
		// every producer offers 4 rows of which one panics; each of the other three forms its own batch
		want := 3 * strings.Count(cfg.Threads, "P")
		if strings.Contains(cfg.Threads, "E") {
			want++ // the EmitSync result is also handed to the sinks
			if o.syncResults != 1 {
				return fail("emitsync-after-panicking-row-no-result", "EmitSync of an ordinary row after a row whose evaluation panicked returned no result")
			}
		}
		if o.sinkCalls < want {
			return fail("rows-after-panicking-row-not-delivered", fmt.Sprintf("one row per producer made a user function panic; the sink was invoked %d time(s), %d ordinary rows were offered and every one forms its own batch", o.sinkCalls, want))
		}
	}
	if o.sinkRunningAtStop > 0 {
		return fail("sink-still-running-when-stop-returned", fmt.Sprintf("%d sink invocation(s) (50 ms each, well inside the grace period) were still in progress when Stop returned", o.sinkRunningAtStop))
	}
	if o.sinkAfterStop > 0 {
		return fail("sink-after-stop", fmt.Sprintf("%d sink invocation(s) after Stop had returned", o.sinkAfterStop))
	}
	if o.emitAfterStopSinks > 0 {
		return fail("emit-after-stop-processed", "a row emitted after Stop reached a sink")
	}
	var engine []string
	for _, t := range o.liveAfter {
		if !strings.HasPrefix(t.Site, "checks.") {
			engine = append(engine, t.Site+"@"+t.Blocked)
		}
	}
	if len(engine) > 0 {
		return fail("goroutine-leak", "engine goroutines still alive after Stop returned and every timer fired: "+strings.Join(engine, ","))
	}
	return nil
}

func c18Scenarios(tier string) []schedScenario {
	var out []schedScenario
	for _, cfg := range c18Configs(tier) {
		out = append(out, schedScenario{Name: cfg.name(), Params: cfg, Run: c18Run(cfg)})
	}
	return out
}

type c18 struct{}

func (c18) ID() string { return "C18" }

func (c18) Plan(tier string) []fw.Unit {
	var us []fw.Unit
	for i, sc := range c18Scenarios(tier) {
		if only := os.Getenv("VERIF_ONLY"); only != "" && !strings.Contains(sc.Name, only) {
			continue
		}
		// quick: every deviation costs 1 (preemption, early timer, and also a non-default pick
		// where the running thread blocks); bound 2. thorough: the CHESS cost model (picks at
		// blocking points are free), bound 1, time-capped.
		bound, forced := 2, 1
		if tier == "thorough" {
			bound, forced = 1, 0
		}
		if b := os.Getenv("VERIF_BOUND"); b != "" {
			fmt.Sscan(b, &bound)
		}
		if b := os.Getenv("VERIF_FORCED"); b != "" {
			fmt.Sscan(b, &forced)
		}
		us = append(us, fw.Unit{Check: "C18", Kind: "sched", Tier: tier, Spec: fw.Spec(schedSpec{Scn: i, Name: sc.Name, Items: []explore.Item{{}}, Bound: bound, ForcedCost: forced, Budget: 20000})})
	}
	return us
}

func (c18) Run(u fw.Unit) fw.Result { return runSched("C18", u, c18Scenarios(u.Tier)) }

func (c18) Describe(tier string) fw.Description {
	return fw.Description{
		Level: "model_checking",
		Rule: "stateless DFS over all schedules (<= bound deviations, all blocking-switch and select choices, virtual clock) of closed harnesses on the real Streamsql instance: 11 query kinds (direct, analytic, MATCH_RECOGNIZE, tumbling/sliding/session in event and processing time, counting, global) x {drop, block, expand} with buffers of 2 and threads P(Emit x2) || S(Stop) || A(AddSink), plus thread subsets with GetStats / TriggerWindow / EmitSync / two producers and sink variants (panicking synchronous and asynchronous sinks - without a concurrent Stop every later row must still be delivered and nothing may escape through EmitSync -, calling GetStats, AddSink or EmitSync re-entrantly, blocking for ever or until Stop has returned, a pair of synchronous sinks of which the first panics on every batch - the second must get every batch -, slow asynchronous sinks behind a saturated pool, rows that make a user function panic) on selected kinds; then a second Stop, an Emit after Stop and 700 ms of virtual time; monitors: no escaped panic, no deadlock, Stop returns without its 5 s grace timer unless a sink blocks for ever, no sink invocation after Stop returned, Emit after Stop reaches no sink, no engine goroutine left; non-trivial = reached through >= 1 deviation",
		Bounds:      map[string]any{"deviations": "quick: 2 with every non-default choice costing 1; thorough: 1 with free choices at blocking points (time-capped)", "threads": "3-4 harness threads + engine goroutines", "buffers": 2},
		Assumptions: []string{"memory-level data races are outside the scheduler's view: covered by the separate free-running -race pass (bin/racepass)", "virtual time: 'within its grace period' is decided as 'the 5 s timer did not have to fire'"},
	}
}

func (c18) Replay(v fw.Violation) (string, bool) {
	return replaySched(c18Scenarios("thorough"), caseMap(v))
}

func init() { fw.Register(c18{}) }
