package checks

import (
	"fmt"
	"math"
	"strings"

	"verifharness/fw"

	"github.com/rulego/streamsql/condition"
	"github.com/rulego/streamsql/verifrt/sched"
)

// C12: predicate fast paths decide exactly as the general evaluator.

type c12Val struct {
	Name string
	V    any
	Miss bool
}

var c12Values = []c12Val{
	{"int(0)", int(0), false}, {"int(1)", int(1), false}, {"int(-1)", int(-1), false}, {"int(2)", int(2), false},
	{"int8(1)", int8(1), false}, {"int16(-1)", int16(-1), false}, {"int32(2)", int32(2), false},
	{"int64(1)", int64(1), false}, {"int64(2^53+1)", int64(9007199254740993), false}, {"int64(2^53)", int64(9007199254740992), false}, {"int64(-(2^53+1))", int64(-9007199254740993), false},
	{"int64(max)", int64(math.MaxInt64), false}, {"int(2^53+1)", int(9007199254740993), false},
	{"uint(1)", uint(1), false}, {"uint8(2)", uint8(2), false}, {"uint16(0)", uint16(0), false}, {"uint32(1)", uint32(1), false},
	{"uint64(2^53+1)", uint64(9007199254740993), false}, {"uint64(max)", uint64(math.MaxUint64), false},
	{"float32(2.5)", float32(2.5), false}, {"float32(0.1)", float32(0.1), false},
	{"float64(2.5)", 2.5, false}, {"float64(-0.5)", -0.5, false}, {"float64(1)", 1.0, false}, {"float64(-0)", math.Copysign(0, -1), false},
	{"NaN", math.NaN(), false}, {"+Inf", math.Inf(1), false}, {"-Inf", math.Inf(-1), false}, {"float64(2^53)", 9007199254740992.0, false},
	{"'x'", "x", false}, {"''", "", false}, {"'1'", "1", false}, {"'abc'", "abc", false}, {"'2.5'", "2.5", false},
	{"true", true, false}, {"false", false, false}, {"NULL", nil, false}, {"missing", nil, true},
	{"[]any{1}", []any{1}, false}, {"map", map[string]any{"a": 1}, false},
	{"'a b'", "a b", false}, {"'a  b'", "a  b", false}, {"a<newline>b", "a\nb", false}, {"a<backslash>nb", "a\\nb", false}, // appended (index lists below refer to the positions above)
}

var c12Ops = []string{">", ">=", "<", "<=", "==", "!=", "=", "<>"}
var c12NumLits = []string{"0", "1", "-1", "2.5", "-0.5", "2", "9007199254740992", "9007199254740993"}
var c12StrLits = []string{"'x'", "''", "'1'", "'abc'", "'a b'", "'a  b'", "'a\\nb'"} // 'a b' / 'a  b' differ only in the blanks inside the literal; the last holds a backslash escape

func c12Row(field string, v c12Val) Row {
	r := Row{}
	if !v.Miss {
		r[field] = v.V
	}
	return r
}

// decide evaluates the predicate text; ok=false when it does not compile.
func c12Decide(text string, row Row) (res bool, ok bool, panicked string) {
	defer func() {
		if p := recover(); p != nil {
			panicked = fmt.Sprint(p)
		}
	}()
	c, err := condition.NewExprCondition(text)
	if err != nil {
		return false, false, ""
	}
	return c.Evaluate(row), true, ""
}

type c12 struct{}

func (c12) ID() string { return "C12" }

func (c12) Plan(tier string) []fw.Unit {
	return []fw.Unit{
		{Check: "C12", Kind: "single", Tier: tier, Spec: fw.Spec(enumSpec{})},
		{Check: "C12", Kind: "compound", Tier: tier, Spec: fw.Spec(enumSpec{Shard: 0, Shards: 4})},
		{Check: "C12", Kind: "compound", Tier: tier, Spec: fw.Spec(enumSpec{Shard: 1, Shards: 4})},
		{Check: "C12", Kind: "compound", Tier: tier, Spec: fw.Spec(enumSpec{Shard: 2, Shards: 4})},
		{Check: "C12", Kind: "compound", Tier: tier, Spec: fw.Spec(enumSpec{Shard: 3, Shards: 4})},
		{Check: "C12", Kind: "mixed", Tier: tier, Spec: fw.Spec(enumSpec{})},
		{Check: "C12", Kind: "where", Tier: tier, Spec: fw.Spec(enumSpec{})},
		{Check: "C12", Kind: "seams", Tier: tier, Spec: fw.Spec(enumSpec{})},
		{Check: "C12", Kind: "trigger-literal", Tier: tier, Spec: fw.Spec(enumSpec{})},
		{Check: "C12", Kind: "two-column-trigger", Tier: tier, Spec: fw.Spec(enumSpec{})},
	}
}

func c12TypeClass(v c12Val) string {
	switch x := v.V.(type) {
	case int64:
		if x > 1<<53 || x < -(1<<53) {
			return "int64-beyond-2^53"
		}
		return "int"
	case int:
		if x > 1<<53 || x < -(1<<53) {
			return "int64-beyond-2^53"
		}
		return "int"
	case uint64:
		if x > 1<<53 {
			return "uint64-beyond-2^53"
		}
		return "uint"
	case int8, int16, int32:
		return "int"
	case uint, uint8, uint16, uint32:
		return "uint"
	case float32:
		return "float32"
	case float64:
		if math.IsNaN(x) {
			return "NaN"
		}
		if math.IsInf(x, 0) {
			return "Inf"
		}
		return "float64"
	case string:
		return "string"
	case bool:
		return "bool"
	case nil:
		if v.Miss {
			return "missing"
		}
		return "NULL"
	}
	return "other"
}

func (c12) Run(u fw.Unit) fw.Result {
	if u.Kind == "two-column-trigger" {
		return twoColumnTriggerUnit("C12", "condition-two-column-trigger")
	}
	if u.Kind == "trigger-literal" {
		// the shortcut shape and its parenthesised form share the pass that rewrites the predicate text: a reference
		// decides here, not the other form
		return triggerLiteralUnit("C12", "condition-trigger-literal")
	}
	sp := parseEnum(u)
	a := newAcc("C12", "condition-"+u.Kind)
	cmp := func(fast, general string, row Row, shape string, vdesc string, tclass string) {
		a.r.Evaluations++
		a.r.Transitions += 2
		rf, okf, pf := c12Decide(fast, row)
		rg, okg, pg := c12Decide(general, row)
		cs := map[string]any{"predicate": fast, "general_form": general, "row": vdesc}
		if pf != "" || pg != "" {
			a.fail("C12|panic|"+shape, "evaluation panicked: "+pf+pg, cs, nil, nil)
			return
		}
		if !okf && !okg {
			a.r.Skipped++
			return
		}
		if okf != okg {
			a.fail("C12|compile-mismatch|"+shape, fmt.Sprintf("shortcut form compiles=%v, parenthesised form compiles=%v", okf, okg), cs, nil, nil)
			return
		}
		a.r.States++
		a.r.Nontrivial++
		a.outcome(fmt.Sprint(fast, vdesc, rf))
		if rf != rg {
			a.fail(fmt.Sprintf("C12|decision-differs|%s|value=%s", shape, tclass),
				fmt.Sprintf("%q on %s: shortcut path says %v, general evaluator (parenthesised text) says %v", fast, vdesc, rf, rg), cs, rg, rf)
		}
	}
	switch u.Kind {
	case "single":
		for _, op := range c12Ops {
			for _, lit := range append(append([]string{}, c12NumLits...), c12StrLits...) {
				fast := "x " + op + " " + lit
				general := "(" + fast + ")"
				for _, v := range c12Values {
					cmp(fast, general, c12Row("x", v), "single", "x="+v.Name, c12TypeClass(v))
				}
			}
		}
		a.sample(map[string]any{"shortcut": "x > 9007199254740992", "general": "(x > 9007199254740992)", "values": len(c12Values)})
	case "compound":
		lits := []string{"0", "1", "-0.5", "'x'", "9007199254740992"}
		ops := []string{">", "<=", "==", "!="}
		vals := []int{0, 1, 2, 8, 9, 17, 21, 22, 25, 26, 29, 30, 34, 36, 37}
		idx := 0
		for _, conj := range []string{"&&", "||"} {
			for _, op1 := range ops {
				for _, l1 := range lits {
					for _, op2 := range ops {
						for _, l2 := range lits {
							idx++
							if idx%sp.Shards != sp.Shard {
								continue
							}
							fast := fmt.Sprintf("x %s %s %s y %s %s", op1, l1, conj, op2, l2)
							general := fmt.Sprintf("(x %s %s) %s (y %s %s)", op1, l1, conj, op2, l2)
							for _, i := range vals {
								for _, j := range vals {
									vx, vy := c12Values[i], c12Values[j]
									row := c12Row("x", vx)
									if !vy.Miss {
										row["y"] = vy.V
									}
									tc := c12TypeClass(vx)
									if t2 := c12TypeClass(vy); strings.Contains(t2, "2^53") {
										tc = t2
									}
									cmp(fast, general, row, "compound"+conj, "x="+vx.Name+",y="+vy.Name, tc)
								}
							}
							if u.Tier == "thorough" {
								// three-term chains
								fast3 := fast + " " + conj + " x != 2"
								general3 := general + " " + conj + " (x != 2)"
								for _, i := range vals {
									vx := c12Values[i]
									row := c12Row("x", vx)
									row["y"] = 1
									cmp(fast3, general3, row, "compound3"+conj, "x="+vx.Name+",y=int(1)", c12TypeClass(vx))
								}
							}
						}
					}
				}
			}
		}
		a.sample(map[string]any{"shortcut": "x > 0 && y <= 'x'", "general": "(x > 0) && (y <= 'x')"})
	case "mixed":
		// chains mixing && and || without parentheses: && binds tighter; the flat-chain shortcut must either decline
		// them or honour the precedence. General form: the same comparisons, fully parenthesised by precedence.
		cmps := []string{"x > 0", "y <= 1", "z == 'x'", "x != 2", "y < 0", "z != 'x'"}
		if u.Tier == "thorough" {
			cmps = append(cmps, "x >= 9007199254740992", "y == 1", "z > ''")
		}
		xs := []int{0, 1, 3, 8, 22, 29, 36, 37} // int 0, int 1, int 2, 2^53+1, -0.5, 'x', NULL, missing
		paren := func(c string) string { return "(" + c + ")" }
		for _, c1 := range cmps {
			for _, c2 := range cmps {
				for _, c3 := range cmps {
					forms := [][2]string{
						{c1 + " && " + c2 + " || " + c3, "(" + paren(c1) + " && " + paren(c2) + ") || " + paren(c3)},
						{c1 + " || " + c2 + " && " + c3, paren(c1) + " || (" + paren(c2) + " && " + paren(c3) + ")"},
					}
					if c1 < c2 { // four terms for half of the leading pairs
						forms = append(forms,
							[2]string{c1 + " && " + c2 + " || " + c3 + " && " + c1, "(" + paren(c1) + " && " + paren(c2) + ") || (" + paren(c3) + " && " + paren(c1) + ")"},
							[2]string{c1 + " || " + c2 + " && " + c3 + " || " + c2, paren(c1) + " || (" + paren(c2) + " && " + paren(c3) + ") || " + paren(c2)})
					}
					for _, f := range forms {
						for _, i := range xs {
							for _, j := range xs {
								for _, k := range []int{29, 0, 36, 37} {
									vx, vy, vz := c12Values[i], c12Values[j], c12Values[k]
									row := c12Row("x", vx)
									if !vy.Miss {
										row["y"] = vy.V
									}
									if !vz.Miss {
										row["z"] = vz.V
									}
									cmp(f[0], f[1], row, "mixed-and-or", "x="+vx.Name+",y="+vy.Name+",z="+vz.Name, c12TypeClass(vx))
								}
							}
						}
					}
				}
			}
		}
		a.sample(map[string]any{"shortcut": "x > 0 && y <= 1 || z == 'x'", "general": "((x > 0) && (y <= 1)) || (z == 'x')"})
	case "where":
		// the decision through the public API: WHERE text vs its parenthesised form, same rows
		jsonVals := []int{0, 1, 2, 8, 9, 21, 22, 25, 29, 30, 31, 34, 36, 37}
		var rows []Row
		var descs []string
		for _, i := range jsonVals {
			rows = append(rows, c12Row("x", c12Values[i]))
			descs = append(descs, "x="+c12Values[i].Name)
		}
		for _, op := range []string{">", ">=", "<", "<=", "=", "!=", "<>"} {
			for _, lit := range []string{"0", "1", "-1", "2.5", "9007199254740992", "'x'", "'1'"} {
				w := "x " + op + " " + lit
				r1, e1, st1, _ := syncEval("SELECT x FROM stream WHERE "+w, rows)
				r2, e2, st2, _ := syncEval("SELECT x FROM stream WHERE ("+w+")", rows)
				a.r.Evaluations += int64(2 * len(rows))
				cs := map[string]any{"where": w}
				if st1 != sched.StatusOK || st2 != sched.StatusOK {
					a.fail("C12|where|abort", "WHERE evaluation aborted the stream: "+st1.String()+"/"+st2.String(), cs, nil, nil)
					continue
				}
				if (e1 == "") != (e2 == "") {
					a.fail("C12|where|compile-mismatch", "plain: "+e1+" ; parenthesised: "+e2, cs, nil, nil)
					continue
				}
				if e1 != "" {
					a.r.Skipped++
					continue
				}
				for k := range rows {
					a.r.States++
					a.r.Nontrivial++
					acc1, acc2 := r1[k].Row != nil, r2[k].Row != nil
					if strings.HasPrefix(r1[k].Err, "PANIC") || strings.HasPrefix(r2[k].Err, "PANIC") {
						a.fail("C12|where|panic", r1[k].Err+r2[k].Err, map[string]any{"where": w, "row": descs[k]}, nil, nil)
					} else if acc1 != acc2 {
						a.fail(fmt.Sprintf("C12|where|decision-differs|value=%s", c12TypeClass(c12Values[jsonVals[k]])),
							fmt.Sprintf("WHERE %s on %s: accepted=%v, parenthesised form accepted=%v", w, descs[k], acc1, acc2), map[string]any{"where": w, "row": descs[k]}, acc2, acc1)
					}
				}
			}
		}
		// mixed AND/OR chains in SQL spelling (AND binds tighter)
		for _, m := range [][2]string{
			{"x > 0 AND x < 2 OR x = 2.5", "((x > 0) AND (x < 2)) OR (x = 2.5)"},
			{"x = 1 OR x > 2 AND x < 0", "(x = 1) OR ((x > 2) AND (x < 0))"},
			{"x = 'x' OR x != '1' AND x = ''", "(x = 'x') OR ((x != '1') AND (x = ''))"},
			{"x < 0 AND x > 1 OR x >= 1 AND x <= 1", "((x < 0) AND (x > 1)) OR ((x >= 1) AND (x <= 1))"},
			{"x = 2 OR x = 1 AND x = 2 OR x = -1", "(x = 2) OR ((x = 1) AND (x = 2)) OR (x = -1)"},
		} {
			r1, e1, st1, _ := syncEval("SELECT x FROM stream WHERE "+m[0], rows)
			r2, e2, st2, _ := syncEval("SELECT x FROM stream WHERE "+m[1], rows)
			a.r.Evaluations += int64(2 * len(rows))
			if st1 != sched.StatusOK || st2 != sched.StatusOK || e1 != "" || e2 != "" {
				a.fail("C12|where|mixed-abort", "WHERE "+m[0]+": "+e1+e2+st1.String()+"/"+st2.String(), map[string]any{"where": m[0]}, nil, nil)
				continue
			}
			for k := range rows {
				a.r.States++
				a.r.Nontrivial++
				if acc1, acc2 := r1[k].Row != nil, r2[k].Row != nil; acc1 != acc2 {
					a.fail("C12|where|mixed-and-or|decision-differs", fmt.Sprintf("WHERE %s on %s: accepted=%v, WHERE %s accepted=%v", m[0], descs[k], acc1, m[1], acc2),
						map[string]any{"where": m[0], "row": descs[k]}, acc2, acc1)
				}
			}
		}
		a.sample(map[string]any{"sql": "SELECT x FROM stream WHERE x >= 2.5", "vs": "SELECT x FROM stream WHERE (x >= 2.5)", "rows": descs})
	case "seams":
		c12Seams(a)
	}
	return a.result()
}

// c12Seams: HAVING, OVER-WHEN and TRIGGER-WHEN with shortcut-shaped predicates versus their
// parenthesised equivalents, on rows with heterogeneous value types.
func c12Seams(a *acc) {
	vals := []any{1, 2.5, int64(9007199254740993), -1, nil}
	type pair struct{ plain, paren string }
	var cases []pair
	for _, p := range []string{"s > 1", "s >= 2.5", "s != 1", "s > 9007199254740992"} {
		cases = append(cases, pair{
			"SELECT k, sum(v) AS s FROM stream GROUP BY k, CountingWindow(1) HAVING " + p,
			"SELECT k, sum(v) AS s FROM stream GROUP BY k, CountingWindow(1) HAVING (" + p + ")"})
	}
	for _, p := range []string{"count(*) >= 2", "sum(v) > 1", "max(v) >= 2.5"} {
		cases = append(cases, pair{
			"SELECT k, count(*) AS c, sum(v) AS s, max(v) AS m FROM stream GROUP BY k, GLOBAL WINDOW TRIGGER WHEN " + p,
			"SELECT k, count(*) AS c, sum(v) AS s, max(v) AS m FROM stream GROUP BY k, GLOBAL WINDOW TRIGGER WHEN (" + p + ")"})
	}
	for _, cse := range cases {
		var outs [2]string
		for i, sql := range []string{cse.plain, cse.paren} {
			r := detExec(sql, detOpts{Eager: true}, func(e *Env) {
				for j, v := range vals {
					row := Row{"k": "a", "id": j}
					if v != nil {
						row["v"] = v
					}
					e.Emit(row)
				}
			})
			a.r.Evaluations += int64(len(vals))
			a.r.States += int64(len(vals))
			a.r.Nontrivial += int64(len(vals))
			if r.ExecErr != "" {
				outs[i] = "ERR " + r.ExecErr
			} else {
				var bs []Batch
				for _, b := range r.Batches {
					var nb Batch
					for _, row := range b {
						delete(row, "window_id")
						delete(row, "window_start")
						delete(row, "window_end")
						nb = append(nb, row)
					}
					bs = append(bs, nb)
				}
				outs[i] = js(bs)
			}
		}
		if strings.HasPrefix(outs[0], "ERR") && strings.HasPrefix(outs[1], "ERR") {
			a.r.Skipped++
			continue
		}
		if outs[0] != outs[1] {
			kind := "having"
			if strings.Contains(cse.plain, "TRIGGER") {
				kind = "trigger-when"
			}
			a.fail("C12|"+kind+"|results-differ", fmt.Sprintf("%s delivers %s ; parenthesised predicate delivers %s", cse.plain, outs[0], outs[1]), map[string]any{"plain": cse.plain, "paren": cse.paren}, outs[1], outs[0])
		}
	}
	// the route a HAVING predicate takes must not depend on how the alias it names is spelt: aliases that carry
	// a keyword as an underscore- or digit-delimited segment decide as the neutral alias s does
	for _, p := range []string{"%s > 1", "%s >= 2.5 AND %s < 100", "%s != 1", "(%s > 1)", "%s > 100 OR %s > 1 AND %s < 3"} {
		run := func(alias string) string {
			sql := "SELECT k, sum(v) AS " + alias + " FROM stream GROUP BY k, CountingWindow(1) HAVING " + strings.ReplaceAll(p, "%s", alias)
			r := detExec(sql, detOpts{Eager: true}, func(e *Env) {
				for j, v := range vals {
					row := Row{"k": "a", "id": j}
					if v != nil {
						row["v"] = v
					}
					e.Emit(row)
				}
			})
			if r.ExecErr != "" {
				return "ERR " + r.ExecErr
			}
			var out []string
			for _, b := range r.Batches {
				for _, row := range b {
					out = append(out, fmt.Sprint(row[alias]))
				}
			}
			return strings.Join(out, ";")
		}
		want := run("s")
		for _, alias := range []string{"case_sum", "sum_case", "s_case_s", "end_s", "s_when", "then_1", "else2", "caseSum", "in_case_of"} {
			got := run(alias)
			a.r.Evaluations += int64(len(vals))
			a.r.States += int64(len(vals))
			a.r.Nontrivial += int64(len(vals))
			if got != want {
				a.fail("C12|having|alias-spelling-changes-result", fmt.Sprintf("HAVING %s over sum(v) AS %s keeps [%s]; with the alias s it keeps [%s]", strings.ReplaceAll(p, "%s", alias), alias, got, want), map[string]any{"predicate": p, "alias": alias}, want, got)
			}
		}
	}
	// OVER (... WHEN p)
	rows := []Row{{"k": "a", "v": 1}, {"k": "a", "v": 2.5}, {"k": "a", "v": int64(9007199254740993)}, {"k": "a", "v": -1}, {"k": "a"}, {"k": "a", "v": "x"}}
	for _, p := range []string{"v > 0", "v >= 2.5", "v > 9007199254740992", "v != 1"} {
		r1, e1, _, _ := syncEval("SELECT acc_count(v) OVER (PARTITION BY k WHEN "+p+") AS t FROM stream", rows)
		r2, e2, _, _ := syncEval("SELECT acc_count(v) OVER (PARTITION BY k WHEN ("+p+")) AS t FROM stream", rows)
		a.r.Evaluations += int64(2 * len(rows))
		a.r.States += int64(len(rows))
		a.r.Nontrivial += int64(len(rows))
		if e1 != "" && e2 != "" {
			a.r.Skipped++
			continue
		}
		if js(r1) != js(r2) || e1 != e2 {
			a.fail("C12|over-when|results-differ", fmt.Sprintf("WHEN %s: %s %s ; parenthesised: %s %s", p, js(r1), e1, js(r2), e2), map[string]any{"when": p}, js(r2), js(r1))
		}
	}
	// several WHEN predicates in ONE query that differ only in letter case, blanks or one character: each analytic
	// column must decide as the same predicate does when it is the only WHEN of a query
	whens := []string{"s = 'X'", "s = 'x'", "s != 'x'", "S = 'x'", "s = 'x '", "s  =  'x'", "s >= 'x'"}
	wrows := []Row{{"k": "a", "v": 1, "s": "x", "S": "y"}, {"k": "a", "v": 1, "s": "X", "S": "x"}, {"k": "a", "v": 1, "s": "x ", "S": "x"}, {"k": "a", "v": 1, "s": "y", "S": "X"}, {"k": "a", "v": 1, "s": "x", "S": "x"}}
	for rot := 0; rot < len(whens); rot++ {
		var cols []string
		for i := range whens {
			cols = append(cols, fmt.Sprintf("acc_count(v) OVER (PARTITION BY k WHEN %s) AS c%d", whens[(i+rot)%len(whens)], i))
		}
		multi, em, _, _ := syncEval("SELECT "+strings.Join(cols, ", ")+" FROM stream", wrows)
		for i := range whens {
			w := whens[(i+rot)%len(whens)]
			single, es, _, _ := syncEval("SELECT acc_count(v) OVER (PARTITION BY k WHEN "+w+") AS t FROM stream", wrows)
			a.r.Evaluations += int64(len(wrows))
			a.r.States += int64(len(wrows))
			a.r.Nontrivial += int64(len(wrows))
			if em != "" || es != "" {
				a.fail("C12|over-when|several-in-one-query|exec", em+" "+es, map[string]any{"when": w}, nil, nil)
				continue
			}
			for ri := range wrows {
				var got, want any
				if multi[ri].Row != nil {
					got = multi[ri].Row[fmt.Sprintf("c%d", i)]
				}
				if single[ri].Row != nil {
					want = single[ri].Row["t"]
				}
				if js(got) != js(want) {
					a.fail("C12|over-when|several-in-one-query|decision-differs", fmt.Sprintf("WHEN %s next to %d other WHEN predicates: counter after row %d is %v, alone in a query it is %v", w, len(whens)-1, ri+1, got, want), map[string]any{"when": w, "all": whens, "rotation": rot}, want, got)
					break
				}
			}
		}
	}
	a.sample(map[string]any{"having": cases[0].plain, "vs": cases[0].paren})
}

func (c12) Describe(tier string) fw.Description {
	return fw.Description{
		Level: "model_checking",
		Rule: "exhaustive product: (a) `x OP lit` for 8 operators x 12 literals x 40 typed values (every Go integer width, values beyond 2^53, float32/64 incl. NaN/Inf/-0, strings, bools, NULL, missing, slices, maps) through condition.NewExprCondition(text).Evaluate versus the parenthesised text (which misses every shortcut regex); (b) flat && / || chains of two comparisons (thorough: three) over 4 operators x 5 literals per side x 15x15 typed value pairs; (c) WHERE through EmitSync, HAVING, TRIGGER WHEN and OVER-WHEN with the predicate versus its parenthesised form; literals with blanks, line breaks and backslashes; chains mixing && and ||; several WHEN predicates in one query that differ only in letter case, blanks or one character; HAVING over nine keyword-bearing alias spellings against the neutral alias; TRIGGER WHEN last_value(t) = <literal> for eleven literals with foreign quotes, operators and keywords against a reference; a case = (predicate,row); predicates that compile in neither form are skipped and counted; non-trivial = both forms compiled and were compared",
		Bounds:      map[string]any{"values": len(c12Values), "ops": c12Ops, "num_literals": c12NumLits, "string_literals": c12StrLits},
		Assumptions: []string{"the parenthesised form is the general evaluator's decision for the same predicate (it cannot match the shortcut regexes, which reject parentheses)", "float64/int64 values other than the listed boundary values are not covered"},
	}
}

func init() { fw.Register(c12{}) }
