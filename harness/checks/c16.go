package checks

import (
	"fmt"
	"strings"

	"verifharness/explore"
	"verifharness/fw"

	"github.com/rulego/streamsql"
	"github.com/rulego/streamsql/logger"
	"github.com/rulego/streamsql/verifrt/sched"
	vsync "github.com/rulego/streamsql/verifrt/sync"
	vtime "github.com/rulego/streamsql/verifrt/time"
)

// C16: stream-table JOIN enriches each row from the table state at processing time.

// refKey is the reference's typed key: numbers compare numerically, strings exactly, never
// across number/string, NULL matches nothing.
func c16RefKey(v any) (string, bool) {
	switch x := v.(type) {
	case nil:
		return "", false
	case string:
		return "s:" + x, true
	}
	if f, ok := num(v); ok {
		return fmt.Sprintf("n:%v", f), true
	}
	return "", false
}

type c16Op struct {
	Kind string `json:"kind"` // emit | upsert | delete
	Key  []any  `json:"key"`
	Loc  string `json:"loc,omitempty"`
}

func (o c16Op) String() string {
	return fmt.Sprintf("%s%s%s", o.Kind, js(o.Key), o.Loc)
}

type c16Cfg struct {
	Name  string
	SQL   string
	Left  bool
	Keys  []string // table key fields
	Alias bool
	SKeys []string // stream-side field names of the ON pairs (default: the table key names)
}

func (c c16Cfg) streamKeys() []string {
	if len(c.SKeys) > 0 {
		return c.SKeys
	}
	return c.Keys
}

// c16NameConfigs: identifier diversity of the ON clause - stream/table aliases x stream/table key field
// names, including names that begin with the letters of their qualifier (s.sid, m.mid, st.t ...).
func c16NameConfigs() []c16Cfg {
	var out []c16Cfg
	for _, sa := range []string{"", "s", "st", "ms"} {
		for _, ta := range []string{"m", "t", ""} {
			for _, sf := range []string{"sid", "mid", "sensorId", "t", "s", "dev"} {
				for _, tf := range []string{"mid", "tid", "machineId", "m", "sid", "dev"} {
					for _, left := range []bool{false, true} {
						sq, tq := "", "meta."
						if sa != "" {
							sq = sa + "."
						}
						if ta != "" {
							tq = ta + "."
						}
						jt := "JOIN"
						if left {
							jt = "LEFT JOIN"
						}
						sql := fmt.Sprintf("SELECT %sid AS id, %sloc AS loc FROM stream %s %s meta %s ON %s%s = %s%s", sq, tq, sa, jt, ta, sq, sf, tq, tf)
						out = append(out, c16Cfg{Name: "names", SQL: strings.Join(strings.Fields(sql), " "), Left: left, Keys: []string{tf}, SKeys: []string{sf}})
					}
					if sf == "dev" && tf == "dev" {
						// the JOIN keywords in other spellings and letter cases (they are not lexer keywords)
						for _, sp := range []struct {
							jt, on string
							left   bool
						}{{"join", "on", false}, {"left join", "on", true}, {"Left Join", "On", true}, {"INNER JOIN", "ON", false}, {"inner join", "on", false}, {"LEFT OUTER JOIN", "ON", true}, {"left outer join", "on", true}} {
							sq, tq := "", "meta."
							if sa != "" {
								sq = sa + "."
							}
							if ta != "" {
								tq = ta + "."
							}
							sql := fmt.Sprintf("SELECT %sid AS id, %sloc AS loc FROM stream %s %s meta %s %s %s%s = %s%s", sq, tq, sa, sp.jt, ta, sp.on, sq, sf, tq, tf)
							out = append(out, c16Cfg{Name: "names", SQL: strings.Join(strings.Fields(sql), " "), Left: sp.left, Keys: []string{tf}, SKeys: []string{sf}})
						}
					}
				}
			}
		}
	}
	return out
}

// c16MultiJoin: two JOIN clauses in one statement, every combination of INNER / LEFT: a row is dropped iff a table
// it is INNER-joined with has no match; LEFT-joined tables without a match give NULL columns.
func c16MultiJoin() fw.Result {
	a := newAcc("C16", "join-multi")
	for _, jt := range [][2]string{{"JOIN", "JOIN"}, {"LEFT JOIN", "JOIN"}, {"JOIN", "LEFT JOIN"}, {"LEFT JOIN", "LEFT JOIN"}, {"LEFT JOIN", "INNER JOIN"}, {"INNER JOIN", "LEFT OUTER JOIN"}} {
		sql := fmt.Sprintf("SELECT id, m.loc AS loc, t.model AS model FROM stream %s meta m ON dev = m.dev %s models t ON site = t.site", jt[0], jt[1])
		var got []Row
		var execErr string
		var rows []Row
		for _, dev := range []any{1, 9} {
			for _, site := range []any{"x", "q"} {
				rows = append(rows, Row{"id": len(rows) + 1, "dev": dev, "site": site})
			}
		}
		st, pv := inSched(func() {
			s := streamsql.New(streamsql.WithLogger(logger.NewDiscardLogger()))
			if err := s.Execute(sql); err != nil {
				execErr = err.Error()
				return
			}
			if _, err := s.RegisterTable("meta", []map[string]any{{"dev": 1, "loc": "L1"}}); err != nil {
				execErr = err.Error()
			}
			if _, err := s.RegisterTable("models", []map[string]any{{"site": "x", "model": "Mx"}}); err != nil {
				execErr = err.Error()
			}
			for _, r := range rows {
				res, err := s.EmitSync(copyVal(r).(map[string]any))
				if err != nil {
					execErr = err.Error()
				}
				got = append(got, res)
			}
			s.Stop()
		})
		a.r.Evaluations += int64(len(rows))
		a.r.States += int64(len(rows))
		a.r.Transitions += int64(len(rows))
		a.r.Nontrivial++
		cs := map[string]any{"sql": sql, "rows": rows}
		if st != sched.StatusOK || execErr != "" {
			a.fail("C16|multi-join|exec", execErr+" "+st.String()+" "+firstLine(pv), cs, nil, nil)
			continue
		}
		left1, left2 := strings.HasPrefix(jt[0], "LEFT"), strings.HasPrefix(jt[1], "LEFT")
		for i, r := range rows {
			m1, m2 := r["dev"] == 1, r["site"] == "x"
			var want Row
			if (m1 || left1) && (m2 || left2) {
				want = Row{"id": r["id"], "loc": nil, "model": nil}
				if m1 {
					want["loc"] = "L1"
				}
				if m2 {
					want["model"] = "Mx"
				}
			}
			if ok, why := c05RowEq(got[i], want, nil); !ok {
				a.fail("C16|multi-join|"+strings.Fields(why)[0], fmt.Sprintf("%s on %s gives %s, reference %s", sql, js(r), js(got[i]), js(want)), cs, want, got[i])
				break
			}
		}
	}
	a.sample(map[string]any{"join_type_combinations": 6, "rows": 4})
	return a.result()
}

// c16TypedKeys: numbers are compared numerically whatever their Go type: for every pair of the 12 Go numeric
// types, a table key 1 of the first type is matched by a stream key 1 of the second and not by a 2.
func c16TypedKeys() fw.Result {
	a := newAcc("C16", "join-typed-keys")
	mk := func(t int, v int) any {
		switch t {
		case 0:
			return int(v)
		case 1:
			return int8(v)
		case 2:
			return int16(v)
		case 3:
			return int32(v)
		case 4:
			return int64(v)
		case 5:
			return uint(v)
		case 6:
			return uint8(v)
		case 7:
			return uint16(v)
		case 8:
			return uint32(v)
		case 9:
			return uint64(v)
		case 10:
			return float32(v)
		}
		return float64(v)
	}
	for _, cfg := range []c16Cfg{c16Configs()[2], c16Configs()[4]} { // inner-noalias, inner-composite
		for t1 := 0; t1 < 12; t1++ {
			init := []Row{{"dev": mk(t1, 1), "loc": "T"}}
			if len(cfg.Keys) > 1 {
				init[0]["site"] = "x"
			}
			var ops []c16Op
			for t2 := 0; t2 < 12; t2++ {
				for _, v := range []int{1, 2} {
					key := []any{mk(t2, v)}
					if len(cfg.Keys) > 1 {
						key = append(key, "x")
					}
					ops = append(ops, c16Op{Kind: "emit", Key: key})
				}
			}
			got, _, execErr, st, pv := c16Run(cfg, init, ops)
			a.r.Evaluations += int64(len(ops))
			a.r.States += int64(len(ops))
			a.r.Transitions += int64(len(ops))
			a.r.Nontrivial++
			cs := map[string]any{"sql": cfg.SQL, "table": fmt.Sprintf("%T(1)", init[0]["dev"])}
			if st != sched.StatusOK || execErr != "" {
				a.fail("C16|typed-keys|exec", execErr+" "+st.String()+" "+firstLine(pv), cs, nil, nil)
				continue
			}
			for i, op := range ops {
				wantMatch := i%2 == 0
				if (got[i] != nil) != wantMatch {
					a.fail(fmt.Sprintf("C16|typed-keys|match=%v-expected=%v", got[i] != nil, wantMatch), fmt.Sprintf("%s with table key %T(1): a row with key %T(%v) gives %s", cfg.SQL, init[0]["dev"], op.Key[0], op.Key[0], js(got[i])),
						map[string]any{"sql": cfg.SQL, "table_key_type": fmt.Sprintf("%T", init[0]["dev"]), "probe_type": fmt.Sprintf("%T", op.Key[0])}, wantMatch, got[i])
					break
				}
			}
		}
	}
	a.sample(map[string]any{"types": "int, int8..int64, uint..uint64, float32, float64", "pairs": 144})
	return a.result()
}

// c16KeyPairs: composite keys match only when every component matches - for every table key t1 and every
// probe key t2 over a component alphabet with separator- and tag-like strings, the probe matches iff the
// reference keys are equal.
func c16KeyPairs() fw.Result {
	a := newAcc("C16", "join-key-pairs")
	cfg := c16Configs()[4] // inner-composite
	comps := []any{"a", "b", "c", "", "\x1f", "a\x1fs:b", "b\x1fs:c", "s:a", "n:1", "1", 1, 1.0, "<nil>", "3:s:a"}
	var uni [][]any
	for _, x := range comps {
		for _, y := range comps {
			uni = append(uni, []any{x, y})
		}
	}
	for ti, t1 := range uni {
		init := []Row{{"dev": t1[0], "site": t1[1], "loc": "T"}}
		var ops []c16Op
		for _, t2 := range uni {
			ops = append(ops, c16Op{Kind: "emit", Key: t2})
		}
		got, want, execErr, st, pv := c16Run(cfg, init, ops)
		a.r.Evaluations += int64(len(ops))
		a.r.States += int64(len(ops))
		a.r.Transitions += int64(len(ops))
		a.r.Nontrivial++
		cs := map[string]any{"sql": cfg.SQL, "table": init}
		if st != sched.StatusOK || execErr != "" {
			a.fail("C16|key-pairs|exec", execErr+" "+st.String()+" "+firstLine(pv), cs, nil, nil)
			continue
		}
		for i := range want {
			if i >= len(got) || !c16Eq(got[i], want[i]) {
				kind := "different-keys-match"
				if want[i] != nil {
					kind = "equal-keys-do-not-match"
				}
				a.fail("C16|key-pairs|"+kind, fmt.Sprintf("%s with table key %s: a row with key %s gives %s, reference %s", cfg.SQL, js(t1), js(uni[i]), js(got[i]), js(want[i])),
					map[string]any{"sql": cfg.SQL, "table": init, "probe": uni[i]}, want[i], got[i])
				break
			}
		}
		if ti == 5 {
			a.sample(map[string]any{"sql": cfg.SQL, "table_key": t1, "probes": len(uni)})
		}
	}
	// the text tuples that collide under any "join the components with a middle" encoding: the partner must not match
	for _, pr := range collisionPairs() {
		for side := 0; side < 2; side++ {
			t1 := []any{pr[side][0], pr[side][1]}
			t2 := []any{pr[1-side][0], pr[1-side][1]}
			init := []Row{{"dev": t1[0], "site": t1[1], "loc": "T"}}
			ops := []c16Op{{Kind: "emit", Key: t1}, {Kind: "emit", Key: t2}}
			got, want, execErr, st, pv := c16Run(cfg, init, ops)
			a.r.Evaluations += 2
			a.r.States += 2
			a.r.Transitions += 2
			a.r.Nontrivial++
			if st != sched.StatusOK || execErr != "" {
				a.fail("C16|key-pairs|exec", execErr+" "+st.String()+" "+firstLine(pv), map[string]any{"sql": cfg.SQL, "table": init}, nil, nil)
				continue
			}
			for i := range want {
				if i >= len(got) || !c16Eq(got[i], want[i]) {
					kind := "different-keys-match"
					if want[i] != nil {
						kind = "equal-keys-do-not-match"
					}
					a.fail("C16|key-pairs|"+kind, fmt.Sprintf("%s with table key %s: a row with key %s gives %s, reference %s", cfg.SQL, js(t1), js(ops[i].Key), js(got[i]), js(want[i])),
						map[string]any{"sql": cfg.SQL, "table": init, "probe": ops[i].Key}, want[i], got[i])
					break
				}
			}
		}
	}
	return a.result()
}

// c16Names runs a fixed operation script on every naming configuration.
func c16Names() fw.Result {
	a := newAcc("C16", "join-names")
	ops := []c16Op{{Kind: "emit", Key: []any{1}}, {Kind: "upsert", Key: []any{1}}, {Kind: "emit", Key: []any{1}}, {Kind: "emit", Key: []any{"a"}}, {Kind: "emit", Key: []any{2}},
		{Kind: "delete", Key: []any{1}}, {Kind: "emit", Key: []any{1}}}
	for ci, cfg := range c16NameConfigs() {
		init := []Row{{cfg.Keys[0]: "a", "loc": "Ta"}}
		got, want, execErr, st, pv := c16Run(cfg, init, ops)
		a.r.Evaluations++
		a.r.States++
		a.r.Transitions += int64(len(ops))
		a.r.Nontrivial++
		cs := map[string]any{"sql": cfg.SQL, "table": init, "ops": ops}
		if st != sched.StatusOK || execErr != "" {
			a.fail("C16|names|exec", execErr+" "+st.String()+" "+firstLine(pv), cs, nil, nil)
			continue
		}
		a.outcome(js(got))
		for i := range want {
			if i >= len(got) || !c16Eq(got[i], want[i]) {
				a.fail("C16|names|wrong-join-result", fmt.Sprintf("%s: emit #%d gives %s, reference %s", cfg.SQL, i+1, js(got), js(want)), cs, want, got)
				break
			}
		}
		if ci == 17 {
			a.sample(map[string]any{"sql": cfg.SQL, "ops": fmt.Sprint(ops), "results": got})
		}
	}
	return a.result()
}

func c16Configs() []c16Cfg {
	return []c16Cfg{
		{"inner-alias", "SELECT s.id AS id, m.loc AS loc FROM stream s JOIN meta m ON s.dev = m.dev", false, []string{"dev"}, true, nil},
		{"left-alias", "SELECT s.id AS id, m.loc AS loc FROM stream s LEFT JOIN meta m ON s.dev = m.dev", true, []string{"dev"}, true, nil},
		{"inner-noalias", "SELECT id, m.loc AS loc FROM stream JOIN meta m ON dev = m.dev", false, []string{"dev"}, false, nil},
		{"left-where", "SELECT id, m.loc AS loc FROM stream LEFT JOIN meta m ON dev = m.dev WHERE id > 0", true, []string{"dev"}, false, nil},
		{"inner-composite", "SELECT id, m.loc AS loc FROM stream JOIN meta m ON dev = m.dev AND site = m.site", false, []string{"dev", "site"}, false, nil},
		{"left-composite", "SELECT id, m.loc AS loc FROM stream LEFT JOIN meta m ON dev = m.dev AND site = m.site", true, []string{"dev", "site"}, false, nil},
	}
}

func c16Alphabet(composite bool) []c16Op {
	if composite {
		var ops []c16Op
		for _, d := range []any{1, "1"} {
			for _, s := range []any{"x", "y"} {
				ops = append(ops, c16Op{Kind: "emit", Key: []any{d, s}})
			}
		}
		ops = append(ops, c16Op{Kind: "emit", Key: []any{1.0, "x"}}, c16Op{Kind: "emit", Key: []any{1, nil}},
			c16Op{Kind: "upsert", Key: []any{1, "x"}}, c16Op{Kind: "upsert", Key: []any{"1", "x"}}, c16Op{Kind: "upsert", Key: []any{1, "y"}},
			c16Op{Kind: "delete", Key: []any{1.0, "x"}}, c16Op{Kind: "delete", Key: []any{"1", "x"}},
			c16Op{Kind: "upsert-narrow", Key: []any{1, "x"}})
		return ops
	}
	var ops []c16Op
	for _, k := range []any{1, 1.0, "1", 2, "a", nil, 1000000, 1000000.0} {
		ops = append(ops, c16Op{Kind: "emit", Key: []any{k}})
	}
	for _, k := range []any{1, "1", 2.0, 1000000} {
		ops = append(ops, c16Op{Kind: "upsert", Key: []any{k}})
	}
	for _, k := range []any{1.0, "1", 2, 1000000.0} {
		ops = append(ops, c16Op{Kind: "delete", Key: []any{k}})
	}
	// a replacing row that no longer carries the joined column (the table row is replaced, not merged)
	ops = append(ops, c16Op{Kind: "upsert-narrow", Key: []any{1.0}})
	return ops
}

func c16InitialTables(composite bool) [][]Row {
	if composite {
		return [][]Row{nil, {{"dev": 1, "site": "x", "loc": "T1x"}, {"dev": "1", "site": "y", "loc": "TS1y"}}}
	}
	return [][]Row{nil, {{"dev": 1, "loc": "T1"}, {"dev": "a", "loc": "Ta"}}, {{"dev": "1", "loc": "TS1"}, {"dev": 2.0, "loc": "T2"}, {"dev": 1.0, "loc": "T1f"}}}
}

func c16KeyOf(cfg c16Cfg, vals []any) (string, bool) {
	var parts []string
	for _, v := range vals {
		k, ok := c16RefKey(v)
		if !ok {
			return "", false
		}
		parts = append(parts, k)
	}
	return strings.Join(parts, "\x00|"), true
}

type c16Out struct {
	ID  int
	Loc any // string or nil
}

// c16Run executes the ops on the real engine (sequentially, EmitSync) and on the reference.
// c16NoLoc: the reference's mark for a table row that exists but has no loc column
const c16NoLoc = "\x00no-loc"

func c16Run(cfg c16Cfg, init []Row, ops []c16Op) (got, want []*c16Out, execErr string, st sched.Status, pv string) {
	table := map[string]string{}
	for _, r := range init {
		var vals []any
		for _, f := range cfg.Keys {
			vals = append(vals, r[f])
		}
		if k, ok := c16KeyOf(cfg, vals); ok {
			table[k] = r["loc"].(string)
		}
	}
	st, pv = inSched(func() {
		s := streamsql.New(streamsql.WithLogger(logger.NewDiscardLogger()))
		if err := s.Execute(cfg.SQL); err != nil {
			execErr = err.Error()
			return
		}
		var initCopy []map[string]any
		for _, r := range init {
			initCopy = append(initCopy, copyVal(r).(map[string]any))
		}
		tbl, err := s.RegisterTable("meta", initCopy)
		if err != nil {
			execErr = "RegisterTable: " + err.Error()
			s.Stop()
			return
		}
		for i, op := range ops {
			switch op.Kind {
			case "emit":
				// the stream row carries a column of its own named like the selected table column: it must never
				// stand in for the table's column (no match -> NULL under LEFT JOIN)
				row := Row{"id": i + 1, "loc": fmt.Sprintf("own%d", i+1)}
				for j, f := range cfg.streamKeys() {
					if op.Key[j] != nil {
						row[f] = op.Key[j]
					} else {
						row[f] = nil
					}
				}
				res, err := s.EmitSync(row)
				if err != nil {
					execErr = "EmitSync: " + err.Error()
				}
				if res == nil {
					got = append(got, nil)
				} else {
					got = append(got, &c16Out{ID: toInt(res["id"]), Loc: res["loc"]})
				}
				var w *c16Out
				k, ok := c16KeyOf(cfg, op.Key)
				loc, match := table[k]
				switch {
				case ok && match && loc == c16NoLoc:
					w = &c16Out{ID: i + 1, Loc: nil}
				case ok && match:
					w = &c16Out{ID: i + 1, Loc: loc}
				case cfg.Left:
					w = &c16Out{ID: i + 1, Loc: nil}
				}
				want = append(want, w)
			case "upsert":
				row := Row{"loc": fmt.Sprintf("U%d", i+1)}
				for j, f := range cfg.Keys {
					row[f] = op.Key[j]
				}
				if err := s.UpsertTable("meta", row); err != nil {
					execErr = "UpsertTable: " + err.Error()
				}
				if k, ok := c16KeyOf(cfg, op.Key); ok {
					table[k] = fmt.Sprintf("U%d", i+1)
				}
			case "upsert-narrow":
				row := Row{"owner": fmt.Sprintf("O%d", i+1)}
				for j, f := range cfg.Keys {
					row[f] = op.Key[j]
				}
				if err := s.UpsertTable("meta", row); err != nil {
					execErr = "UpsertTable: " + err.Error()
				}
				if k, ok := c16KeyOf(cfg, op.Key); ok {
					table[k] = c16NoLoc
				}
			case "delete":
				if len(op.Key) == 1 {
					tbl.Delete(op.Key[0])
				} else {
					tbl.Delete(op.Key)
				}
				if k, ok := c16KeyOf(cfg, op.Key); ok {
					delete(table, k)
				}
			}
		}
		s.Stop()
	})
	return
}

func c16Eq(a, b *c16Out) bool {
	if (a == nil) != (b == nil) {
		return false
	}
	if a == nil {
		return true
	}
	return a.ID == b.ID && fmt.Sprint(a.Loc) == fmt.Sprint(b.Loc)
}

func c16Shape(ops []c16Op, failAt int, cfg c16Cfg) string {
	// which key kinds are involved in the failing emit
	var kinds []string
	emitIdx := -1
	n := 0
	for i, op := range ops {
		if op.Kind == "emit" {
			if n == failAt {
				emitIdx = i
			}
			n++
		}
	}
	if emitIdx >= 0 {
		for _, v := range ops[emitIdx].Key {
			switch v.(type) {
			case nil:
				kinds = append(kinds, "NULL")
			case string:
				kinds = append(kinds, "string")
			case float64:
				kinds = append(kinds, "float")
			default:
				kinds = append(kinds, "int")
			}
		}
	}
	return strings.Join(kinds, ",")
}

type c16 struct{}

func (c16) ID() string { return "C16" }

func (c16) Plan(tier string) []fw.Unit {
	us := planEnum("C16", tier, len(c16Configs()), 8)
	bound := 1
	if tier == "thorough" {
		bound = 2
	}
	for i, sc := range c16Scenarios() {
		us = append(us, fw.Unit{Check: "C16", Kind: "sched", Tier: tier, Spec: fw.Spec(schedSpec{Scn: i, Name: sc.Name, Items: []explore.Item{{}}, Bound: bound, Budget: 20000})})
	}
	us = append(us, fw.Unit{Check: "C16", Kind: "groupby", Tier: tier, Spec: fw.Spec(enumSpec{})})
	us = append(us, fw.Unit{Check: "C16", Kind: "names", Tier: tier, Spec: fw.Spec(enumSpec{})})
	us = append(us, fw.Unit{Check: "C16", Kind: "key-pairs", Tier: tier, Spec: fw.Spec(enumSpec{})})
	us = append(us, fw.Unit{Check: "C16", Kind: "typed-keys", Tier: tier, Spec: fw.Spec(enumSpec{})})
	us = append(us, fw.Unit{Check: "C16", Kind: "multi-join", Tier: tier, Spec: fw.Spec(enumSpec{})})
	us = append(us, fw.Unit{Check: "C16", Kind: "same-print", Tier: tier, Spec: fw.Spec(enumSpec{})})
	us = append(us, fw.Unit{Check: "C16", Kind: "reload", Tier: tier, Spec: fw.Spec(enumSpec{})})
	return us
}

func (c16) Run(u fw.Unit) fw.Result {
	if u.Kind == "sched" {
		return runSched("C16", u, c16Scenarios())
	}
	if u.Kind == "groupby" {
		return c16GroupBy()
	}
	if u.Kind == "names" {
		return c16Names()
	}
	if u.Kind == "key-pairs" {
		return c16KeyPairs()
	}
	if u.Kind == "typed-keys" {
		return c16TypedKeys()
	}
	if u.Kind == "multi-join" {
		return c16MultiJoin()
	}
	if u.Kind == "reload" {
		return c16Reload()
	}
	if u.Kind == "same-print" {
		return c16SamePrint()
	}
	sp := parseEnum(u)
	cfg := c16Configs()[sp.Cfg]
	composite := len(cfg.Keys) > 1
	a := newAcc("C16", "join-"+cfg.Name)
	alpha := c16Alphabet(composite)
	maxL := 3
	if u.Tier == "thorough" {
		maxL = 4
	}
	idx := 0
	for ti, init := range c16InitialTables(composite) {
		for L := 1; L <= maxL; L++ {
			sequences(L, len(alpha), func(ix []int) {
				idx++
				if idx%sp.Shards != sp.Shard {
					return
				}
				ops := make([]c16Op, len(ix))
				hasEmit := false
				for i, x := range ix {
					ops[i] = alpha[x]
					if ops[i].Kind == "emit" {
						hasEmit = true
					}
				}
				if !hasEmit {
					return
				}
				got, want, execErr, st, pv := c16Run(cfg, init, ops)
				a.r.Evaluations++
				a.r.States++
				a.r.Transitions += int64(len(ops))
				cs := map[string]any{"sql": cfg.SQL, "initial_table": init, "ops": ops}
				if execErr != "" || st != sched.StatusOK {
					a.fail("C16|"+cfg.Name+"|exec", execErr+" "+st.String()+" "+firstLine(pv), cs, nil, nil)
					return
				}
				a.outcome(js(got))
				for i := range want {
					if want[i] != nil && want[i].Loc != nil {
						a.r.Nontrivial++
						break
					}
				}
				for i := range want {
					if i >= len(got) || !c16Eq(got[i], want[i]) {
						var g any
						if i < len(got) {
							g = got[i]
						}
						kind := "wrong-enrichment"
						if want[i] == nil {
							kind = "unmatched-row-kept"
						} else if g == (*c16Out)(nil) || g == nil {
							kind = "matching-row-dropped"
						}
						a.fail(fmt.Sprintf("C16|%s|%s|key=%s", cfg.Name, kind, c16Shape(ops, i, cfg)), fmt.Sprintf("%s, table #%d, ops %v: emit #%d gives %s, reference %s", cfg.SQL, ti, ops, i+1, js(g), js(want[i])), cs, want, got)
						break
					}
				}
				if idx == 500 {
					a.sample(map[string]any{"sql": cfg.SQL, "initial_table": init, "ops": fmt.Sprint(ops), "results": got})
				}
			})
		}
	}
	return a.result()
}

// c16GroupBy: WHERE and GROUP BY may reference joined columns.
func c16GroupBy() fw.Result {
	a := newAcc("C16", "join-groupby")
	sql := "SELECT m.loc AS loc, count(*) AS c, collect(id) AS ids FROM stream s JOIN meta m ON s.dev = m.dev WHERE m.loc != 'skip' GROUP BY m.loc, CountingWindow(2)"
	tableRows := []Row{{"dev": 1, "loc": "A"}, {"dev": 2, "loc": "B"}, {"dev": 3, "loc": "A"}, {"dev": 4, "loc": "skip"}}
	locOf := map[int]string{1: "A", 2: "B", 3: "A", 4: "skip"}
	sequences(6, 5, func(ix []int) {
		devs := make([]int, len(ix))
		for i, x := range ix {
			devs[i] = x + 1 // dev 5 has no match
		}
		r := detExec(sql, detOpts{Eager: true, Setup: func(s *streamsql.Streamsql) error {
			_, err := s.RegisterTable("meta", copyBatch(tableRows))
			return err
		}}, func(e *Env) {
			for i, d := range devs {
				e.Emit(Row{"id": i + 1, "dev": d})
			}
		})
		a.r.Evaluations++
		a.r.States++
		a.r.Transitions += int64(r.Steps)
		cs := map[string]any{"sql": sql, "devs": devs}
		if r.ExecErr != "" || r.Status != sched.StatusOK {
			a.fail("C16|groupby|exec", r.ExecErr+" "+r.Status.String()+" "+firstLine(r.Panic), cs, nil, nil)
			return
		}
		buf := map[string][]int{}
		var want []string
		for i, d := range devs {
			loc, ok := locOf[d]
			if !ok || loc == "skip" {
				continue
			}
			buf[loc] = append(buf[loc], i+1)
			if len(buf[loc]) == 2 {
				want = append(want, fmt.Sprintf("%s%v", loc, buf[loc]))
				buf[loc] = nil
			}
		}
		var got []string
		for _, b := range r.Batches {
			for _, row := range b {
				got = append(got, fmt.Sprintf("%v%v", row["loc"], sortedInts(idList(row["ids"]))))
			}
		}
		if len(want) > 0 {
			a.r.Nontrivial++
		}
		a.outcome(strings.Join(got, ";"))
		if strings.Join(got, ";") != strings.Join(want, ";") {
			a.fail("C16|groupby|wrong-batches", fmt.Sprintf("%s with devs %v: delivered %v, reference %v", sql, devs, got, want), cs, want, got)
		}
	})
	a.sample(map[string]any{"sql": sql, "table": tableRows})
	return a.result()
}

// schedule scenarios: Emit x2 || Upsert then Delete
func c16Scenarios() []schedScenario {
	var out []schedScenario
	for _, left := range []bool{false, true} {
		left := left
		jt := "JOIN"
		if left {
			jt = "LEFT JOIN"
		}
		sql := "SELECT id, m.loc AS loc FROM stream " + jt + " meta m ON dev = m.dev"
		out = append(out, schedScenario{Name: "emit-vs-upsert-delete-" + jt, Params: map[string]any{"sql": sql}, Run: func(ch sched.Chooser, local map[int]bool) (*sched.Result, string, *explore.Failure) {
			type obs struct {
				id     int
				loc    any
				verMin int // table version when Emit was called
				verMax int // table version when the result was delivered
			}
			var seen []obs
			var execErr string
			version := 0       // mutations completed
			started := 0       // mutations started
			emitAt := map[int]int{}
			res := sched.Run(sched.Config{Chooser: ch, MaxSteps: 50000, Trace: traceFn()}, func() {
				s := streamsql.New(streamsql.WithLogger(logger.NewDiscardLogger()))
				if err := s.Execute(sql); err != nil {
					execErr = err.Error()
					return
				}
				tbl, err := s.RegisterTable("meta", []map[string]any{{"dev": 1, "loc": "v0"}})
				if err != nil {
					execErr = err.Error()
					return
				}
				s.AddSyncSink(func(rows []map[string]any) {
					for _, r := range rows {
						id := toInt(r["id"])
						seen = append(seen, obs{id: id, loc: r["loc"], verMin: emitAt[id], verMax: started})
					}
				})
				var wg vsync.WaitGroup
				wg.Add(2)
				sched.Go(func() {
					defer wg.Done()
					for i := 1; i <= 2; i++ {
						emitAt[i] = version
						s.Emit(Row{"id": i, "dev": 1})
					}
				})
				sched.Go(func() {
					defer wg.Done()
					started = 1
					s.UpsertTable("meta", Row{"dev": 1, "loc": "v1"})
					version = 1
					started = 2
					tbl.Delete(1)
					version = 2
				})
				wg.Wait()
				vtime.Sleep(150 * vtime.Millisecond)
				sched.Quiesce()
				s.Stop()
				sched.Quiesce()
			})
			outc := fmt.Sprint(seen)
			if execErr != "" {
				return res, outc, &explore.Failure{Signature: "C16|sched|exec", What: execErr}
			}
			if res.Status != sched.StatusOK {
				return res, outc, &explore.Failure{Signature: "C16|sched|" + res.Status.String(), What: "execution ended with " + res.Status.String() + " " + firstLine(res.PanicVal)}
			}
			// table versions: 0 -> loc v0, 1 -> v1, 2 -> no row
			verLoc := func(v int) (any, bool) {
				switch v {
				case 0:
					return "v0", true
				case 1:
					return "v1", true
				}
				if left {
					return nil, true
				}
				return nil, false // INNER: dropped
			}
			byID := map[int]obs{}
			for _, o := range seen {
				byID[o.id] = o
			}
			for id := 1; id <= 2; id++ {
				o, delivered := byID[id]
				okAny := false
				lo := emitAt[id]
				for v := lo; v <= 2; v++ {
					loc, present := verLoc(v)
					if delivered && present && fmt.Sprint(loc) == fmt.Sprint(o.loc) && v <= o.verMax {
						okAny = true
					}
					if !delivered && !present {
						okAny = true
					}
				}
				if !okAny {
					return res, outc, &explore.Failure{Signature: "C16|sched|stale-or-impossible-table-version", What: fmt.Sprintf("row %d emitted at table version %d: delivered=%v loc=%v, not the join against any table version between the versions at Emit and at delivery", id, lo, delivered, o.loc), Observed: outc}
				}
			}
			return res, outc, nil
		}})
	}
	return out
}

func (c16) Describe(tier string) fw.Description {
	return fw.Description{
		Level: "model_checking",
		Rule: "(a) 6 JOIN queries (INNER/LEFT, with/without stream and table aliases, WHERE, composite ON) x 2-3 initial tables x all operation sequences of length 1..L over {EmitSync(key), UpsertTable(key), Delete(key)} with key components from {1, 1.0, '1', 2, 'a', NULL, 1000000, 1000000.0} (composite: {1,'1',1.0} x {'x','y',NULL}) on the real engine against a typed-key reference table (numbers numeric, strings exact, never across, NULL matches nothing); (a2) 864 naming configurations (stream alias none|s|st|ms x table alias m|t|none x stream key field x table key field, incl. names starting with the letters of their qualifier; INNER/LEFT) on a fixed 7-operation script; (a3) composite-key pair search: every (table key, probe key) pair over 15 component values incl. unit-separator-, tag- and NULL-marker-like strings must match iff equal; (a5) upserts whose row prints like the stored one (7 / text 7 / 7.0, true / text true, a text spelling two columns): all ordered triples per family, value and Go type compared after each upsert; (a4) JOIN keyword spellings, an upsert that narrows a table row, key tuples colliding under faulty encoders; (b) WHERE + GROUP BY on a joined column with CountingWindow(2) over all dev sequences of length 6; (c) schedules: a thread emitting two rows against a thread doing Upsert then Delete, all interleavings with <= bound deviations: each delivered row must be the join against a table version between the version when Emit was called and the version when the result was delivered; non-trivial = at least one emit matched",
		Bounds:      map[string]any{"max_ops": map[string]int{"quick": 3, "thorough": 4}, "sched_bound": map[string]int{"quick": 1, "thorough": 2}},
		Assumptions: []string{"a NULL key component matches nothing (SQL equality)"},
	}
}

func (c16) Replay(v fw.Violation) (string, bool) {
	m := caseMap(v)
	if _, ok := m["scn"]; ok {
		return replaySched(c16Scenarios(), m)
	}
	return "sequential case: see the ops in the replay file", false
}

func init() { fw.Register(c16{}) }
