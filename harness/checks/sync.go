package checks

import (
	"fmt"

	"github.com/rulego/streamsql"
	"github.com/rulego/streamsql/logger"
	"github.com/rulego/streamsql/verifrt/sched"
)

// syncResult is the outcome of one EmitSync call.
type syncResult struct {
	Row Row
	Err string
}

// syncEval creates one instance for the query, feeds the rows through EmitSync in order and
// stops it; everything under the deterministic scheduler (the instance's goroutines exist but
// only run when the harness blocks).
func syncEval(sql string, rows []Row, opts ...streamsql.Option) (out []syncResult, execErr string, status sched.Status, panicVal string) {
	res := sched.Run(sched.Config{MaxSteps: 5000000}, func() {
		o := append([]streamsql.Option{streamsql.WithLogger(logger.NewDiscardLogger())}, opts...)
		s := streamsql.New(o...)
		if err := s.Execute(sql); err != nil {
			execErr = err.Error()
			return
		}
		for _, r := range rows {
			func() {
				defer func() {
					if p := recover(); p != nil {
						out = append(out, syncResult{Err: fmt.Sprintf("PANIC: %v", p)})
					}
				}()
				got, err := s.EmitSync(r)
				sr := syncResult{}
				if err != nil {
					sr.Err = err.Error()
				}
				if got != nil {
					sr.Row = copyVal(got).(map[string]any)
				}
				out = append(out, sr)
			}()
		}
		s.Stop()
	})
	return out, execErr, res.Status, res.PanicVal
}

// inSched runs f under the deterministic scheduler (for code that creates engine instances).
func inSched(f func()) (sched.Status, string) {
	res := sched.Run(sched.Config{MaxSteps: 50000000}, f)
	return res.Status, res.PanicVal
}
