package checks

import (
	"math"
	"fmt"
	"sort"
	"strings"

	"verifharness/fw"
	"verifharness/ref"

	"github.com/rulego/streamsql/verifrt/sched"
)

// C07: post-aggregation clauses apply in relational order to each emitted batch.

type c07Group struct {
	K  string
	V  []ref.Val
	W2 []ref.Val
}

type c07Item struct {
	SQL, Alias string
	Eval       func(g c07Group) (float64, bool) // ok=false: NULL
}

// c07Unspec: the property does not fix the item's value for this group (percentile over no usable input);
// such (query, dataset) pairs are skipped
var c07Unspec = map[string]func(g c07Group) bool{
	"sp": func(g c07Group) bool { return len(ref.Usable(g.V)) == 0 },
	// CASE over a NULL operand is C06's subject (known finding there); groups with a NULL value are left out
	"sc": func(g c07Group) bool { return len(ref.Usable(g.V)) != len(g.V) },
}

func agg1(f func([]float64) float64, vs []ref.Val) (float64, bool) {
	xs := ref.Usable(vs)
	if len(xs) == 0 {
		return 0, false
	}
	return f(xs), true
}

var c07Items = []c07Item{
	{"sum(v) AS s", "s", func(g c07Group) (float64, bool) { return agg1(ref.Sum, g.V) }},
	{"avg(v) * 2 AS x", "x", func(g c07Group) (float64, bool) { a, ok := agg1(ref.Mean, g.V); return a * 2, ok }},
	{"avg(v) * 1.8 + 32 AS f", "f", func(g c07Group) (float64, bool) { a, ok := agg1(ref.Mean, g.V); return a*1.8 + 32, ok }},
	{"sum(v) + count(*) AS y", "y", func(g c07Group) (float64, bool) { a, ok := agg1(ref.Sum, g.V); return a + float64(len(g.V)), ok }},
	{"(max(v) - min(v)) / 2 AS z", "z", func(g c07Group) (float64, bool) {
		a, ok := agg1(ref.Max, g.V)
		b, _ := agg1(ref.Min, g.V)
		return (a - b) / 2, ok
	}},
	{"sum(v * 2) + 1 AS w", "w", func(g c07Group) (float64, bool) { a, ok := agg1(ref.Sum, g.V); return a*2 + 1, ok }},
	{"max(v) - min(w2) AS d", "d", func(g c07Group) (float64, bool) {
		a, ok := agg1(ref.Max, g.V)
		b, ok2 := agg1(ref.Min, g.W2)
		return a - b, ok && ok2
	}},
	{"count(*) AS n", "n", func(g c07Group) (float64, bool) { return float64(len(g.V)), true }},
	// the same parameterised aggregate twice on one column, differing only in the later argument
	{"percentile(v, 1) - percentile(v, 0) AS sp", "sp", func(g c07Group) (float64, bool) {
		a, ok := agg1(ref.Max, g.V)
		b, _ := agg1(ref.Min, g.V)
		return a - b, ok
	}},
	// scalar function over an aggregate, aggregate over a scalar function, aggregate over CASE
	{"abs(min(v) - 3) AS ab", "ab", func(g c07Group) (float64, bool) { a, ok := agg1(ref.Min, g.V); return math.Abs(a - 3), ok }},
	{"sum(abs(v - 2)) AS sa", "sa", func(g c07Group) (float64, bool) {
		xs := ref.Usable(g.V)
		t := 0.0
		for _, x := range xs {
			t += math.Abs(x - 2)
		}
		return t, len(xs) > 0
	}},
	{"sum(abs(v)) AS sab", "sab", func(g c07Group) (float64, bool) {
		xs := ref.Usable(g.V)
		t := 0.0
		for _, x := range xs {
			t += math.Abs(x)
		}
		return t, len(xs) > 0
	}},
	{"sum(CASE WHEN v > 1 THEN 1 ELSE 0 END) AS sc", "sc", func(g c07Group) (float64, bool) {
		t := 0.0
		for _, x := range ref.Usable(g.V) {
			if x > 1 {
				t++
			}
		}
		return t, true
	}},
	// two aggregates over different expression arguments in one item
	{"sum(v * 2) + sum(w2 * 3) AS ee", "ee", func(g c07Group) (float64, bool) {
		a, ok := agg1(ref.Sum, g.V)
		b, ok2 := agg1(ref.Sum, g.W2)
		return a*2 + b*3, ok && ok2
	}},
	// the same aggregate on two columns
	{"sum(v) - sum(w2) AS sd2", "sd2", func(g c07Group) (float64, bool) {
		a, ok := agg1(ref.Sum, g.V)
		b, ok2 := agg1(ref.Sum, g.W2)
		return a - b, ok && ok2
	}},
	// the very same call written twice in one item
	{"(max(v) - min(v)) / (max(v) + 1) AS rr", "rr", func(g c07Group) (float64, bool) {
		a, ok := agg1(ref.Max, g.V)
		b, _ := agg1(ref.Min, g.V)
		return (a - b) / (a + 1), ok
	}},
	{"sum(v) * sum(v) AS sq", "sq", func(g c07Group) (float64, bool) { a, ok := agg1(ref.Sum, g.V); return a * a, ok }},
	// one aggregate call followed by an operator and a parenthesised tail (the item ends in ')')
	{"sum(v) * (1 + 1) AS p2", "p2", func(g c07Group) (float64, bool) { a, ok := agg1(ref.Sum, g.V); return a * 2, ok }},
	{"avg(v) - (3) AS p3", "p3", func(g c07Group) (float64, bool) { a, ok := agg1(ref.Mean, g.V); return a - 3, ok }},
	{"(1 + 1) * sum(v) AS p4", "p4", func(g c07Group) (float64, bool) { a, ok := agg1(ref.Sum, g.V); return a * 2, ok }},
	// a column whose name has an upper-case letter
	{"max(vLoad) - avg(vLoad) AS ml", "ml", func(g c07Group) (float64, bool) {
		a, ok := agg1(ref.Max, g.V)
		b, _ := agg1(ref.Mean, g.V)
		return a - b, ok
	}},
}

type c07Having struct {
	SQL  string
	Need []int // items that must be selected (aliases referenced)
	Pass func(g c07Group, vals map[string]*float64) bool
}

func gt(p *float64, x float64) bool { return p != nil && *p > x }
func lt(p *float64, x float64) bool { return p != nil && *p < x }

func c07Agg(g c07Group, f func([]float64) float64) *float64 {
	if v, ok := agg1(f, g.V); ok {
		return &v
	}
	return nil
}

var c07Havings = []c07Having{
	{"", nil, func(g c07Group, v map[string]*float64) bool { return true }},
	{"s > 2", []int{0}, func(g c07Group, v map[string]*float64) bool { return gt(v["s"], 2) }},
	{"sum(v) > 2", nil, func(g c07Group, v map[string]*float64) bool { return gt(c07Agg(g, ref.Sum), 2) }},
	{"max(v) > 2", nil, func(g c07Group, v map[string]*float64) bool { return gt(c07Agg(g, ref.Max), 2) }},
	{"count(*) >= 2", nil, func(g c07Group, v map[string]*float64) bool { return len(g.V) >= 2 }},
	{"s > 2 AND count(*) >= 2", []int{0}, func(g c07Group, v map[string]*float64) bool { return gt(v["s"], 2) && len(g.V) >= 2 }},
	{"min(v) < 2 OR s > 6", []int{0}, func(g c07Group, v map[string]*float64) bool { return lt(c07Agg(g, ref.Min), 2) || gt(v["s"], 6) }},
	{"x > 3", []int{1}, func(g c07Group, v map[string]*float64) bool { return gt(v["x"], 3) }}, // alias of an expression item (avg(v) * 2)
	{"CASE WHEN s > 2 THEN 1 ELSE 0 END", []int{0}, func(g c07Group, v map[string]*float64) bool { return gt(v["s"], 2) }},
	{"CASE WHEN count(*) >= 2 THEN 1 ELSE 0 END", nil, func(g c07Group, v map[string]*float64) bool { return len(g.V) >= 2 }}, // a CASE over an aggregate that is not selected
	// logical NOT directly on an aggregate call, and as the last predicate of a parenthesised group (count(*) is never NULL)
	{"NOT count(*) > 2", nil, func(g c07Group, v map[string]*float64) bool { return !(len(g.V) > 2) }},
	{"(count(*) > 2 OR NOT count(*) > 1) AND count(*) < 3", nil, func(g c07Group, v map[string]*float64) bool {
		n := len(g.V)
		return (n > 2 || !(n > 1)) && n < 3
	}},
	{"avg(v) > 1 AND max(v) < 5", nil, func(g c07Group, v map[string]*float64) bool { return gt(c07Agg(g, ref.Mean), 1) && lt(c07Agg(g, ref.Max), 5) }},
	// flat chains that mix OR and AND without parentheses (AND binds tighter)
	{"count(*) >= 3 OR count(*) >= 1 AND count(v) < 2", nil, func(g c07Group, v map[string]*float64) bool {
		n, nv := len(g.V), 0
		for _, x := range g.V {
			if x.Present && !x.Null {
				nv++
			}
		}
		return n >= 3 || n >= 1 && nv < 2
	}},
	{"s > 6 OR s > 2 AND count(*) >= 2", []int{0}, func(g c07Group, v map[string]*float64) bool { return gt(v["s"], 6) || gt(v["s"], 2) && len(g.V) >= 2 }},
}

type c07Order struct {
	SQL  string
	Keys []string // alias or "k"
	Desc []bool
	Need []int
}

var c07Orders = []c07Order{
	{"", nil, nil, nil},
	{"ORDER BY k", []string{"k"}, []bool{false}, nil},
	{"ORDER BY k DESC", []string{"k"}, []bool{true}, nil},
	{"ORDER BY s, k", []string{"s", "k"}, []bool{false, false}, []int{0}},
	{"ORDER BY s DESC, k ASC", []string{"s", "k"}, []bool{true, false}, []int{0}},
	{"ORDER BY n DESC, k DESC", []string{"n", "k"}, []bool{true, true}, []int{7}},
	{"ORDER BY n ASC, s DESC, k", []string{"n", "s", "k"}, []bool{false, true, false}, []int{7, 0}},
}

var c07Limits = []int{0, 1, 2, 5}

// datasets: groups with values (NULL included), equal sums for ties
func c07Datasets() [][]c07Group {
	n := func(xs ...any) []ref.Val {
		var out []ref.Val
		for _, x := range xs {
			if x == nil {
				out = append(out, ref.Null())
			} else {
				f, _ := num(x)
				out = append(out, ref.Num(f))
			}
		}
		return out
	}
	return [][]c07Group{
		{{"a", n(1, 2, 4), n(1, 1, 1)}, {"b", n(4), n(2)}, {"c", n(2, 1), n(0, 3)}},
		{{"a", n(1), n(5)}},
		{{"a", n(nil, nil), n(1, 2)}, {"b", n(2, nil, 4), n(nil, 1, 1)}, {"c", n(4, 2), n(3, 3)}},
		{{"a", n(3), n(1)}, {"b", n(1, 2), n(1, 1)}, {"c", n(2, 1), n(1, 1)}}, // equal sums and counts
		{{"b", n(4, 4), n(1, 2)}, {"a", n(1, 1, 1), n(2, 2, 2)}},
		// aggregates of one group on different sides of the HAVING thresholds (avg <= 1 < max < 5; avg > 1, max >= 5; min < 2, sum <= 6)
		{{"a", n(0, 0, 3), n(1, 1, 1)}, {"b", n(5, 1), n(2, 2)}, {"c", n(1, 5), n(0, 1)}, {"d", n(2.5, 2.5), n(3, 3)}},
		// sort keys closer than 1 to each other and on both sides of zero (arrival order differs from every sorted order)
		{{"c", n(2.4), n(1)}, {"a", n(2.7), n(1)}, {"e", n(-0.4), n(1)}, {"b", n(2.1), n(1)}, {"d", n(0.4), n(1)}},
		// text keys that read as numbers: ORDER BY k is the order of texts ("10" < "100" < "1e1" < "9")
		{{"9", n(1, 1), n(1, 1)}, {"100", n(4), n(1)}, {"10", n(2, 1), n(1, 1)}, {"1e1", n(4, 4), n(1, 1)}},
	}
}

type c07Prog struct {
	Items    []int
	Having   int
	Order    int
	Limit    int
	Distinct bool
	SelectK  bool
}

func (p c07Prog) SQL() string {
	var it []string
	if p.SelectK {
		it = append(it, "k")
	}
	for _, i := range p.Items {
		it = append(it, c07Items[i].SQL)
	}
	s := "SELECT "
	if p.Distinct {
		s += "DISTINCT "
	}
	s += strings.Join(it, ", ") + " FROM stream GROUP BY k, TumblingWindow('2s')"
	if h := c07Havings[p.Having].SQL; h != "" {
		s += " HAVING " + h
	}
	s += " WITH (TIMESTAMP='ts', TIMEUNIT='ms')"
	if o := c07Orders[p.Order].SQL; o != "" {
		s += " " + o
	}
	if p.Limit > 0 {
		s += fmt.Sprintf(" LIMIT %d", p.Limit)
	}
	return s
}

func hasAll(items []int, need []int) bool {
	for _, n := range need {
		ok := false
		for _, i := range items {
			if i == n {
				ok = true
			}
		}
		if !ok {
			return false
		}
	}
	return true
}

func c07Progs(tier string) []c07Prog {
	itemSets := [][]int{{0}, {1}, {2}, {3}, {4}, {5}, {6}, {8}, {9}, {10}, {11}, {12}, {13}, {14}, {0, 7}, {0, 1, 4}, {7, 0, 2}, {0, 6, 7}, {8, 4}, {14, 0}, {9, 10, 12}, {11, 0}, {13, 5}, {15}, {16}, {15, 0, 16}, {20}, {20, 0}, {17}, {18}, {19}, {17, 0, 19}}
	var out []c07Prog
	for _, its := range itemSets {
		for h := range c07Havings {
			if !hasAll(its, c07Havings[h].Need) {
				continue
			}
			for o := range c07Orders {
				if !hasAll(its, c07Orders[o].Need) {
					continue
				}
				for _, l := range c07Limits {
					for _, d := range []bool{false, true} {
						if tier == "quick" && d && (l != 0 || o > 1) {
							continue
						}
						out = append(out, c07Prog{Items: its, Having: h, Order: o, Limit: l, Distinct: d, SelectK: !d})
						if d {
							out = append(out, c07Prog{Items: its, Having: h, Order: 0, Limit: l, Distinct: d, SelectK: false})
						}
					}
				}
			}
		}
	}
	return out
}

type c07Row struct {
	K    string
	Vals map[string]*float64
}

func c07Reference(p c07Prog, ds []c07Group) (survivors []c07Row) {
	for _, g := range ds {
		vals := map[string]*float64{}
		for _, i := range p.Items {
			if v, ok := c07Items[i].Eval(g); ok {
				vv := v
				vals[c07Items[i].Alias] = &vv
			} else {
				vals[c07Items[i].Alias] = nil
			}
		}
		if c07Havings[p.Having].Pass(g, vals) {
			survivors = append(survivors, c07Row{g.K, vals})
		}
	}
	return survivors
}

// less compares two rows by the ORDER BY keys (NULLs compare lowest; the docs do not say, so
// rows with a NULL key are exempted by the caller).
func c07Cmp(o c07Order, a, b c07Row) int {
	for i, k := range o.Keys {
		var c int
		if k == "k" {
			c = strings.Compare(a.K, b.K)
		} else {
			x, y := a.Vals[k], b.Vals[k]
			switch {
			case x == nil || y == nil:
				c = 0
			case *x < *y:
				c = -1
			case *x > *y:
				c = 1
			}
		}
		if o.Desc[i] {
			c = -c
		}
		if c != 0 {
			return c
		}
	}
	return 0
}

func c07RowKey(p c07Prog, r c07Row) string {
	var parts []string
	if p.SelectK {
		parts = append(parts, r.K)
	}
	for _, i := range p.Items {
		v := r.Vals[c07Items[i].Alias]
		if v == nil {
			parts = append(parts, "NULL")
		} else {
			parts = append(parts, fmt.Sprintf("%.9g", *v))
		}
	}
	return strings.Join(parts, "|")
}

var extraK bool

func c07Parse(p c07Prog, b Batch) ([]c07Row, string) {
	var out []c07Row
	extraK = false
	for _, row := range b {
		r := c07Row{Vals: map[string]*float64{}}
		for k, v := range row {
			if strings.HasPrefix(k, "__") {
				return nil, "helper column " + k + " delivered"
			}
			switch k {
			case "k":
				r.K, _ = v.(string)
			case "window_id", "window_start", "window_end":
			default:
				if v == nil {
					r.Vals[k] = nil
				} else if f, ok := num(v); ok {
					ff := f
					r.Vals[k] = &ff
				} else {
					return nil, fmt.Sprintf("column %s is not numeric: %v", k, v)
				}
			}
		}
		if !p.SelectK {
			if _, has := row["k"]; has {
				extraK = true // reported, but the remaining checks still run (the finding is known)
			}
		}
		for _, i := range p.Items {
			if _, ok := r.Vals[c07Items[i].Alias]; !ok {
				return nil, "selected column " + c07Items[i].Alias + " missing"
			}
		}
		if len(r.Vals) != len(p.Items) {
			return nil, fmt.Sprintf("unexpected columns in %s", js(row))
		}
		out = append(out, r)
	}
	return out, ""
}

func c07Check(p c07Prog, ds []c07Group, batches []Batch) (kind, what string) {
	surv := c07Reference(p, ds)
	var got []c07Row
	if len(batches) > 1 {
		return "batches", fmt.Sprintf("expected one batch for the single window, got %d", len(batches))
	}
	if len(batches) == 1 {
		var perr string
		got, perr = c07Parse(p, batches[0])
		if perr != "" {
			return "shape", perr
		}
	}
	// values: every delivered row must be a surviving reference row (multiset)
	refCount := map[string]int{}
	for _, r := range surv {
		refCount[c07RowKey(p, r)]++
	}
	if p.Distinct {
		for k := range refCount {
			refCount[k] = 1
		}
	}
	total := 0
	for _, n := range refCount {
		total += n
	}
	gotCount := map[string]int{}
	for _, r := range got {
		k := c07RowKey(p, r)
		gotCount[k]++
		if gotCount[k] > refCount[k] {
			if refCount[k] == 0 {
				return "wrong-row", fmt.Sprintf("delivered row %s is not a HAVING-surviving reference row %v", k, keys(refCount))
			}
			return "duplicate-row", fmt.Sprintf("row %s delivered %d times, reference %d", k, gotCount[k], refCount[k])
		}
	}
	want := total
	if p.Limit > 0 && want > p.Limit {
		want = p.Limit
	}
	if len(got) != want {
		return "row-count", fmt.Sprintf("%d rows delivered, reference %d (survivors %d, limit %d, distinct %v): got %v, reference %v", len(got), want, total, p.Limit, p.Distinct, keys(gotCount), keys(refCount))
	}
	o := c07Orders[p.Order]
	if len(o.Keys) > 0 && (p.SelectK || !containsStr(o.Keys, "k")) {
		nullKey := func(r c07Row) bool {
			for _, k := range o.Keys {
				if k != "k" && r.Vals[k] == nil {
					return true
				}
			}
			return false
		}
		for i := 1; i < len(got); i++ {
			if nullKey(got[i-1]) || nullKey(got[i]) {
				continue // where NULL keys sort is not documented
			}
			if c07Cmp(o, got[i-1], got[i]) > 0 {
				return "order", fmt.Sprintf("rows not sorted by %q: %s before %s", o.SQL, c07RowKey(p, got[i-1]), c07RowKey(p, got[i]))
			}
		}
		// LIMIT keeps the first n of the order: no excluded survivor sorts strictly before the last kept row
		if p.Limit > 0 && len(got) > 0 && total > len(got) && !p.Distinct {
			last := got[len(got)-1]
			kept := map[string]int{}
			for _, r := range got {
				kept[c07RowKey(p, r)]++
			}
			for _, r := range surv {
				k := c07RowKey(p, r)
				if kept[k] > 0 {
					kept[k]--
					continue
				}
				if nullKey(r) || nullKey(last) {
					continue
				}
				if c07Cmp(o, r, last) < 0 {
					return "limit-before-order", fmt.Sprintf("LIMIT %d dropped %s although it sorts before the kept row %s under %q", p.Limit, k, c07RowKey(p, last), o.SQL)
				}
			}
		}
	}
	return "", ""
}

func containsStr(a []string, x string) bool {
	for _, y := range a {
		if y == x {
			return true
		}
	}
	return false
}

func keys(m map[string]int) []string {
	var out []string
	for k, n := range m {
		out = append(out, fmt.Sprintf("%s x%d", k, n))
	}
	sort.Strings(out)
	return out
}

func c07Feed(ds []c07Group) func(e *Env) {
	return func(e *Env) {
		id := 0
		maxLen := 0
		for _, g := range ds {
			if len(g.V) > maxLen {
				maxLen = len(g.V)
			}
		}
		// interleave the groups
		for i := 0; i < maxLen; i++ {
			for _, g := range ds {
				if i >= len(g.V) {
					continue
				}
				id++
				row := Row{"k": g.K, "ts": 100 + id*10, "id": id}
				if g.V[i].Usable() {
					row["v"] = g.V[i].F
					row["vLoad"] = g.V[i].F // the same value under a name with an upper-case letter
				} else {
					row["v"] = nil
					row["vLoad"] = nil
				}
				if g.W2[i].Usable() {
					row["w2"] = g.W2[i].F
				}
				e.Emit(row)
			}
		}
		e.Emit(Row{"k": "zz", "ts": 90000, "v": 0, "vLoad": 0, "w2": 0, "id": 999})
	}
}

type c07 struct{}

func (c07) ID() string { return "C07" }

func (c07) Plan(tier string) []fw.Unit {
	return append(planEnum("C07", tier, 1, 16), fw.Unit{Check: "C07", Kind: "batches", Tier: tier, Spec: fw.Spec(enumSpec{})})
}

func (c07) Run(u fw.Unit) fw.Result {
	if u.Kind == "batches" {
		return c07Batches(u.Tier)
	}
	sp := parseEnum(u)
	a := newAcc("C07", "det-postagg")
	progs := c07Progs(u.Tier)
	dss := c07Datasets()
	for pi, p := range progs {
		if pi%sp.Shards != sp.Shard {
			continue
		}
		sql := p.SQL()
		for di, ds := range dss {
			unspec := false
			for _, i := range p.Items {
				for _, g := range ds {
					if f := c07Unspec[c07Items[i].Alias]; f != nil && f(g) {
						unspec = true
					}
				}
			}
			if unspec {
				continue
			}
			r := detExec(sql, detOpts{}, c07Feed(ds))
			a.r.Evaluations++
			a.r.States++
			a.r.Transitions += int64(r.Steps)
			cs := map[string]any{"sql": sql, "dataset": di, "groups": ds}
			if r.ExecErr != "" || r.Status != sched.StatusOK {
				a.fail("C07|exec|"+c07Class(p), r.ExecErr+" "+r.Status.String()+" "+firstLine(r.Panic), cs, nil, nil)
				break
			}
			if len(r.Batches) > 0 && len(r.Batches[0]) > 1 {
				a.r.Nontrivial++
			}
			if r.Mutated != "" {
				a.fail(fmt.Sprintf("C07|delivered-batch-altered-later|distinct=%v|having=%v|order=%v", p.Distinct, p.Having > 0, p.Order > 0), sql+": "+r.Mutated, cs, nil, nil)
			}
			a.outcome(js(r.Batches))
			kind, what := c07Check(p, ds, r.Batches)
			if extraK {
				a.fail("C07|unselected-group-column-delivered", sql+" : unselected column k delivered", cs, nil, r.Batches)
			}
			if kind != "" {
				sig := fmt.Sprintf("C07|%s|%s", kind, c07Class(p))
				if (kind == "duplicate-row" || kind == "row-count") && p.Distinct && !p.SelectK && extraK {
					// consequence of the delivered-but-unselected group column: the rows differ in k
					sig = "C07|distinct-keeps-rows-differing-only-in-unselected-group-column"
				}
				a.fail(sig, sql+" : "+what, cs, nil, r.Batches)
			}
		}
		if pi == 100 {
			a.sample(map[string]any{"sql": sql, "datasets": len(dss)})
		}
	}
	return a.result()
}

// c07Class: which clauses the program uses (value-free shape for signatures)
func c07Class(p c07Prog) string {
	var it []string
	for _, i := range p.Items {
		it = append(it, c07Items[i].Alias)
	}
	return fmt.Sprintf("items=%s|having=%v|order=%v|limit=%v|distinct=%v", strings.Join(it, ","), c07Havings[p.Having].SQL != "", c07Orders[p.Order].SQL != "", p.Limit > 0, p.Distinct)
}

func (c07) Describe(tier string) fw.Description {
	return fw.Description{
		Level: "model_checking",
		Rule: "exhaustive product of " + fmt.Sprint(len(c07Items)) + " SELECT items in item sets (plain aggregates, agg*lit, agg*lit+lit, agg+agg, parenthesised, aggregate over an expression argument, aggregates of two columns) x " + fmt.Sprint(len(c07Havings)) + " HAVING predicates (selected aliases, unselected aggregates, AND/OR/NOT) x " + fmt.Sprint(len(c07Orders)) + " ORDER BY lists x LIMIT {none,1,2,5} x DISTINCT, each on 8 datasets (1-3 interleaved groups, NULLs, ties, text keys that read as numbers) in one event-time tumbling window on the real engine; oracle = relational reference (ref.Agg per group -> item arithmetic -> HAVING -> multiset equality, sortedness by the ORDER BY keys, LIMIT keeps a prefix of the order, DISTINCT, no helper/unselected column); non-trivial = a batch with >= 2 rows; plus consecutive batches (two tumbling windows; HAVING over an alias / an unselected aggregate / an expression item, DISTINCT, ORDER BY LIMIT): every batch must still read at the end of the run what it read when it was delivered",
		Bounds:      map[string]any{"programs": "see evaluations", "datasets": 5},
		Assumptions: []string{"ties in ORDER BY are compared as multisets", "ordering of NULL keys is not asserted"},
	}
}

func init() { fw.Register(c07{}) }
