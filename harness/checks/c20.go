package checks

import (
	"sort"
	"fmt"
	"strings"

	"verifharness/fw"

	"github.com/rulego/streamsql"
	"github.com/rulego/streamsql/functions"
	"github.com/rulego/streamsql/logger"
	"github.com/rulego/streamsql/types"
	"github.com/rulego/streamsql/verifrt/sched"
	vtime "github.com/rulego/streamsql/verifrt/time"
)

// C20: caller data is never modified and instances do not influence each other.

type c20Kind struct {
	Name  string
	SQL   string
	Sync  bool // EmitSync usable
	Table bool
}

func c20Kinds() []c20Kind {
	return []c20Kind{
		{"projection", "SELECT a, d.x AS y, upper(s) AS u, a + 1 AS e FROM stream WHERE a > 0", true, false},
		{"select-star", "SELECT * FROM stream", true, false},
		{"select-analytic", "SELECT a, lag(a) AS p, acc_sum(a) AS t FROM stream", true, false},
		{"where-analytic", "SELECT a, s FROM stream WHERE had_changed(true, a)", true, false},
		{"analytic-over", "SELECT k, acc_count(a) OVER (PARTITION BY k) AS c FROM stream", true, false},
		{"join", "SELECT a, m.loc AS loc FROM stream LEFT JOIN meta m ON k = m.k", true, true},
		{"group-key-expr", "SELECT upper(k) AS uk, count(*) AS c FROM stream GROUP BY upper(k), CountingWindow(2)", false, false},
		{"counting", "SELECT k, sum(a) AS s, collect(d) AS ds FROM stream GROUP BY k, CountingWindow(2)", false, false},
		{"tumbling", "SELECT k, sum(a) AS s, collect(arr) AS arrs FROM stream GROUP BY k, TumblingWindow('2s') WITH (TIMESTAMP='ts', TIMEUNIT='ms')", false, false},
		{"case-expr", "SELECT CASE WHEN a > 1 THEN s ELSE 'low' END AS r, d FROM stream", true, false},
		// multi-column analytic output is merged into the working row
		{"changed-cols", "SELECT k, changed_cols(\"c_\", true, a, s) FROM stream", true, false},
		{"where-analytic-over", "SELECT a FROM stream WHERE lag(a) OVER (PARTITION BY k) > 0 OR a > 0", true, false},
		{"global-window", "SELECT k, sum(a) AS s FROM stream GROUP BY k, GLOBAL WINDOW TRIGGER WHEN count(*) >= 2", false, false},
		{"session", "SELECT k, count(*) AS c, collect(d) AS ds FROM stream GROUP BY k, SessionWindow('2s') WITH (TIMESTAMP='ts', TIMEUNIT='ms')", false, false},
		// unnest hands array elements on: elements that are maps must not be written to
		{"unnest", "SELECT k, a, unnest(arr) AS el FROM stream", true, false},
		{"unnest-objects", "SELECT k, s, unnest(objs) FROM stream", true, false},
		// analytic functions over window results (state carried from one window's result row to the next)
		{"window-changed-cols-star", "SELECT k, sum(a) AS s, changed_cols(\"c_\", false, *) FROM stream GROUP BY k, CountingWindow(2)", false, false},
		{"window-analytic", "SELECT k, acc_sum(sum(a)) AS t, lag(avg(a)) AS p, latest(max(a)) AS l FROM stream GROUP BY k, CountingWindow(2)", false, false},
		{"window-changed-col", "SELECT k, changed_col(true, sum(a)) AS cs FROM stream GROUP BY k, CountingWindow(1)", false, false},
		// aggregates over an expression argument, for every window kind (the argument is evaluated per row when the window fires)
		{"sliding-expr-agg", "SELECT k, sum(a * 2) AS total, max(d.x + 1) AS mx FROM stream GROUP BY k, SlidingWindow('4s','2s') WITH (TIMESTAMP='ts', TIMEUNIT='ms')", false, false},
		{"tumbling-expr-agg", "SELECT k, sum(a * 2) AS total, max(d.x + 1) AS mx FROM stream GROUP BY k, TumblingWindow('2s') WITH (TIMESTAMP='ts', TIMEUNIT='ms')", false, false},
		{"counting-expr-agg", "SELECT k, sum(a * 2) AS total, max(d.x + 1) AS mx FROM stream GROUP BY k, CountingWindow(2)", false, false},
		{"session-expr-agg", "SELECT k, sum(a * 2) AS total FROM stream GROUP BY k, SessionWindow('2s') WITH (TIMESTAMP='ts', TIMEUNIT='ms')", false, false},
		// post-aggregation stages that build their output in buffers of their own
		{"window-distinct", "SELECT DISTINCT k, sum(a) AS s FROM stream GROUP BY k, CountingWindow(2)", false, false},
		{"window-order-limit", "SELECT k, sum(a) AS s, count(*) AS c FROM stream GROUP BY k, CountingWindow(2) ORDER BY s DESC LIMIT 1", false, false},
		{"window-having", "SELECT k, sum(a) AS s FROM stream GROUP BY k, CountingWindow(2) HAVING s > 0", false, false},
		// HAVING over aggregates that are not selected (computed on the side for the filter only), with and without ORDER BY / LIMIT
		{"window-having-unselected", "SELECT k, count(*) AS c FROM stream GROUP BY k, CountingWindow(2) HAVING max(a) > 0 AND min(a) < 100", false, false},
		{"window-having-unselected-order", "SELECT k, count(*) AS c, sum(a) AS s FROM stream GROUP BY k, TumblingWindow('2s') WITH (TIMESTAMP='ts', TIMEUNIT='ms') HAVING avg(a) > 0 ORDER BY s DESC LIMIT 2", false, false},
		// a FROM alias without a JOIN (direct, window and analytic paths)
		{"alias-direct", "SELECT k, a FROM stream s WHERE a > 0", true, false},
		{"alias-as-direct", "SELECT s.k, s.a AS x FROM stream AS s", true, false},
		{"alias-window", "SELECT k, sum(a) AS t FROM stream AS s GROUP BY k, CountingWindow(2)", false, false},
		{"alias-analytic", "SELECT k, lag(a) OVER (PARTITION BY k) AS p FROM stream s", true, false},
		{"cep", "SELECT * FROM stream MATCH_RECOGNIZE (PARTITION BY k ORDER BY ts MEASURES LAST(a) AS la, FIRST(d.x) AS fx ALL ROWS PER MATCH PATTERN (A B) DEFINE A AS a > 0, B AS a > 0)", false, false},
	}
}

func c20Rows() []Row {
	return []Row{
		{"k": "a", "a": 1, "s": "x", "ts": 100, "d": map[string]any{"x": 1, "in": map[string]any{"y": 2}}, "arr": []any{1, map[string]any{"z": 3}}, "objs": []any{map[string]any{"p": 1}, map[string]any{"p": 2, "q": map[string]any{"r": 1}}}},
		{"k": "a", "a": 2, "s": "y", "ts": 200, "d": map[string]any{"x": 5}, "arr": []any{}, "objs": []any{map[string]any{"p": 3}}},
		{"k": "b", "a": 2.5, "s": nil, "ts": 300, "d": map[string]any{}, "arr": []any{"q"}},
		{"k": "b", "a": 3, "ts": 400},
		// a second and third batch for key a (state carried from one window result to the next)
		{"k": "a", "a": 4, "s": "x", "ts": 500, "d": map[string]any{"x": 2}, "arr": []any{2}},
		{"k": "a", "a": 5, "s": "z", "ts": 600, "d": map[string]any{"x": 3}},
		{"k": "a", "a": 6, "s": "z", "ts": 700, "d": map[string]any{"x": 3}},
		{"k": "a", "a": 6.5, "s": "w", "ts": 800},
		{"k": "zz", "a": 0, "s": "flush", "ts": 90000, "d": map[string]any{"x": 0}},
	}
}

type c20 struct{}

func (c20) ID() string { return "C20" }

func (c20) Plan(tier string) []fw.Unit {
	us := []fw.Unit{{Check: "C20", Kind: "immutability", Tier: tier, Spec: fw.Spec(enumSpec{})}}
	for s := 0; s < 4; s++ {
		us = append(us, fw.Unit{Check: "C20", Kind: "functions", Tier: tier, Spec: fw.Spec(enumSpec{Shard: s, Shards: 4})})
	}
	// one unit = one worker process per pair: the process-wide registries are fresh when the pair's baselines are taken
	n := len(c20Pairs())
	for s := 0; s < n; s++ {
		us = append(us, fw.Unit{Check: "C20", Kind: "pairs", Tier: tier, Spec: fw.Spec(enumSpec{Shard: s, Shards: n})})
	}
	return us
}

func c20Immutability(a *acc) {
	for _, kind := range c20Kinds() {
		for _, mode := range []string{"emit", "emitsync"} {
			if mode == "emitsync" && !kind.Sync {
				continue
			}
			// all orders of feeding are not needed: the rows are fed in order, each checked after quiescence
			var inputs []Row
			var before []string
			var beforeKeys [][]string // top-level keys (compared first: a map made cyclic cannot be printed)
			type deliv struct {
				ref  []map[string]any
				snap string
			}
			var delivered []deliv
			var execErr string
			st, pv := inSched(func() {
				s := streamsql.New(streamsql.WithLogger(logger.NewDiscardLogger()))
				if err := s.Execute(kind.SQL); err != nil {
					execErr = err.Error()
					return
				}
				if kind.Table {
					if _, err := s.RegisterTable("meta", []map[string]any{{"k": "a", "loc": "LA"}}); err != nil {
						execErr = err.Error()
						return
					}
				}
				s.AddSyncSink(func(rows []map[string]any) {
					delivered = append(delivered, deliv{ref: rows, snap: js(rows)})
				})
				for _, r := range c20Rows() {
					row := copyVal(r).(map[string]any)
					inputs = append(inputs, row)
					before = append(before, js(row))
					beforeKeys = append(beforeKeys, sortedKeys(row))
					if mode == "emit" {
						s.Emit(row)
					} else {
						s.EmitSync(row)
					}
					sched.Quiesce()
				}
				vtime.Sleep(300 * vtime.Millisecond)
				sched.Quiesce()
				s.Stop()
				sched.Quiesce()
			})
			a.r.Evaluations += int64(len(inputs))
			a.r.States += int64(len(inputs))
			a.r.Transitions += int64(len(inputs))
			cs := map[string]any{"sql": kind.SQL, "api": mode}
			if execErr != "" || st != sched.StatusOK {
				a.fail("C20|immutability|exec|"+kind.Name, execErr+" "+st.String()+" "+firstLine(pv), cs, nil, nil)
				continue
			}
			keysChanged := false
			for i, row := range inputs {
				if now := sortedKeys(row); strings.Join(now, "\x00") != strings.Join(beforeKeys[i], "\x00") {
					a.fail(fmt.Sprintf("C20|input-mutated|query=%s|api=%s", kind.Name, mode), fmt.Sprintf("%s via %s: the caller's map had the columns %q before and has %q after", kind.SQL, mode, beforeKeys[i], now), cs, beforeKeys[i], now)
					keysChanged = true
					break
				}
			}
			if keysChanged {
				continue
			}
			for i, row := range inputs {
				a.r.Nontrivial++
				if after := js(row); after != before[i] {
					a.fail(fmt.Sprintf("C20|input-mutated|query=%s|api=%s", kind.Name, mode), fmt.Sprintf("%s via %s: the caller's map was %s before and is %s after", kind.SQL, mode, before[i], after), cs, before[i], after)
					break
				}
			}
			for _, d := range delivered {
				if now := js(d.ref); now != d.snap {
					a.fail(fmt.Sprintf("C20|delivered-batch-altered|query=%s|api=%s", kind.Name, mode), fmt.Sprintf("%s via %s: a batch delivered as %s later reads %s", kind.SQL, mode, d.snap, now), cs, d.snap, now)
					break
				}
			}
			a.outcome(kind.Name + mode + fmt.Sprint(len(delivered)))
		}
	}
	a.sample(map[string]any{"query_kinds": len(c20Kinds()), "rows": c20Rows()[0]})
}

// ---- instance pairs ----

type c20Inst struct {
	SQL  string
	Rows []Row // row alphabet
	// Perf: "" = defaults; "unnamed" = a custom performance configuration that sets buffers and workers and leaves
	// the overflow strategy name empty (accepted; means the default strategy)
	Perf string
}

func (in c20Inst) options() []streamsql.Option {
	o := []streamsql.Option{streamsql.WithLogger(logger.NewDiscardLogger())}
	if in.Perf == "unnamed" {
		pc := types.PerformanceConfig{}
		pc.BufferConfig.DataChannelSize = 100
		pc.BufferConfig.ResultChannelSize = 100
		pc.BufferConfig.WindowOutputSize = 10
		pc.WorkerConfig.SinkPoolSize = 2
		pc.WorkerConfig.SinkWorkerCount = 2
		o = append(o, streamsql.WithCustomPerformance(pc))
	}
	return o
}

type c20Pair struct {
	Name string
	A, B c20Inst
}

func c20Pairs() []c20Pair {
	num := []Row{{"k": "a", "v": 1, "ts": 1}, {"k": "a", "v": 2, "ts": 2}, {"k": "b", "v": 3, "ts": 3}}
	mixed := []Row{{"k": "a", "v": 2}, {"k": "a", "v": "2"}, {"k": "a", "v": 2.5}}
	strs := []Row{{"k": "a", "v": "x"}, {"k": "b", "v": "y"}, {"k": "a", "v": nil}}
	return []c20Pair{
		{"same-sql-window", c20Inst{SQL: "SELECT k, sum(v) AS s, count(*) AS c FROM stream GROUP BY k, CountingWindow(2)", Rows: num}, c20Inst{SQL: "SELECT k, sum(v) AS s, count(*) AS c FROM stream GROUP BY k, CountingWindow(2)", Rows: num}},
		{"nth-value-1-vs-2", c20Inst{SQL: "SELECT k, nth_value(v, 1) AS n FROM stream GROUP BY k, CountingWindow(2)", Rows: num}, c20Inst{SQL: "SELECT k, nth_value(v, 2) AS n FROM stream GROUP BY k, CountingWindow(2)", Rows: num}},
		{"same-expr-different-types", c20Inst{SQL: "SELECT v + 1 AS r, v * 2 AS m FROM stream", Rows: num}, c20Inst{SQL: "SELECT v + 1 AS r, v * 2 AS m FROM stream", Rows: mixed}},
		{"same-filter-different-types", c20Inst{SQL: "SELECT v FROM stream WHERE v > 1", Rows: num}, c20Inst{SQL: "SELECT v FROM stream WHERE v > 1", Rows: strs}},
		{"analytic-same-sql", c20Inst{SQL: "SELECT k, lag(v) OVER (PARTITION BY k) AS p, acc_sum(v) OVER (PARTITION BY k) AS s FROM stream", Rows: num}, c20Inst{SQL: "SELECT k, lag(v) OVER (PARTITION BY k) AS p, acc_sum(v) OVER (PARTITION BY k) AS s FROM stream", Rows: num}},
		{"percentile-params", c20Inst{SQL: "SELECT percentile(v, 0) AS p FROM stream GROUP BY CountingWindow(2)", Rows: num}, c20Inst{SQL: "SELECT percentile(v, 1) AS p FROM stream GROUP BY CountingWindow(2)", Rows: num}},
		// an explicit parameter in one instance, the default parameter in the other (shared registry prototypes)
		{"percentile-explicit-vs-default", c20Inst{SQL: "SELECT percentile(v, 0) AS p FROM stream GROUP BY CountingWindow(2)", Rows: num}, c20Inst{SQL: "SELECT percentile(v) AS p FROM stream GROUP BY CountingWindow(2)", Rows: num}},
		{"nth-value-explicit-vs-default", c20Inst{SQL: "SELECT k, nth_value(v, 2) AS n FROM stream GROUP BY k, CountingWindow(2)", Rows: num}, c20Inst{SQL: "SELECT k, nth_value(v) AS n FROM stream GROUP BY k, CountingWindow(2)", Rows: num}},
		{"like-vs-like", c20Inst{SQL: "SELECT v FROM stream WHERE v LIKE 'x%'", Rows: strs}, c20Inst{SQL: "SELECT v FROM stream WHERE v LIKE '%y'", Rows: strs}},
		{"literal-differs-only-in-letter-case", c20Inst{SQL: "SELECT concat(k, '-ok') AS r, upper(k) AS u FROM stream", Rows: strs}, c20Inst{SQL: "SELECT concat(k, '-OK') AS r, UPPER(k) AS u FROM stream", Rows: strs}},
		// MATCH_RECOGNIZE evaluates DEFINE/MEASURES through a process-wide sync.Pool of scratch maps
		{"cep-vs-cep", c20Inst{SQL: "SELECT * FROM stream MATCH_RECOGNIZE (PARTITION BY k ORDER BY ts MEASURES FIRST(v) AS f, LAST(v) AS l ONE ROW PER MATCH PATTERN (A B) DEFINE A AS v >= 1, B AS v > PREV(v))", Rows: num},
			c20Inst{SQL: "SELECT * FROM stream MATCH_RECOGNIZE (ORDER BY ts MEASURES LAST(k) AS lk, COUNT(A.v) AS c ONE ROW PER MATCH PATTERN (A+ B) DEFINE A AS v < 3, B AS v >= 3)", Rows: num}},
		{"global-window-vs-session", c20Inst{SQL: "SELECT k, sum(v) AS s FROM stream GROUP BY k, GLOBAL WINDOW TRIGGER WHEN sum(v) >= 3", Rows: num},
			c20Inst{SQL: "SELECT k, max(v) AS s FROM stream GROUP BY k, GLOBAL WINDOW TRIGGER WHEN max(v) >= 2", Rows: num}},
		{"group-key-expr", c20Inst{SQL: "SELECT upper(k) AS uk, count(*) AS c FROM stream GROUP BY upper(k), CountingWindow(2)", Rows: num}, c20Inst{SQL: "SELECT concat(k, 'x') AS uk, count(*) AS c FROM stream GROUP BY k, CountingWindow(2)", Rows: num}},
		{"case-vs-concat", c20Inst{SQL: "SELECT CASE WHEN v > 1 THEN 'hi' ELSE 'lo' END AS r FROM stream", Rows: num}, c20Inst{SQL: "SELECT k + '_' + k AS r FROM stream", Rows: strs}},
		// one TRIGGER WHEN text, different SELECT lists (the predicate's aggregate selected / not selected / under a reused alias)
		{"same-trigger-different-select", c20Inst{SQL: "SELECT k, sum(v) AS total FROM stream GROUP BY k, GLOBAL WINDOW TRIGGER WHEN sum(v) >= 3", Rows: num},
			c20Inst{SQL: "SELECT k, count(*) AS total FROM stream GROUP BY k, GLOBAL WINDOW TRIGGER WHEN sum(v) >= 3", Rows: num}},
		// MATCH_RECOGNIZE next to an instance whose DEFINE cannot be evaluated on some rows (text where a number is compared)
		{"cep-with-failing-rows", c20Inst{SQL: "SELECT * FROM stream MATCH_RECOGNIZE (ORDER BY ts MEASURES FIRST(v) AS f, LAST(v) AS l ONE ROW PER MATCH PATTERN (A B) DEFINE A AS v >= 1, B AS v > PREV(v))", Rows: []Row{{"k": "a", "v": "N/A", "ts": 1}, {"k": "a", "v": 1, "ts": 2}, {"k": "a", "v": nil, "ts": 3}}},
			c20Inst{SQL: "SELECT * FROM stream MATCH_RECOGNIZE (ORDER BY ts MEASURES FIRST(v) AS f, LAST(v) AS l ONE ROW PER MATCH PATTERN (A B) DEFINE A AS v >= 1, B AS v > PREV(v))", Rows: num}},
		// instances built from a custom performance configuration whose overflow strategy is left unnamed
		{"unnamed-overflow-strategy", c20Inst{SQL: "SELECT k, v FROM stream", Rows: num, Perf: "unnamed"}, c20Inst{SQL: "SELECT v * 10 AS w FROM stream WHERE v > 1", Rows: num, Perf: "unnamed"}},
		{"unnamed-strategy-vs-default", c20Inst{SQL: "SELECT k, count(*) AS c FROM stream GROUP BY k, CountingWindow(1)", Rows: num, Perf: "unnamed"}, c20Inst{SQL: "SELECT k, v FROM stream", Rows: num}},
	}
}

// c20RunSchedule runs instance A and B in one process with their inputs interleaved according
// to order (a sequence of 'A'/'B'); returns the outputs of each instance.
func c20RunSchedule(p c20Pair, seqA, seqB []int, order string, lazy bool) (outA, outB []string, err string) {
	functions.VerifResetGlobals()
	st, pv := inSched(func() {
		mk := func(in c20Inst, out *[]string) *streamsql.Streamsql {
			s := streamsql.New(in.options()...)
			if e := s.Execute(in.SQL); e != nil {
				err = e.Error()
				return nil
			}
			s.AddSyncSink(func(rows []map[string]any) {
				for _, r := range rows {
					delete(r, "window_id")
				}
				*out = append(*out, js(rows))
			})
			return s
		}
		var sa, sb *streamsql.Streamsql
		if strings.Contains(order, "A") && !lazy {
			sa = mk(p.A, &outA)
		}
		if strings.Contains(order, "B") && !lazy {
			sb = mk(p.B, &outB)
		}
		if err != "" {
			return
		}
		ia, ib := 0, 0
		for _, c := range order {
			if c == 'A' && sa == nil {
				sa = mk(p.A, &outA)
			}
			if c == 'B' && sb == nil {
				sb = mk(p.B, &outB)
			}
			if err != "" {
				return
			}
			if c == 'A' {
				sa.Emit(copyVal(p.A.Rows[seqA[ia]]).(map[string]any))
				ia++
			} else {
				sb.Emit(copyVal(p.B.Rows[seqB[ib]]).(map[string]any))
				ib++
			}
			sched.Quiesce()
		}
		vtime.Sleep(200 * vtime.Millisecond)
		sched.Quiesce()
		if sa != nil {
			sa.Stop()
		}
		if sb != nil {
			sb.Stop()
		}
		sched.Quiesce()
	})
	if st != sched.StatusOK {
		err = st.String() + " " + firstLine(pv)
	}
	return
}

func interleavings(na, nb int, f func(string)) {
	var rec func(cur string, a, b int)
	rec = func(cur string, a, b int) {
		if a == na && b == nb {
			f(cur)
			return
		}
		if a < na {
			rec(cur+"A", a+1, b)
		}
		if b < nb {
			rec(cur+"B", a, b+1)
		}
	}
	rec("", 0, 0)
}

func c20RunPairs(a *acc, sp enumSpec, tier string) {
	maxL := 2
	if tier == "thorough" {
		maxL = 3
	}
	for pi, p := range c20Pairs() {
		if pi != sp.Shard {
			continue
		}
		// 1. baselines, B first then A, in a process in which no instance has run yet: what each instance
		// delivers when it is alone
		seqsOf := func(n int) [][]int {
			var out [][]int
			for l := 1; l <= maxL; l++ {
				sequences(l, n, func(sq []int) { out = append(out, append([]int(nil), sq...)) })
			}
			return out
		}
		seqA, seqB := seqsOf(len(p.A.Rows)), seqsOf(len(p.B.Rows))
		baseA, baseB := map[string]string{}, map[string]string{}
		execFail := false
		for _, sb := range seqB {
			_, o, e := c20RunSchedule(p, nil, sb, strings.Repeat("B", len(sb)), false)
			if e != "" {
				a.fail("C20|pairs|exec|"+p.Name, e, map[string]any{"pair": p.Name, "sqlB": p.B.SQL}, nil, nil)
				execFail = true
				break
			}
			baseB[fmt.Sprint(sb)] = fmt.Sprint(o)
		}
		for _, sa := range seqA {
			o, _, e := c20RunSchedule(p, sa, nil, strings.Repeat("A", len(sa)), false)
			if e != "" {
				a.fail("C20|pairs|exec|"+p.Name, e, map[string]any{"pair": p.Name, "sqlA": p.A.SQL}, nil, nil)
				execFail = true
				break
			}
			baseA[fmt.Sprint(sa)] = fmt.Sprint(o)
		}
		if execFail {
			continue
		}
		// 2. every interleaving of the two inputs; instances created up front, or each at its first input
		for _, sa := range seqA {
			for _, sb := range seqB {
				sa, sb := sa, sb
				cs := map[string]any{"pair": p.Name, "sqlA": p.A.SQL, "sqlB": p.B.SQL, "seqA": sa, "seqB": sb}
				interleavings(len(sa), len(sb), func(order string) {
					for _, lazy := range []bool{false, true} {
						gotA, gotB, e := c20RunSchedule(p, sa, sb, order, lazy)
						a.r.Evaluations++
						a.r.States++
						a.r.Transitions += int64(len(sa) + len(sb))
						a.r.Nontrivial++
						if e != "" {
							a.fail("C20|pairs|exec|"+p.Name, e, cs, nil, nil)
							return
						}
						a.outcome(fmt.Sprint(gotA, gotB))
						if fmt.Sprint(gotA) != baseA[fmt.Sprint(sa)] || fmt.Sprint(gotB) != baseB[fmt.Sprint(sb)] {
							a.fail("C20|instances-influence-each-other|pair="+p.Name, fmt.Sprintf("pair %s, inputs A=%v B=%v interleaved as %s (instances created at first input: %v): A delivers %v (alone %v), B delivers %v (alone %v)", p.Name, sa, sb, order, lazy, gotA, baseA[fmt.Sprint(sa)], gotB, baseB[fmt.Sprint(sb)]),
								map[string]any{"pair": p.Name, "sqlA": p.A.SQL, "sqlB": p.B.SQL, "seqA": sa, "seqB": sb, "order": order, "lazy_creation": lazy}, baseA[fmt.Sprint(sa)]+" "+baseB[fmt.Sprint(sb)], fmt.Sprint(gotA, gotB))
							return
						}
					}
				})
			}
		}
		// 3. the baselines again, after both kinds of instance have lived in this process: an instance that
		// leaves something behind in a process-wide registry or cache changes what a later instance delivers
		for _, sb := range seqB {
			_, o, _ := c20RunSchedule(p, nil, sb, strings.Repeat("B", len(sb)), false)
			a.r.Evaluations++
			if fmt.Sprint(o) != baseB[fmt.Sprint(sb)] {
				a.fail("C20|instance-result-depends-on-earlier-instances|pair="+p.Name, fmt.Sprintf("pair %s: instance B alone on input %v delivered %v in a fresh process and %v after instances of A had run in the process", p.Name, sb, baseB[fmt.Sprint(sb)], o),
					map[string]any{"pair": p.Name, "sqlA": p.A.SQL, "sqlB": p.B.SQL, "seqB": sb}, baseB[fmt.Sprint(sb)], fmt.Sprint(o))
				break
			}
		}
		for _, sa := range seqA {
			o, _, _ := c20RunSchedule(p, sa, nil, strings.Repeat("A", len(sa)), false)
			a.r.Evaluations++
			if fmt.Sprint(o) != baseA[fmt.Sprint(sa)] {
				a.fail("C20|instance-result-depends-on-earlier-instances|pair="+p.Name, fmt.Sprintf("pair %s: instance A alone on input %v delivered %v in a fresh process and %v after instances of B had run in the process", p.Name, sa, baseA[fmt.Sprint(sa)], o),
					map[string]any{"pair": p.Name, "sqlA": p.A.SQL, "sqlB": p.B.SQL, "seqA": sa}, baseA[fmt.Sprint(sa)], fmt.Sprint(o))
				break
			}
		}
		a.sample(map[string]any{"pair": p.Name, "sqlA": p.A.SQL, "sqlB": p.B.SQL, "sequences_per_instance": len(seqA)})
	}
}

func (c20) Run(u fw.Unit) fw.Result {
	if u.Kind == "functions" {
		return c20Functions(u)
	}
	a := newAcc("C20", "isolation-"+u.Kind)
	if u.Kind == "immutability" {
		c20Immutability(a)
	} else {
		c20RunPairs(a, parseEnum(u), u.Tier)
	}
	return a.result()
}

func (c20) Describe(tier string) fw.Description {
	return fw.Description{
		Level: "model_checking",
		Rule: "(a) immutability: " + fmt.Sprint(len(c20Kinds())) + " query kinds (incl. analytic functions over window results, aggregates over expression arguments for every window kind, DISTINCT / ORDER BY / HAVING over several batches, HAVING over unselected aggregates with and without ORDER BY / LIMIT) (unnest over scalars and over objects, projection, *, SELECT-analytic, WHERE-analytic with and without OVER, OVER, changed_cols, JOIN, function-expression group key, counting, tumbling, session, global window, MATCH_RECOGNIZE, CASE) x {Emit, EmitSync} x rows with nested maps and slices: a deep snapshot of every caller map before the call must equal it after quiescence, and every batch handed to a sink must still read the same at the end; (a2) every registered scalar, aggregate and analytic function called over the caller's own slices and maps; (b) independence: " + fmt.Sprint(len(c20Pairs())) + " instance pairs (same SQL; unnamed vs named overflow strategies; the same TRIGGER WHEN under different SELECT lists; MATCH_RECOGNIZE next to failing rows; nth_value(v,1) vs (v,2); percentile(v,0) vs (v,1); the same expression text over differently typed rows; analytic; LIKE; CASE vs string concatenation) x all input sequences of length 1..L per instance x ALL interleavings of the two inputs at operation granularity in one process (instances created up front or each at its first input; one worker process per pair, baselines taken first and again at the end), compared with each instance alone after VerifResetGlobals(); non-trivial = some output exists",
		Bounds:      map[string]any{"max_len_per_instance": map[string]int{"quick": 2, "thorough": 3}},
		Assumptions: []string{"interleaving at Emit granularity under the eager deterministic schedule; finer interleavings of two instances' goroutines are not explored (they share only the function registry and the expression caches, whose internal synchronisation is in the quiet packages)"},
	}
}

func init() { fw.Register(c20{}) }

func sortedKeys(m map[string]any) []string {
	ks := make([]string, 0, len(m))
	for k := range m {
		ks = append(ks, k)
	}
	sort.Strings(ks)
	return ks
}
