package checks

import (
	"math"
	"fmt"
	"sort"
	"strings"

	"verifharness/fw"

	"github.com/rulego/streamsql/verifrt/sched"
)

// C04: GROUP BY partitions each window's rows by the grouping key tuple.

type c04Tuple []any // component: string, number, nil (NULL) or c04Missing

type missingT struct{}

var c04Missing = missingT{}

type c04Set struct {
	Name   string
	Cols   int
	Tuples []c04Tuple
	Upper  bool // single column grouped by upper(k)
	Alias  bool // every grouping column but the first is selected under an alias (b AS b_x)
	Nested bool // the first grouping column is the nested path d.x (selected AS a); rows also carry a top-level x with other values
	// Exprs: per column "" (bare column) or a scalar-function template over the column ("upper(%s)", "sqrt(%s)");
	// such a key is grouped by its value, NULL when the function has no value for the row
	Exprs []string
	// Names: column names of this set (default a, devId, c3)
	Names []string
	// WinFirst: the window is written first in the GROUP BY list and LIMIT 100 closes the statement, so for the
	// windows without a WITH clause the last grouping column is directly followed by LIMIT
	WinFirst bool
}

func (s c04Set) col(i int) string {
	if i < len(s.Names) {
		return s.Names[i]
	}
	return c04ColNames[i]
}

// c04ExprValue: the value of a function-expression key for a raw column value (NULL when the function errors).
func c04ExprValue(tmpl string, v any) any {
	switch tmpl {
	case "upper(%s)":
		if s, ok := v.(string); ok {
			return strings.ToUpper(s)
		}
		return nil
	case "substring(%s, 0, 1)":
		if s, ok := v.(string); ok && len(s) > 0 {
			return s[:1]
		}
		if s, ok := v.(string); ok {
			return s
		}
		return nil
	case "sqrt(%s)":
		if f, ok := num(v); ok && f >= 0 {
			return math.Sqrt(f)
		}
		return nil
	}
	return v
}

// outName: the name under which grouping column i is reported.
func (s c04Set) outName(i int) string {
	if i < len(s.Exprs) && s.Exprs[i] != "" {
		return "g" + s.col(i)
	}
	if s.Upper {
		return "ua"
	}
	if s.Alias && i > 0 {
		return s.col(i) + "_x"
	}
	return s.col(i)
}

var us = "\x1f"

var c04Sets = []c04Set{
	{"none", 0, []c04Tuple{{}}, false, false, false, nil, nil, false},
	{"pipe1", 1, []c04Tuple{{"a|b"}, {"a"}, {"b"}, {""}}, false, false, false, nil, nil, false},
	{"null1", 1, []c04Tuple{{nil}, {""}, {"\x00NULL"}}, false, false, false, nil, nil, false},
	{"missing1", 1, []c04Tuple{{c04Missing}, {""}, {"a"}}, false, false, false, nil, nil, false},
	{"num1", 1, []c04Tuple{{1}, {1.5}, {-1}, {0}}, false, false, false, nil, nil, false},
	{"us1", 1, []c04Tuple{{"a" + us + "b"}, {"a"}, {"b"}}, false, false, false, nil, nil, false},
	{"upper1", 1, []c04Tuple{{"a"}, {"A"}, {"b"}}, true, false, false, nil, nil, false},
	{"pipe2", 2, []c04Tuple{{"a|b", "c"}, {"a", "b|c"}, {"a", "b"}}, false, false, false, nil, nil, false},
	{"us2", 2, []c04Tuple{{"a" + us + "b", "c"}, {"a", "b" + us + "c"}, {"a", "c"}}, false, false, false, nil, nil, false},
	{"null2", 2, []c04Tuple{{nil, "x"}, {"", "x"}, {"\x00NULL", "x"}}, false, false, false, nil, nil, false},
	{"comma2", 2, []c04Tuple{{"a,b", "c"}, {"a", "b,c"}, {"1", "2"}}, false, false, false, nil, nil, false},
	{"num2", 2, []c04Tuple{{1, 1.5}, {1, -1}, {0, 1}}, false, false, false, nil, nil, false},
	{"bignum1", 1, []c04Tuple{{16777216.0}, {16777217.0}, {9007199254740992.0}, {0.1}}, false, false, false, nil, nil, false},
	{"bignum2", 2, []c04Tuple{{1700000000123.0, "x"}, {1700000000124.0, "x"}, {1700000000123.0, "y"}}, false, false, false, nil, nil, false},
	{"bigint1", 1, []c04Tuple{{int64(9007199254740993)}, {int64(9007199254740992)}, {int64(-9007199254740993)}}, false, false, false, nil, nil, false},
	{"nullnull2", 2, []c04Tuple{{nil, nil}, {"", ""}, {"a", nil}}, false, false, false, nil, nil, false},
	{"pipe3", 3, []c04Tuple{{"a|b", "c", "d"}, {"a", "b|c", "d"}, {"a", "b", "c|d"}}, false, false, false, nil, nil, false},
	{"empty3", 3, []c04Tuple{{"a", "", "b"}, {"a", "b", ""}, {"", "a", "b"}}, false, false, false, nil, nil, false},
	// "reports that tuple under the selected column names": an un-renamed column before renamed ones
	{"alias2", 2, []c04Tuple{{"a", "x"}, {"a", "y"}, {"b", "x"}}, false, true, false, nil, nil, false},
	{"alias3", 3, []c04Tuple{{"a", "x", 1}, {"a", "y", 1}, {"a", "x", 2}}, false, true, false, nil, nil, false},
	// GROUP BY on a nested path; time windows only (keyed windows do not resolve qualified keys: known finding under C16)
	{"nested1", 1, []c04Tuple{{"p"}, {"q"}, {nil}}, false, false, true, nil, nil, false},
	{"nested2", 2, []c04Tuple{{"p", 1}, {"q", 1}, {"p", 2}}, false, false, true, nil, nil, false},
	// function-expression keys next to bare columns and next to each other; the first function has no value for some rows
	{"col-func", 2, []c04Tuple{{"r", "x"}, {"r", "y"}, {"s", "x"}, {"r", "X"}}, false, false, false, []string{"", "upper(%s)"}, nil, false},
	{"func-col", 2, []c04Tuple{{"x", "r"}, {"y", "r"}, {"X", "s"}}, false, false, false, []string{"upper(%s)", ""}, nil, false},
	{"func-func", 2, []c04Tuple{{4, "x"}, {4, "y"}, {c04Missing, "x"}, {c04Missing, "y"}, {-1, "x"}}, false, false, false, []string{"sqrt(%s)", "upper(%s)"}, nil, false},
	// a function key with several arguments (commas inside the key; the selected item is a multi-argument scalar call)
	{Name: "func-args2", Cols: 2, Tuples: []c04Tuple{{"ab", "x"}, {"ac", "x"}, {"bb", "x"}, {"ab", "y"}}, Exprs: []string{"substring(%s, 0, 1)", ""}},
	// grouping columns whose names differ only in letter case are different columns
	{Name: "case-names2", Cols: 2, Tuples: []c04Tuple{{"a", 1}, {"a", 2}, {"b", 2}}, Names: []string{"site", "SITE"}},
	{Name: "window-first-limit2", Cols: 2, Tuples: []c04Tuple{{"a", "x"}, {"a", "y"}, {"b", "x"}}, WinFirst: true},
	{Name: "window-first-limit1", Cols: 1, Tuples: []c04Tuple{{"a"}, {"b"}, {nil}}, WinFirst: true},
	{Name: "window-first-limit-func2", Cols: 2, Tuples: []c04Tuple{{"a", "x"}, {"a", "X"}, {"b", "y"}}, Exprs: []string{"", "upper(%s)"}, WinFirst: true},
	{Name: "case-names-func2", Cols: 2, Tuples: []c04Tuple{{"x", "x"}, {"x", "y"}, {"y", "y"}}, Exprs: []string{"upper(%s)", "upper(%s)"}, Names: []string{"k", "K"}},
}

var c04Kinds = []string{"tumbling", "counting", "session", "global"}

type c04Cfg struct {
	Set  int    `json:"set"`
	Kind string `json:"window"`
	MaxL int    `json:"max_len"`
	// Pairs > 0: every unordered pair of distinct tuples over c04Components^Pairs, each fed as t1,t2,t1,t2
	Pairs int `json:"pair_columns,omitempty"`
	Part  int `json:"part,omitempty"`
}

const c04PairParts = 4

// c04Components: the component values of the pairwise collision search. Every separator, escape and marker
// character of the key encoders appears alone, leading, trailing and doubled.
func c04Components(tier string, cols int) []any {
	if cols == 3 {
		return []any{"", "|", "a", nil}
	}
	c := []any{"", "|", "\\", "a", "|a", "a|", "\\|", us, nil, c04Missing}
	if tier == "thorough" {
		c = append(c, "||", "\\N", "N", "\x00NULL", "a"+us+"a", us+us, "\\\\", "|\\")
	}
	return c
}

func c04PairUniverse(tier string, cols int) []c04Tuple {
	comp := c04Components(tier, cols)
	var out []c04Tuple
	var rec func(t c04Tuple)
	rec = func(t c04Tuple) {
		if len(t) == cols {
			out = append(out, append(c04Tuple(nil), t...))
			return
		}
		for _, c := range comp {
			rec(append(t, c))
		}
	}
	rec(nil)
	return out
}

func c04Configs(tier string) []c04Cfg {
	maxL := 4
	if tier == "thorough" {
		maxL = 6
	}
	var out []c04Cfg
	for si := range c04Sets {
		for _, k := range c04Kinds {
			if k == "session" && c04Sets[si].Cols == 0 {
				continue // without a key the sentinel joins the same session stream: that is C10's subject
			}
			if c04Sets[si].Nested && k != "tumbling" {
				continue
			}
			if c04Sets[si].WinFirst && k == "global" {
				continue // GLOBAL WINDOW TRIGGER WHEN <predicate> ends the GROUP BY list by construction
			}
			out = append(out, c04Cfg{Set: si, Kind: k, MaxL: maxL})
		}
	}
	for _, cols := range []int{2, 3} {
		for _, k := range c04Kinds {
			for part := 0; part < c04PairParts; part++ {
				out = append(out, c04Cfg{Set: -1, Kind: k, Pairs: cols, Part: part})
			}
		}
	}
	return out
}

var c04ColNames = []string{"a", "devId", "c3"} // the second column carries upper-case letters

func c04SQL(set c04Set, kind string) string {
	var sel, grp []string
	for i := 0; i < set.Cols; i++ {
		if i < len(set.Exprs) && set.Exprs[i] != "" {
			e := fmt.Sprintf(set.Exprs[i], set.col(i))
			sel = append(sel, e+" AS "+set.outName(i))
			grp = append(grp, e)
		} else if set.Upper {
			sel = append(sel, "upper(a) AS ua")
			grp = append(grp, "upper(a)")
		} else if set.Nested && i == 0 {
			sel = append(sel, "d.x AS a")
			grp = append(grp, "d.x")
		} else if set.Alias && i > 0 {
			sel = append(sel, set.col(i)+" AS "+set.outName(i))
			grp = append(grp, set.col(i))
		} else {
			sel = append(sel, set.col(i))
			grp = append(grp, set.col(i))
		}
	}
	sel = append(sel, "count(*) AS c", "collect(id) AS ids")
	if kind == "session" {
		sel = append(sel, "window_start() AS ws", "window_end() AS we")
	}
	with := ""
	switch kind {
	case "tumbling":
		grp = append(grp, "TumblingWindow('2s')")
		with = " WITH (TIMESTAMP='ts', TIMEUNIT='ms')"
	case "counting":
		grp = append(grp, "CountingWindow(2)")
	case "session":
		grp = append(grp, "SessionWindow('2s')")
		with = " WITH (TIMESTAMP='ts', TIMEUNIT='ms')"
	case "global":
		if len(set.Name)%2 == 0 {
			// a trigger over two aggregates that are not selected (per-group trigger state of both)
			grp = append(grp, "GLOBAL WINDOW TRIGGER WHEN count(id) >= 2 AND max(id) > 0")
		} else {
			grp = append(grp, "GLOBAL WINDOW TRIGGER WHEN count(*) >= 2")
		}
	}
	if set.WinFirst {
		n := len(grp) - 1
		grp = append([]string{grp[n]}, grp[:n]...)
		return "SELECT " + strings.Join(sel, ", ") + " FROM stream GROUP BY " + strings.Join(grp, ", ") + with + " LIMIT 100"
	}
	return "SELECT " + strings.Join(sel, ", ") + " FROM stream GROUP BY " + strings.Join(grp, ", ") + with
}

// groupKey is the reference's typed key (never a separator-joined string of raw values).
func c04GroupKey(set c04Set, t c04Tuple) string {
	var sb strings.Builder
	for ci, c := range t {
		if ci < len(set.Exprs) && set.Exprs[ci] != "" {
			if c == c04Missing {
				c = nil
			}
			c = c04ExprValue(set.Exprs[ci], c)
		}
		switch v := c.(type) {
		case nil, missingT:
			sb.WriteString("N;")
		case string:
			if set.Upper {
				v = strings.ToUpper(v)
			}
			fmt.Fprintf(&sb, "S%d:%s;", len(v), v)
		case int, int64:
			fmt.Fprintf(&sb, "I%d;", v)
		default:
			f, _ := num(v)
			if f == float64(int64(f)) && f < 9e15 && f > -9e15 {
				fmt.Fprintf(&sb, "I%d;", int64(f)) // integral floats and ints of the same value are one group
			} else {
				fmt.Fprintf(&sb, "F%v;", f)
			}
		}
	}
	return sb.String()
}

func c04RowKey(set c04Set, r Row) string {
	var t c04Tuple
	for i := 0; i < set.Cols; i++ {
		name := set.outName(i)
		v, ok := r[name]
		if !ok {
			v = nil
		}
		t = append(t, v)
	}
	return c04GroupKey(c04Set{Upper: false}, t)
}

// c04Expected: deliveries as a multiset of (groupKey, sorted ids).
func c04Expected(set c04Set, kind string, seq []int) []string {
	byKey := map[string][]int{}
	var order []string
	for i, x := range seq {
		k := c04GroupKey(set, set.Tuples[x])
		if _, ok := byKey[k]; !ok {
			order = append(order, k)
		}
		byKey[k] = append(byKey[k], i+1)
	}
	var out []string
	for _, k := range order {
		ids := byKey[k]
		switch kind {
		case "tumbling":
			out = append(out, fmt.Sprintf("%s=%v", k, ids))
		case "session":
			// each tuple has its own session: [first ts, last ts + timeout)
			first := int64(100+(ids[0]-1)*10) * 1000000
			last := int64(100+(ids[len(ids)-1]-1)*10+2000) * 1000000
			out = append(out, fmt.Sprintf("%s=%v@%d-%d", k, ids, first, last))
		case "counting", "global":
			for i := 0; i+2 <= len(ids); i += 2 {
				out = append(out, fmt.Sprintf("%s=%v", k, ids[i:i+2]))
			}
		}
	}
	sort.Strings(out)
	return out
}

func c04Observed(set c04Set, batches []Batch) []string {
	var out []string
	for _, b := range batches {
		for _, r := range b {
			if r["__sentinel"] != nil {
				continue
			}
			ids := sortedInts(idList(r["ids"]))
			// drop the sentinel's own result
			if len(ids) == 1 && ids[0] >= 9000 {
				continue
			}
			s := fmt.Sprintf("%s=%v", c04RowKey(set, r), ids)
			if ws, ok := r["ws"]; ok {
				s += fmt.Sprintf("@%v-%v", ws, r["we"])
			}
			if c, _ := num(r["c"]); int(c) != len(ids) {
				s += fmt.Sprintf("!count=%v", r["c"])
			}
			out = append(out, s)
		}
	}
	sort.Strings(out)
	return out
}

func c04Feed(set c04Set, kind string, seq []int) func(e *Env) {
	return func(e *Env) {
		mk := func(id int, t c04Tuple, ts int) Row {
			r := Row{"id": id, "ts": ts}
			for i, c := range t {
				if c == c04Missing {
					continue
				}
				if set.Nested && i == 0 {
					r["d"] = map[string]any{"x": c, "y": "other"}
					r["x"] = fmt.Sprint("shadow", id%2) // a top-level column named like the last path segment
					continue
				}
				r[set.col(i)] = c
			}
			return r
		}
		for i, x := range seq {
			e.Emit(mk(i+1, set.Tuples[x], 100+i*10))
		}
		if kind == "tumbling" || kind == "session" {
			// sentinel: pushes the watermark past every open window/session; its own key is fresh
			var st c04Tuple
			for i := 0; i < set.Cols; i++ {
				if _, isNum := num(set.Tuples[0][i]); isNum {
					st = append(st, 424242.5)
				} else {
					st = append(st, "zz-sentinel")
				}
			}
			e.Emit(mk(9001, st, 60000))
		}
	}
}

type c04 struct{}

func (c04) ID() string { return "C04" }

func (c04) Plan(tier string) []fw.Unit {
	return append(planEnum("C04", tier, len(c04Configs(tier)), 1), fw.Unit{Check: "C04", Kind: "manual-trigger", Tier: tier, Spec: fw.Spec(enumSpec{})},
		fw.Unit{Check: "C04", Kind: "joined-columns", Tier: tier, Spec: fw.Spec(enumSpec{})},
		fw.Unit{Check: "C04", Kind: "panicking-row", Tier: tier, Spec: fw.Spec(enumSpec{})})
}

func c04Classify(set c04Set, exp, got []string) string {
	// merged: fewer result rows than distinct tuples; split: more
	switch {
	case len(got) < len(exp):
		return "groups-merged-or-missing"
	case len(got) > len(exp):
		return "groups-split-or-extra"
	}
	return "wrong-membership"
}

func (c04) Run(u fw.Unit) fw.Result {
	if u.Kind == "manual-trigger" {
		return c04ManualTrigger()
	}
	if u.Kind == "joined-columns" {
		return c04Joined()
	}
	if u.Kind == "panicking-row" {
		return c04PanickingRow()
	}
	sp := parseEnum(u)
	cfg := c04Configs(u.Tier)[sp.Cfg]
	if cfg.Pairs > 0 {
		return c04RunPairs(u.Tier, cfg)
	}
	set := c04Sets[cfg.Set]
	a := newAcc("C04", "det-groupby-"+cfg.Kind)
	sql := c04SQL(set, cfg.Kind)
	idx := 0
	for L := 1; L <= cfg.MaxL; L++ {
		sequences(L, len(set.Tuples), func(seq []int) {
			idx++
			seq = append([]int(nil), seq...)
			r := detExec(sql, detOpts{}, c04Feed(set, cfg.Kind, seq))
			a.r.Evaluations++
			a.r.States++
			a.r.Transitions += int64(r.Steps)
			cs := map[string]any{"set": set.Name, "window": cfg.Kind, "sql": sql, "seq": seq, "tuples": tuplesJSON(set, seq)}
			if r.ExecErr != "" || r.Status != sched.StatusOK {
				a.fail("C04|"+cfg.Kind+"|exec", r.ExecErr+" "+r.Status.String()+" "+firstLine(r.Panic), cs, nil, nil)
				return
			}
			exp := c04Expected(set, cfg.Kind, seq)
			got := c04Observed(set, r.Batches)
			a.outcome(strings.Join(got, ";"))
			if len(exp) > 1 {
				a.r.Nontrivial++
			}
			if strings.Join(exp, ";") != strings.Join(got, ";") {
				a.fail(fmt.Sprintf("C04|%s|set=%s|%s", cfg.Kind, set.Name, c04Classify(set, exp, got)),
					fmt.Sprintf("groups delivered %q, reference %q", got, exp), cs, exp, r.Batches)
			}
			if idx == 30 {
				a.sample(map[string]any{"sql": sql, "rows": tuplesJSON(set, seq), "delivered_groups": got})
			}
		})
	}
	return a.result()
}

// c04RunPairs: all unordered pairs of distinct tuples of the universe; two tuples must give two groups.
func c04RunPairs(tier string, cfg c04Cfg) fw.Result {
	a := newAcc("C04", "det-groupby-pairs-"+cfg.Kind)
	uni := c04PairUniverse(tier, cfg.Pairs)
	name := fmt.Sprintf("pairs%d", cfg.Pairs)
	sql := c04SQL(c04Set{Name: name, Cols: cfg.Pairs}, cfg.Kind)
	seq := []int{0, 1, 0, 1}
	idx := 0
	// two columns: plus the text tuples that collide under any "join the components with a middle" encoding
	nUni := len(uni)
	if cfg.Pairs == 2 {
		for _, pr := range collisionPairs() {
			uni = append(uni, c04Tuple{pr[0][0], pr[0][1]}, c04Tuple{pr[1][0], pr[1][1]})
		}
	}
	for i := 0; i < len(uni); i++ {
		for j := i + 1; j < len(uni); j++ {
			if j >= nUni && !(i == j-1 && (j-nUni)%2 == 1) {
				continue // a middle tuple is only compared with its own partner
			}
			idx++
			if idx%c04PairParts != cfg.Part {
				continue
			}
			set := c04Set{Name: name, Cols: cfg.Pairs, Tuples: []c04Tuple{uni[i], uni[j]}}
			r := detExec(sql, detOpts{}, c04Feed(set, cfg.Kind, seq))
			a.r.Evaluations++
			a.r.States++
			a.r.Transitions += int64(r.Steps)
			cs := map[string]any{"set": name, "window": cfg.Kind, "sql": sql, "seq": seq, "tuples": tuplesJSON(set, seq)}
			if r.ExecErr != "" || r.Status != sched.StatusOK {
				a.fail("C04|"+cfg.Kind+"|exec", r.ExecErr+" "+r.Status.String()+" "+firstLine(r.Panic), cs, nil, nil)
				continue
			}
			exp := c04Expected(set, cfg.Kind, seq)
			got := c04Observed(set, r.Batches)
			a.outcome(strings.Join(got, ";"))
			a.r.Nontrivial++
			if strings.Join(exp, ";") != strings.Join(got, ";") {
				a.fail(fmt.Sprintf("C04|%s|set=%s|%s", cfg.Kind, name, c04Classify(set, exp, got)),
					fmt.Sprintf("groups delivered %q, reference %q", got, exp), cs, exp, r.Batches)
			}
			if idx == 50 {
				a.sample(map[string]any{"sql": sql, "rows": tuplesJSON(set, seq), "delivered_groups": got})
			}
		}
	}
	return a.result()
}

func tuplesJSON(set c04Set, seq []int) []string {
	var out []string
	for _, x := range seq {
		var parts []string
		for _, c := range set.Tuples[x] {
			switch v := c.(type) {
			case nil:
				parts = append(parts, "NULL")
			case missingT:
				parts = append(parts, "<missing>")
			case string:
				parts = append(parts, fmt.Sprintf("%q", v))
			default:
				parts = append(parts, fmt.Sprint(v))
			}
		}
		out = append(out, "("+strings.Join(parts, ",")+")")
	}
	return out
}

func (c04) Describe(tier string) fw.Description {
	return fw.Description{
		Level: "model_checking",
		Rule: "bounded-exhaustive enumeration on the real engine (deterministic schedule): " + fmt.Sprint(len(c04Sets)) + " tuple alphabets (0..3 grouping columns; strings with '|', ',', unit separator, the NULL marker text, empty string; numbers; NULL; missing; upper(k) and multi-argument function keys, aliased or not; mixed-case column names; a nested path) x 4 window kinds (tumbling event-time, CountingWindow(2), session, GLOBAL WINDOW TRIGGER WHEN count(*)>=2) x all row sequences of length 1..L over the alphabet; plus a pairwise collision search: every unordered pair of distinct tuples over a component alphabet (empty string, '|', '\\', unit separator and NULL alone / leading / trailing / doubled; 2 and 3 columns) fed as t1,t2,t1,t2 to every window kind, and key tuples that collide under join-with-a-middle and faulty-escaping encoders; TriggerWindow() with three groups open over all assignments of 6 rows (session, tumbling, sliding); 8 JOIN queries whose grouping columns come from the joined table or sit below the stream alias (2-4 path segments, aliased or not, LEFT JOIN) over all device sequences of length 1..4, with the expected column names; batches next to one whose aggregate argument panics (all sequences of length 6 over 2 keys x ordinary / panicking rows) report exactly their own groups; the delivered (group key, id set) multiset must equal the reference grouping keyed by typed tuples; non-trivial = at least two expected groups/deliveries",
		Bounds:      map[string]any{"max_len": map[string]int{"quick": 4, "thorough": 6}, "tuple_sets": len(c04Sets), "window_kinds": c04Kinds},
		Assumptions: []string{"NULL and missing are never mixed in one column of one alphabet (the property treats them as one group)", "one value type per grouping column"},
	}
}

func init() { fw.Register(c04{}) }
