package checks

import (
	"fmt"
	"sort"
	"time"

	"verifharness/explore"
	"verifharness/fw"

	"github.com/rulego/streamsql/rsql"
	"github.com/rulego/streamsql/types"
	"github.com/rulego/streamsql/verifrt/sched"
	vtime "github.com/rulego/streamsql/verifrt/time"
	"github.com/rulego/streamsql/window"
)

// C01 (c): processing-time tumbling windows on the virtual clock. A script is a list of
// (Add, Sleep d) steps; every row must be reported exactly once, in the size-aligned interval
// that contains the (virtual) instant of its Add.

const c01ProcSize = 200 * time.Millisecond

var c01ProcDeltas = []time.Duration{0, 100 * time.Millisecond, 200 * time.Millisecond, 300 * time.Millisecond}

type c01ProcDelivery struct {
	WS, WE int64 // ns since the virtual epoch base
	IDs    []int
}

// c01ProcSlow: when set, the consumer of the first delivered window takes 900 ms (four and a half windows), so the
// trigger side falls behind the clock while rows keep arriving.
var c01ProcSlow bool

func c01ProcRun(script []int, ch sched.Chooser) (*sched.Result, []c01ProcDelivery, []int64, string) {
	var ds []c01ProcDelivery
	var addAt []int64
	var cerr string
	maxSteps := 2000000
	res := sched.Run(sched.Config{Chooser: ch, MaxSteps: maxSteps, Trace: traceFn()}, func() {
		cfg, _, err := rsql.Parse("SELECT count(*) AS c, collect(id) AS ids FROM stream GROUP BY TumblingWindow('200ms')")
		if err != nil {
			cerr = err.Error()
			return
		}
		w, err := window.CreateWindow(cfg.WindowConfig)
		if err != nil {
			cerr = err.Error()
			return
		}
		base := sched.Base.UnixNano()
		w.SetCallback(func(rows []types.Row) {
			if len(rows) == 0 {
				return
			}
			d := c01ProcDelivery{WS: rows[0].Slot.Start.UnixNano() - base, WE: rows[0].Slot.End.UnixNano() - base}
			for _, r := range rows {
				d.IDs = append(d.IDs, toInt(r.Data.(map[string]any)["id"]))
			}
			sort.Ints(d.IDs)
			ds = append(ds, d)
			if c01ProcSlow && len(ds) == 1 {
				vtime.Sleep(900 * time.Millisecond)
			}
		})
		w.Start()
		vtime.Sleep(70 * time.Millisecond) // first Add not on a window boundary
		for i, x := range script {
			addAt = append(addAt, sched.Cur().Elapsed())
			w.Add(map[string]any{"id": i + 1})
			if d := c01ProcDeltas[x]; d > 0 {
				vtime.Sleep(d)
			}
		}
		vtime.Sleep(3 * c01ProcSize)
		if c01ProcSlow {
			vtime.Sleep(14 * c01ProcSize)
		}
		sched.Quiesce()
		w.Stop()
		sched.Quiesce()
	})
	return res, ds, addAt, cerr
}

func c01ProcCheck(script []int, ds []c01ProcDelivery, addAt []int64) (kind, what string) {
	count := map[int]int{}
	seenWin := map[int64]bool{}
	size := int64(c01ProcSize)
	for _, d := range ds {
		if d.WE-d.WS != size || d.WS%size != 0 {
			return "proc-bounds", fmt.Sprintf("interval [%d,%d) ns is not a size-aligned interval of %d ns", d.WS, d.WE, size)
		}
		if seenWin[d.WS] {
			return "proc-interval-twice", fmt.Sprintf("interval starting at %d ns reported twice", d.WS)
		}
		seenWin[d.WS] = true
		for _, id := range d.IDs {
			count[id]++
			t := addAt[id-1]
			if t < d.WS || t >= d.WE {
				return "proc-wrong-interval", fmt.Sprintf("row %d added at %d ns reported in [%d,%d)", id, t, d.WS, d.WE)
			}
		}
	}
	for i := range script {
		if count[i+1] != 1 {
			return "proc-row-count", fmt.Sprintf("row %d (added at %d ns) reported %d times", i+1, addAt[i], count[i+1])
		}
	}
	return "", ""
}

func c01ProcEnum(tier string) fw.Result {
	a := newAcc("C01", "processing-time")
	maxL := 4
	if tier == "thorough" {
		maxL = 6
	}
	for L := 1; L <= maxL; L++ {
		sequences(L, len(c01ProcDeltas), func(script []int) {
			script = append([]int(nil), script...)
			res, ds, addAt, cerr := c01ProcRun(script, nil)
			a.r.Evaluations++
			a.r.States++
			a.r.Transitions += int64(res.Steps)
			cs := map[string]any{"script_sleep_ms_after_each_add": scriptMs(script)}
			if cerr != "" || res.Status != sched.StatusOK {
				a.fail("C01|processing-time|exec", cerr+" "+res.Status.String()+" "+firstLine(res.PanicVal), cs, nil, nil)
				return
			}
			if len(ds) > 1 {
				a.r.Nontrivial++
			}
			a.outcome(js(ds))
			if kind, what := c01ProcCheck(script, ds, addAt); kind != "" {
				a.fail("C01|tumbling|"+kind, what, cs, nil, ds)
			}
		})
	}
	// the same scripts with a consumer that holds the first delivery for 900 ms
	c01ProcSlow = true
	for L := 2; L <= maxL; L++ {
		sequences(L, len(c01ProcDeltas), func(script []int) {
			script = append([]int(nil), script...)
			res, ds, addAt, cerr := c01ProcRun(script, nil)
			a.r.Evaluations++
			a.r.States++
			a.r.Transitions += int64(res.Steps)
			cs := map[string]any{"script_sleep_ms_after_each_add": scriptMs(script), "first_delivery_held_ms": 900}
			if cerr != "" || res.Status != sched.StatusOK {
				a.fail("C01|processing-time|exec", cerr+" "+res.Status.String()+" "+firstLine(res.PanicVal), cs, nil, nil)
				return
			}
			if len(ds) > 1 {
				a.r.Nontrivial++
			}
			a.outcome("slow" + js(ds))
			if kind, what := c01ProcCheck(script, ds, addAt); kind != "" {
				a.fail("C01|tumbling|"+kind+"|slow-consumer", what, cs, nil, ds)
			}
		})
	}
	c01ProcSlow = false
	a.sample(map[string]any{"window": "TumblingWindow('200ms') processing time", "script": "Add; Sleep d; ... with d in 0,100,200,300 ms; first Add at +70 ms; again with the first delivery held for 900 ms"})
	return a.result()
}

func scriptMs(script []int) []int {
	out := make([]int, len(script))
	for i, x := range script {
		out[i] = int(c01ProcDeltas[x] / time.Millisecond)
	}
	return out
}

func c01ProcScenarios() []schedScenario {
	var out []schedScenario
	for _, script := range [][]int{{0, 2, 1}, {1, 1, 3}, {2, 0, 0, 2}} {
		script := script
		out = append(out, schedScenario{Name: fmt.Sprintf("proc-%v", scriptMs(script)), Params: map[string]any{"sleep_ms": scriptMs(script)}, Run: func(ch sched.Chooser, local map[int]bool) (*sched.Result, string, *explore.Failure) {
			res, ds, addAt, cerr := c01ProcRun(script, ch)
			out := js(ds)
			if cerr != "" {
				return res, out, &explore.Failure{Signature: "C01|processing-time|setup", What: cerr}
			}
			if res.Status != sched.StatusOK {
				return res, out, &explore.Failure{Signature: "C01|processing-time|" + res.Status.String(), What: "execution ended with " + res.Status.String() + " " + firstLine(res.PanicVal) + " live=" + liveDesc(res)}
			}
			if kind, what := c01ProcCheck(script, ds, addAt); kind != "" {
				return res, out, &explore.Failure{Signature: "C01|tumbling|sched-" + kind, What: what, Observed: ds}
			}
			return res, out, nil
		}})
	}
	return out
}
