package checks

import (
	"fmt"
	"sort"
	"strings"

	"verifharness/fw"
	"verifharness/ref"

	"github.com/rulego/streamsql/verifrt/sched"
	vtime "github.com/rulego/streamsql/verifrt/time"
)

// Group-key identity for the per-key window kinds (C10 session, C17 global): every unordered pair of key values
// from an alphabet of NULL, a missing column and texts that resemble the engines' NULL markers, separators and
// printed forms. Two keys are one group exactly when both are NULL/missing; every other pair is two groups.

type gkey struct {
	Name string
	V    any
	Miss bool
}

func (k gkey) class() string {
	if k.V == nil {
		return "NULL"
	}
	return k.Name
}

func (k gkey) set(r Row, col string) {
	if !k.Miss {
		r[col] = k.V
	}
}

var gkeyAlphabet = []gkey{
	{"NULL", nil, false}, {"missing", nil, true}, {"''", "", false}, {"' '", " ", false}, {"'a'", "a", false}, {"'A'", "A", false},
	{`'\N'`, `\N`, false}, {"'null'", "null", false}, {"'<nil>'", "<nil>", false}, {"'nil'", "nil", false}, {"'|'", "|", false},
	{"'\\x1f'", "\x1f", false}, {"'\\x00NULL'", "\x00NULL", false}, {"'0'", "0", false},
}

func gkeyShape(a, b gkey) string {
	kind := func(k gkey) string {
		switch {
		case k.Miss:
			return "missing"
		case k.V == nil:
			return "NULL"
		case k.V == "":
			return "empty-text"
		}
		return "text"
	}
	s := []string{kind(a), kind(b)}
	sort.Strings(s)
	return s[0] + "+" + s[1]
}

// c17KeyPairs: rows k1,k2,k1,k2 with TRIGGER WHEN count(*) >= 2: two groups fire once each at their own second row.
func c17KeyPairs() fw.Result {
	a := newAcc("C17", "det-global-key-pairs")
	for _, twoCols := range []bool{false, true} {
		sql := "SELECT k, count(*) AS c, sum(v) AS s FROM stream GROUP BY k, GLOBAL WINDOW TRIGGER WHEN count(*) >= 2"
		if twoCols {
			sql = "SELECT j, k, count(*) AS c, sum(v) AS s FROM stream GROUP BY j, k, GLOBAL WINDOW TRIGGER WHEN count(*) >= 2"
		}
		for i, k1 := range gkeyAlphabet {
			for _, k2 := range gkeyAlphabet[i+1:] {
				var rows []Row
				for n, v := range []float64{1, 10, 2, 20} {
					r := Row{"id": n + 1, "v": v, "j": "x"}
					[]gkey{k1, k2}[n%2].set(r, "k")
					rows = append(rows, r)
				}
				want := []string{fmt.Sprintf("%s:c=2,s=3", k1.class()), fmt.Sprintf("%s:c=2,s=30", k2.class())}
				if k1.class() == k2.class() {
					want = []string{"NULL:c=2,s=11", "NULL:c=2,s=22"}
				}
				r := detExec(sql, detOpts{Eager: true, Horizon: 100 * vtime.Millisecond}, func(e *Env) {
					for _, row := range rows {
						e.Emit(copyVal(row).(map[string]any))
					}
				})
				a.r.Evaluations++
				a.r.States++
				a.r.Nontrivial++
				a.r.Transitions += int64(r.Steps)
				cs := map[string]any{"sql": sql, "rows": rows}
				if r.ExecErr != "" || r.Status != sched.StatusOK {
					a.fail("C17|key-pairs|exec", r.ExecErr+" "+r.Status.String()+" "+firstLine(r.Panic), cs, nil, nil)
					continue
				}
				var got []string
				for _, b := range r.Batches {
					for _, row := range b {
						name := "NULL"
						if s, ok := row["k"].(string); ok {
							name = "'" + s + "'"
							for _, g := range gkeyAlphabet {
								if g.V == s {
									name = g.Name
								}
							}
						} else if row["k"] != nil {
							name = fmt.Sprintf("%T(%v)", row["k"], row["k"])
						}
						c, _ := num(row["c"])
						s, _ := num(row["s"])
						got = append(got, fmt.Sprintf("%s:c=%v,s=%v", name, c, s))
					}
				}
				a.outcome(strings.Join(got, ";"))
				if strings.Join(got, ";") != strings.Join(want, ";") {
					a.fail(fmt.Sprintf("C17|key-pairs|groups-confused|%s|cols=%d", gkeyShape(k1, k2), map[bool]int{false: 1, true: 2}[twoCols]),
						fmt.Sprintf("%s; rows keyed %s,%s,%s,%s with v=1,10,2,20: fired %v, reference %v", sql, k1.Name, k2.Name, k1.Name, k2.Name, got, want), cs, want, got)
				}
			}
		}
	}
	// two grouping columns: text tuples that collide under any "join the components with a middle" key encoding
	sql2 := "SELECT j, k, count(*) AS c, sum(v) AS s FROM stream GROUP BY j, k, GLOBAL WINDOW TRIGGER WHEN count(*) >= 2"
	for _, pr := range collisionPairs() {
		var rows []Row
		for n, v := range []float64{1, 10, 2, 20} {
			rows = append(rows, Row{"id": n + 1, "v": v, "j": pr[n%2][0], "k": pr[n%2][1]})
		}
		r := detExec(sql2, detOpts{Eager: true, Horizon: 100 * vtime.Millisecond}, func(e *Env) {
			for _, row := range rows {
				e.Emit(copyVal(row).(map[string]any))
			}
		})
		a.r.Evaluations++
		a.r.States++
		a.r.Nontrivial++
		a.r.Transitions += int64(r.Steps)
		cs := map[string]any{"sql": sql2, "rows": rows}
		if r.ExecErr != "" || r.Status != sched.StatusOK {
			a.fail("C17|key-pairs|exec", r.ExecErr+" "+r.Status.String()+" "+firstLine(r.Panic), cs, nil, nil)
			continue
		}
		var got []string
		for _, b := range r.Batches {
			for _, row := range b {
				c, _ := num(row["c"])
				s, _ := num(row["s"])
				got = append(got, fmt.Sprintf("(%v,%v):c=%v,s=%v", row["j"], row["k"], c, s))
			}
		}
		want := []string{fmt.Sprintf("(%v,%v):c=2,s=3", pr[0][0], pr[0][1]), fmt.Sprintf("(%v,%v):c=2,s=30", pr[1][0], pr[1][1])}
		if strings.Join(got, ";") != strings.Join(want, ";") {
			a.fail("C17|key-pairs|groups-confused|text+text|cols=2", fmt.Sprintf("%s; rows keyed %q,%q alternately with v=1,10,2,20: fired %q, reference %q", sql2, pr[0], pr[1], got, want), cs, want, got)
		}
	}
	a.sample(map[string]any{"alphabet": len(gkeyAlphabet), "rows": "k1 v=1, k2 v=10, k1 v=2, k2 v=20", "trigger": "count(*) >= 2"})
	return a.result()
}

// c10KeyPairs: k1@10000, k2@10600, k1@11000, then a far sentinel; timeout 2 s. Two keys: sessions {1,3} [10000,13000) and
// {2} [10600,12600); one key: {1,2,3} [10000,13000).
func c10KeyPairs() fw.Result {
	a := newAcc("C10", "det-session-key-pairs")
	for _, twoCols := range []bool{false, true} {
		grp := "k"
		if twoCols {
			grp = "j, k"
		}
		sql := "SELECT " + grp + ", count(*) AS c, collect(id) AS ids, window_start() AS ws, window_end() AS we FROM stream GROUP BY " + grp + ", SessionWindow('2000ms') WITH (TIMESTAMP='ts', TIMEUNIT='ms')"
		for i, k1 := range gkeyAlphabet {
			for _, k2 := range gkeyAlphabet[i+1:] {
				for _, eager := range []bool{true, false} {
					var rows []Row
					for n, ts := range []int64{10000, 10600, 11000} {
						r := Row{"id": n + 1, "ts": ts, "j": "x"}
						[]gkey{k1, k2}[n%2].set(r, "k")
						rows = append(rows, r)
					}
					rows = append(rows, Row{"id": 99, "ts": int64(500000), "j": "zz", "k": "zz"})
					want := []string{"[1 3] [10000,13000)", "[2] [10600,12600)"}
					if k1.class() == k2.class() {
						want = []string{"[1 2 3] [10000,13000)"}
					}
					r := detExec(sql, detOpts{Eager: eager, Horizon: 500 * vtime.Millisecond}, func(e *Env) {
						for _, row := range rows {
							e.Emit(copyVal(row).(map[string]any))
						}
					})
					a.r.Evaluations++
					a.r.States++
					a.r.Nontrivial++
					a.r.Transitions += int64(r.Steps)
					cs := map[string]any{"sql": sql, "rows": rows, "eager_feed": eager}
					if r.ExecErr != "" || r.Status != sched.StatusOK {
						a.fail("C10|key-pairs|exec", r.ExecErr+" "+r.Status.String()+" "+firstLine(r.Panic), cs, nil, nil)
						continue
					}
					var got []string
					for _, b := range r.Batches {
						for _, row := range b {
							ids := sortedInts(idList(row["ids"]))
							if len(ids) == 1 && ids[0] == 99 {
								continue
							}
							ws, _ := num(row["ws"])
							we, _ := num(row["we"])
							got = append(got, fmt.Sprintf("%v [%d,%d)", ids, int64(ws)/1000000, int64(we)/1000000))
						}
					}
					sort.Strings(got)
					a.outcome(strings.Join(got, ";"))
					if strings.Join(got, ";") != strings.Join(want, ";") {
						a.fail(fmt.Sprintf("C10|key-pairs|sessions-confused|%s|cols=%d", gkeyShape(k1, k2), map[bool]int{false: 1, true: 2}[twoCols]),
							fmt.Sprintf("%s; rows keyed %s@10000, %s@10600, %s@11000: sessions %v, reference %v", sql, k1.Name, k2.Name, k1.Name, got, want), cs, want, got)
					}
				}
			}
		}
	}
	sql2 := "SELECT j, k, count(*) AS c, collect(id) AS ids, window_start() AS ws, window_end() AS we FROM stream GROUP BY j, k, SessionWindow('2000ms') WITH (TIMESTAMP='ts', TIMEUNIT='ms')"
	for _, pr := range collisionPairs() {
		var rows []Row
		for n, ts := range []int64{10000, 10600, 11000} {
			rows = append(rows, Row{"id": n + 1, "ts": ts, "j": pr[n%2][0], "k": pr[n%2][1]})
		}
		rows = append(rows, Row{"id": 99, "ts": int64(500000), "j": "zz", "k": "zz"})
		r := detExec(sql2, detOpts{Eager: true, Horizon: 500 * vtime.Millisecond}, func(e *Env) {
			for _, row := range rows {
				e.Emit(copyVal(row).(map[string]any))
			}
		})
		a.r.Evaluations++
		a.r.States++
		a.r.Nontrivial++
		a.r.Transitions += int64(r.Steps)
		cs := map[string]any{"sql": sql2, "rows": rows}
		if r.ExecErr != "" || r.Status != sched.StatusOK {
			a.fail("C10|key-pairs|exec", r.ExecErr+" "+r.Status.String()+" "+firstLine(r.Panic), cs, nil, nil)
			continue
		}
		var got []string
		for _, b := range r.Batches {
			for _, row := range b {
				ids := sortedInts(idList(row["ids"]))
				if len(ids) == 1 && ids[0] == 99 {
					continue
				}
				ws, _ := num(row["ws"])
				we, _ := num(row["we"])
				got = append(got, fmt.Sprintf("%v [%d,%d)", ids, int64(ws)/1000000, int64(we)/1000000))
			}
		}
		sort.Strings(got)
		want := []string{"[1 3] [10000,13000)", "[2] [10600,12600)"}
		if strings.Join(got, ";") != strings.Join(want, ";") {
			a.fail("C10|key-pairs|sessions-confused|text+text|cols=2", fmt.Sprintf("%s; rows keyed %q@10000, %q@10600, %q@11000: sessions %v, reference %v", sql2, pr[0], pr[1], pr[0], got, want), cs, want, got)
		}
	}
	a.sample(map[string]any{"alphabet": len(gkeyAlphabet), "rows": "k1@10000, k2@10600, k1@11000, sentinel", "timeout_ms": 2000})
	return a.result()
}

var _ = ref.Null

// middlePairs: pairs of distinct two-component text tuples that collide under EVERY key encoding of the shape
// prefix + c1 + middle + c2 + suffix (components joined by a separator, with or without a type tag in front of
// each component): for a middle M the text p+M+q+M+r splits as (p, q+M+r) and as (p+M+q, r). Middles: 11
// separators x 7 tags x 3 inner separators. Length-prefixed or escaped encodings keep all of them apart.
func middlePairs() [][2][2]string {
	var out [][2][2]string
	seen := map[string]bool{}
	seps := []string{"|", ":", ",", "\x1f", "\x00", "/", "#", ";", "_", "-", " "}
	tags := []string{"", "string", "s", "str", "S", "text", "string:"}
	for _, sep := range seps {
		for _, tag := range tags {
			inner := []string{""}
			if tag != "" {
				inner = []string{"", sep, ":"}
			}
			for _, in := range inner {
				m := sep + tag + in
				if seen[m] {
					continue
				}
				seen[m] = true
				for _, q := range []string{"", "q"} {
					out = append(out, [2][2]string{{"x", q + m + "Y"}, {"x" + m + q, "Y"}})
				}
			}
		}
	}
	return out
}

// escapePairs: pairs of distinct two-component text tuples that collide under a FAULTY escaping key encoder. With
// separator S and escape character E the sound encoding escapes E first and S second; the faulty variants are:
// the two steps swapped, only S escaped, only E escaped, nothing escaped. Components: every string of at most three
// tokens over {a, S, E}; all colliding pairs of every variant, for (S,E) = ('|','\\') and ('\x1f','\\').
func escapePairs() [][2][2]string {
	var out [][2][2]string
	seen := map[string]bool{}
	for _, se := range [][2]string{{"|", "\\"}, {"\x1f", "\\"}} {
		S, E := se[0], se[1]
		comps := []string{""}
		toks := []string{"a", S, E}
		var rec func(prefix string, n int)
		rec = func(prefix string, n int) {
			if n == 0 {
				return
			}
			for _, t := range toks {
				comps = append(comps, prefix+t)
				rec(prefix+t, n-1)
			}
		}
		rec("", 3)
		encs := []func(string) string{
			func(c string) string { return strings.ReplaceAll(strings.ReplaceAll(c, S, E+S), E, E+E) },
			func(c string) string { return strings.ReplaceAll(c, S, E+S) },
			func(c string) string { return strings.ReplaceAll(c, E, E+E) },
			func(c string) string { return c },
		}
		for _, f := range encs {
			buckets := map[string][][2]string{}
			var order []string
			for _, x := range comps {
				for _, y := range comps {
					k := f(x) + S + f(y)
					if _, ok := buckets[k]; !ok {
						order = append(order, k)
					}
					buckets[k] = append(buckets[k], [2]string{x, y})
				}
			}
			for _, k := range order {
				b := buckets[k]
				for _, u := range b[1:] {
					id := b[0][0] + "\x00" + b[0][1] + "\x00" + u[0] + "\x00" + u[1]
					if !seen[id] {
						seen[id] = true
						out = append(out, [2][2]string{b[0], u})
					}
				}
			}
		}
	}
	return out
}

// collisionPairs: every pair of the two families above.
func collisionPairs() [][2][2]string { return append(middlePairs(), escapePairs()...) }

// c09KeyPairs: CountingWindow(2) grouped by two columns, rows keyed t1,t2,t1,t2 for every colliding text tuple pair and
// for the group-key identity alphabet in the second column: batches {1,3} and {2,4} (one batch {1,2},{3,4} order for
// NULL/missing, which are one key).
func c09KeyPairs() fw.Result {
	a := newAcc("C09", "det-counting-key-pairs")
	sql := "SELECT j, k, count(*) AS c, collect(id) AS ids FROM stream GROUP BY j, k, CountingWindow(2)"
	run := func(set func(n int, r Row), same bool, desc, shape string) {
		var rows []Row
		for n := 0; n < 4; n++ {
			r := Row{"id": n + 1}
			set(n, r)
			rows = append(rows, r)
		}
		want := "[1 3];[2 4]"
		if same {
			want = "[1 2];[3 4]"
		}
		r := detExec(sql, detOpts{Eager: true, Horizon: 100 * vtime.Millisecond}, func(e *Env) {
			for _, row := range rows {
				e.Emit(copyVal(row).(map[string]any))
			}
		})
		a.r.Evaluations++
		a.r.States++
		a.r.Nontrivial++
		a.r.Transitions += int64(r.Steps)
		cs := map[string]any{"sql": sql, "rows": rows}
		if r.ExecErr != "" || r.Status != sched.StatusOK {
			a.fail("C09|key-pairs|exec", r.ExecErr+" "+r.Status.String()+" "+firstLine(r.Panic), cs, nil, nil)
			return
		}
		var got []string
		for _, b := range r.Batches {
			for _, row := range b {
				got = append(got, fmt.Sprint(sortedInts(idList(row["ids"]))))
			}
		}
		a.outcome(strings.Join(got, ";"))
		if strings.Join(got, ";") != want {
			a.fail("C09|key-pairs|keys-confused|"+shape, fmt.Sprintf("%s; rows keyed %s alternately: batches %v, reference %s", sql, desc, got, want), cs, want, got)
		}
	}
	for _, pr := range collisionPairs() {
		pr := pr
		run(func(n int, r Row) { r["j"], r["k"] = pr[n%2][0], pr[n%2][1] }, false, fmt.Sprintf("%q / %q", pr[0], pr[1]), "text+text")
	}
	for i, k1 := range gkeyAlphabet {
		for _, k2 := range gkeyAlphabet[i+1:] {
			k1, k2 := k1, k2
			run(func(n int, r Row) { r["j"] = "x"; []gkey{k1, k2}[n%2].set(r, "k") }, k1.class() == k2.class(), k1.Name+" / "+k2.Name, gkeyShape(k1, k2))
		}
	}
	a.sample(map[string]any{"sql": sql, "pairs": len(collisionPairs())})
	return a.result()
}

// c04ManualTrigger: TriggerWindow() (the manual flush) with several groups open at once: every group is reported
// with its own rows, each row once. Session windows (one open session per key: one batch per key), tumbling and
// sliding processing-time windows and a counting window with partial batches; all assignments of 6 rows to 3 keys.
func c04ManualTrigger() fw.Result {
	a := newAcc("C04", "det-groupby-manual-trigger")
	kinds := map[string]string{
		"session":  "SELECT k, count(*) AS c, collect(id) AS ids FROM stream GROUP BY k, SessionWindow('30s')",
		"tumbling": "SELECT k, count(*) AS c, collect(id) AS ids FROM stream GROUP BY k, TumblingWindow('30s')",
		"sliding":  "SELECT k, count(*) AS c, collect(id) AS ids FROM stream GROUP BY k, SlidingWindow('30s','30s')",
	}
	for _, kind := range []string{"session", "tumbling", "sliding"} {
		sql := kinds[kind]
		sequences(6, 3, func(seq []int) {
			want := map[string][]int{}
			var rows []Row
			for i, x := range seq {
				k := []string{"a", "b", "c"}[x]
				rows = append(rows, Row{"id": i + 1, "k": k})
				want[k] = append(want[k], i+1)
			}
			r := detExec(sql, detOpts{Eager: true, Horizon: 100 * vtime.Millisecond}, func(e *Env) {
				for _, row := range rows {
					e.Emit(copyVal(row).(map[string]any))
				}
				e.S.TriggerWindow()
				sched.Quiesce()
			})
			a.r.Evaluations++
			a.r.States++
			a.r.Nontrivial++
			a.r.Transitions += int64(r.Steps)
			cs := map[string]any{"sql": sql, "rows": rows, "then": "TriggerWindow()"}
			if r.ExecErr != "" || r.Status != sched.StatusOK {
				a.fail("C04|manual-trigger|exec|"+kind, r.ExecErr+" "+r.Status.String()+" "+firstLine(r.Panic), cs, nil, nil)
				return
			}
			got := map[string][]int{}
			var dup []string
			for _, b := range r.Batches {
				for _, row := range b {
					k, _ := row["k"].(string)
					if _, seen := got[k]; seen {
						dup = append(dup, k)
					}
					got[k] = append(got[k], sortedInts(idList(row["ids"]))...)
				}
			}
			a.outcome(fmt.Sprint(got))
			if fmt.Sprint(got) != fmt.Sprint(want) || len(dup) > 0 {
				a.fail("C04|manual-trigger|"+kind+"|groups-wrong", fmt.Sprintf("%s, then TriggerWindow(): groups delivered %v (reported twice: %v), reference %v", sql, got, dup, want), cs, want, got)
			}
		})
	}
	a.sample(map[string]any{"queries": kinds, "rows": 6, "keys": 3})
	return a.result()
}
