package checks

import (
	"encoding/json"

	"verifharness/fw"
)

// Replayer re-executes the single case recorded in a violation.
type Replayer interface {
	Replay(v fw.Violation) (string, bool)
}

// Replay dispatches to the check that produced the violation.
func Replay(property string, v fw.Violation) (string, bool) {
	c := fw.Get(property)
	if r, ok := c.(Replayer); ok {
		return r.Replay(v)
	}
	return "check " + property + " has no replayer", false
}

func caseMap(v fw.Violation) map[string]any {
	b, _ := json.Marshal(v.Case)
	var m map[string]any
	json.Unmarshal(b, &m)
	return m
}

func (c19) Replay(v fw.Violation) (string, bool) {
	return replaySched(c19Scenarios("thorough"), caseMap(v))
}
