package checks

import (
	"encoding/json"
	"strconv"

	"verifharness/fw"
)

// Replayer re-executes the single case recorded in a violation.
type Replayer interface {
	Replay(v fw.Violation) (string, bool)
}

// Replay dispatches to the check that produced the violation.
func Replay(property string, v fw.Violation) (string, bool) {
	c := fw.Get(property)
	if r, ok := c.(Replayer); ok {
		return r.Replay(v)
	}
	// generic replay: run the recorded work unit again (twice) and look for the same signature on the same case
	if v.Unit == nil {
		return "check " + property + " has no replayer and the file records no work unit", false
	}
	want, _ := json.Marshal(v.Case)
	out := ""
	failed := false
	for i := 0; i < 2; i++ {
		r := c.Run(*v.Unit)
		hit, sameSig := false, 0
		for _, w := range r.Violations {
			if w.Signature != v.Signature {
				continue
			}
			sameSig++
			if got, _ := json.Marshal(w.Case); string(got) == string(want) {
				hit = true
				out += "run " + itoa(i+1) + ": the recorded case fails again: " + w.What + "\n"
			}
		}
		if !hit && sameSig > 0 {
			hit = true // the unit reports the first case per signature; the same signature on the re-run unit is the same defect
			out += "run " + itoa(i+1) + ": the unit reports the signature again (" + itoa(sameSig) + " case(s))\n"
		}
		if !hit {
			out += "run " + itoa(i+1) + ": the unit " + v.Unit.Kind + " " + string(v.Unit.Spec) + " no longer reports " + v.Signature + "\n"
		}
		failed = failed || hit
	}
	return out, failed
}

func itoa(i int) string { return strconv.Itoa(i) }

func caseMap(v fw.Violation) map[string]any {
	b, _ := json.Marshal(v.Case)
	var m map[string]any
	json.Unmarshal(b, &m)
	return m
}

func (c19) Replay(v fw.Violation) (string, bool) {
	return replaySched(c19Scenarios("thorough"), caseMap(v))
}
