package checks

import (
	"fmt"
	"strings"

	"verifharness/fw"

	"github.com/rulego/streamsql/verifrt/sched"
	vtime "github.com/rulego/streamsql/verifrt/time"
)

// c07Batches: several consecutive batches of one query with HAVING / LIMIT / DISTINCT: each emitted batch is judged
// on its own rows - a batch whose every group is rejected (nothing delivered) must leave nothing behind for the next.
// CountingWindow(2) per key; all key/value sequences of length <= L over 2 keys x v in {1,4}.
func c07Batches(tier string) fw.Result {
	a := newAcc("C07", "det-postagg-batches")
	maxL := 6
	if tier == "thorough" {
		maxL = 8
	}
	type q struct {
		name, sql string
		keep      func(sum float64) bool
	}
	qs := []q{
		{"having-alias", "SELECT k, sum(v) AS s, count(*) AS n FROM stream GROUP BY k, CountingWindow(2) HAVING s > 3", func(s float64) bool { return s > 3 }},
		{"having-unselected", "SELECT k, sum(v) AS s, count(*) AS n FROM stream GROUP BY k, CountingWindow(2) HAVING max(v) > 1", func(s float64) bool { return s > 2 }},
		{"distinct", "SELECT DISTINCT k, sum(v) AS s, count(*) AS n FROM stream GROUP BY k, CountingWindow(2)", func(s float64) bool { return true }},
		{"order-limit", "SELECT k, sum(v) AS s, count(*) AS n FROM stream GROUP BY k, CountingWindow(2) ORDER BY s DESC LIMIT 3", func(s float64) bool { return true }},
		{"having-expr-item", "SELECT k, sum(v) AS s, count(*) AS n, max(v) - min(v) AS sp FROM stream GROUP BY k, CountingWindow(2) HAVING sp > 0", func(s float64) bool { return s == 5 }},
	}
	vals := []float64{1, 4}
	for _, qq := range qs {
		for L := 2; L <= maxL; L++ {
			sequences(L, 4, func(seq []int) {
				var rows []Row
				pend := map[string][]float64{}
				var want []string
				for i, x := range seq {
					k := []string{"a", "b"}[x/2]
					v := vals[x%2]
					rows = append(rows, Row{"id": i + 1, "k": k, "v": v})
					pend[k] = append(pend[k], v)
					if len(pend[k]) == 2 {
						s := pend[k][0] + pend[k][1]
						if qq.keep(s) {
							want = append(want, fmt.Sprintf("%s:s=%v,n=2", k, s))
						}
						pend[k] = nil
					}
				}
				r := detExec(qq.sql, detOpts{Eager: true, Horizon: 100 * vtime.Millisecond}, func(e *Env) {
					for _, row := range rows {
						e.Emit(copyVal(row).(map[string]any))
					}
				})
				a.r.Evaluations++
				a.r.States++
				a.r.Transitions += int64(r.Steps)
				cs := map[string]any{"sql": qq.sql, "rows": rows}
				if r.ExecErr != "" || r.Status != sched.StatusOK {
					a.fail("C07|batches|exec|"+qq.name, r.ExecErr+" "+r.Status.String()+" "+firstLine(r.Panic), cs, nil, nil)
					return
				}
				if r.Mutated != "" {
					a.fail("C07|batches|delivered-batch-altered-later|"+qq.name, qq.sql+": "+r.Mutated, cs, nil, nil)
				}
				var got []string
				for _, b := range r.Batches {
					for _, row := range b {
						k, _ := row["k"].(string)
						s, _ := num(row["s"])
						n, _ := num(row["n"])
						got = append(got, fmt.Sprintf("%s:s=%v,n=%v", k, s, n))
					}
				}
				if len(want) > 0 {
					a.r.Nontrivial++
				}
				a.outcome(strings.Join(got, ";"))
				if strings.Join(got, ";") != strings.Join(want, ";") {
					a.fail("C07|batches|"+qq.name+"|later-batch-wrong", fmt.Sprintf("%s over %d rows: delivered %v, reference %v (each batch of two rows of a key judged on its own)", qq.sql, len(rows), got, want), cs, want, got)
				}
			})
		}
	}
	// two consecutive tumbling windows with several groups each: HAVING, ORDER BY and LIMIT apply to each window's own groups
	tsql := "SELECT k, sum(v) AS s, count(*) AS n FROM stream GROUP BY k, TumblingWindow('2s') HAVING s > 3 WITH (TIMESTAMP='ts', TIMEUNIT='ms') ORDER BY s DESC, k LIMIT 1"
	for L := 1; L <= maxL-2; L++ {
		sequences(L, 8, func(seq []int) {
			// symbol = window (0|1) x key (a|b) x value (1|4); arrivals ordered by window
			var rows []Row
			sums := [2]map[string]float64{{}, {}}
			cnts := [2]map[string]int{{}, {}}
			id := 0
			for w := 0; w < 2; w++ {
				for _, x := range seq {
					if x/4 != w {
						continue
					}
					id++
					k, v := []string{"a", "b"}[(x/2)%2], vals[x%2]
					rows = append(rows, Row{"id": id, "k": k, "v": v, "ts": int64(10000 + w*2000 + id*10)})
					sums[w][k] += v
					cnts[w][k]++
				}
			}
			rows = append(rows, Row{"id": 99, "k": "zz", "v": 0.0, "ts": int64(500000)})
			var want []string
			for w := 0; w < 2; w++ {
				best, bestK := 0.0, ""
				for _, k := range []string{"a", "b"} {
					if sm := sums[w][k]; cnts[w][k] > 0 && sm > 3 && (bestK == "" || sm > best) {
						best, bestK = sm, k
					}
				}
				if bestK != "" {
					want = append(want, fmt.Sprintf("%s:s=%v,n=%d", bestK, best, cnts[w][bestK]))
				}
			}
			r := detExec(tsql, detOpts{Eager: true, Horizon: 300 * vtime.Millisecond}, func(e *Env) {
				for _, row := range rows {
					e.Emit(copyVal(row).(map[string]any))
				}
			})
			a.r.Evaluations++
			a.r.States++
			a.r.Transitions += int64(r.Steps)
			cs := map[string]any{"sql": tsql, "rows": rows}
			if r.ExecErr != "" || r.Status != sched.StatusOK {
				a.fail("C07|batches|exec|tumbling", r.ExecErr+" "+r.Status.String()+" "+firstLine(r.Panic), cs, nil, nil)
				return
			}
			var got []string
			for _, b := range r.Batches {
				for _, row := range b {
					k, _ := row["k"].(string)
					sm, _ := num(row["s"])
					n, _ := num(row["n"])
					got = append(got, fmt.Sprintf("%s:s=%v,n=%v", k, sm, n))
				}
			}
			if len(want) > 0 {
				a.r.Nontrivial++
			}
			a.outcome(strings.Join(got, ";"))
			if strings.Join(got, ";") != strings.Join(want, ";") {
				a.fail("C07|batches|tumbling-having-order-limit|window-wrong", fmt.Sprintf("%s: delivered %v, reference %v (each window judged on its own groups)", tsql, got, want), cs, want, got)
			}
		})
	}
	a.sample(map[string]any{"queries": []string{qs[0].sql, qs[1].sql, qs[2].sql, qs[3].sql, qs[4].sql, tsql}, "values": vals, "keys": 2})
	return a.result()
}
