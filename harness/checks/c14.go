package checks

import (
	"fmt"
	"math"
	"strings"

	"verifharness/fw"
	"verifharness/ref"

	"github.com/rulego/streamsql"
	"github.com/rulego/streamsql/verifrt/sched"
)

// C14: analytic functions are sequential per partition and isolated across partitions.

type c14In struct {
	K any
	V *float64 // nil = NULL or missing
	M bool     // missing (vs explicit NULL)
}

func (r c14In) row(id int) Row {
	row := Row{"k": r.K, "id": id}
	if r.V != nil {
		row["v"] = *r.V
	} else if !r.M {
		row["v"] = nil
	}
	return row
}

// per-partition reference state machines (definitions from the code's documentation comments
// and README: lag skips NULLs, latest = latest non-NULL, had_changed first row = changed,
// acc_* accumulate usable values)
type c14State struct {
	hist    []float64
	histAll []*float64 // every row, NULLs included (lag with ignoreNull = false)
	latest  *float64
	hcInit  bool
	hcPrev  *float64
	sum     float64
	cnt     int
	min     float64
	max     float64
	hasNum  bool
}

func fp(x float64) *float64 { return &x }

func (s *c14State) lag(v *float64, off int, def *float64) *float64 {
	var res *float64
	if len(s.hist) >= off {
		res = fp(s.hist[len(s.hist)-off])
	} else {
		res = def
	}
	return res
}

// step applies one row to the state and returns the named outputs.
func (s *c14State) step(v *float64) map[string]*float64 {
	out := map[string]*float64{}
	out["lag1"] = s.lag(v, 1, nil)
	out["lag2"] = s.lag(v, 2, nil)
	out["lag1d"] = s.lag(v, 1, fp(-1))
	// lag(v, n, default, false): NULL rows stay in the history; the default stands only for "fewer than n earlier rows"
	lagAll := func(off int, def *float64) *float64 {
		if len(s.histAll) >= off {
			return s.histAll[len(s.histAll)-off]
		}
		return def
	}
	out["lag1n"] = lagAll(1, fp(-1))
	out["lag2n"] = lagAll(2, fp(0))
	s.histAll = append(s.histAll, v)
	// had_changed(true, v): NULL ignored (no change, base kept); first usable value counts as a change
	hc := 0.0
	if v != nil {
		if !s.hcInit || s.hcPrev == nil || *s.hcPrev != *v {
			hc = 1
		}
		s.hcInit = true
		s.hcPrev = v
	} else if !s.hcInit {
		// first row NULL: the documentation says "first is a change"; both readings accepted by the caller
		hc = -1
		s.hcInit = true
	}
	out["hc"] = fp(hc)
	if v != nil {
		s.hist = append(s.hist, *v)
		s.latest = v
		s.sum += *v
		s.cnt++
		if !s.hasNum || *v < s.min {
			s.min = *v
		}
		if !s.hasNum || *v > s.max {
			s.max = *v
		}
		s.hasNum = true
	}
	out["latest"] = s.latest
	out["sum"] = fp(s.sum)
	out["cnt"] = fp(float64(s.cnt))
	if s.cnt > 0 {
		out["avg"] = fp(s.sum / float64(s.cnt))
		out["spread"] = fp(s.max - s.min)
	}
	if v != nil && out["lag1"] != nil {
		out["diff"] = fp(*v - *out["lag1"])
	}
	return out
}

type c14Query struct {
	Name  string
	SQL   string
	Part  bool                    // partitioned by k (else one global partition)
	Where func(r c14In) bool      // non-analytic WHERE (rows failing it do not count)
	Cols  map[string]string       // output column -> reference output name
	Post  func(out map[string]*float64, r c14In) (emit bool) // analytic WHERE
}

func c14Queries() []c14Query {
	pos := func(r c14In) bool { return r.V != nil && *r.V > 0 }
	return []c14Query{
		{Name: "lag-latest", Part: true, SQL: "SELECT k, lag(v) OVER (PARTITION BY k) AS p1, lag(v, 2) OVER (PARTITION BY k) AS p2, lag(v, 1, -1) OVER (PARTITION BY k) AS p3, latest(v) OVER (PARTITION BY k) AS lt, lag(v, 1, -1, false) OVER (PARTITION BY k) AS p4, lag(v, 2, 0, false) OVER (PARTITION BY k) AS p5 FROM stream",
			Cols: map[string]string{"p1": "lag1", "p2": "lag2", "p3": "lag1d", "lt": "latest", "p4": "lag1n", "p5": "lag2n"}},
		{Name: "acc", Part: true, SQL: "SELECT k, acc_sum(v) OVER (PARTITION BY k) AS s, acc_count(v) OVER (PARTITION BY k) AS c, acc_avg(v) OVER (PARTITION BY k) AS a, (acc_max(v) - acc_min(v)) OVER (PARTITION BY k) AS spread FROM stream",
			Cols: map[string]string{"s": "sum", "c": "cnt", "a": "avg", "spread": "spread"}},
		{Name: "had-changed", Part: true, SQL: "SELECT k, had_changed(true, v) OVER (PARTITION BY k) AS hc FROM stream", Cols: map[string]string{"hc": "hc"}},
		{Name: "diff-where", Part: true, SQL: "SELECT k, v - lag(v) OVER (PARTITION BY k) AS d FROM stream WHERE v > 0", Where: pos, Cols: map[string]string{"d": "diff"}},
		{Name: "global", Part: false, SQL: "SELECT lag(v) AS p, acc_sum(v) AS s, latest(v) AS lt FROM stream", Cols: map[string]string{"p": "lag1", "s": "sum", "lt": "latest"}},
		{Name: "where-analytic", Part: false, SQL: "SELECT k, acc_count(v) AS c FROM stream WHERE had_changed(true, v)", Cols: map[string]string{"c": "cnt"},
			Post: func(out map[string]*float64, r c14In) bool { return out["hc"] != nil && *out["hc"] == 1 }},
		// an analytic call inside WHERE with both PARTITION BY and WHEN in its OVER clause (every usable v is > 0: the
		// gate never closes, but the partition list must still be the one written)
		{Name: "where-analytic-over-when", Part: true, SQL: "SELECT k, acc_sum(v) OVER (PARTITION BY k) AS s FROM stream WHERE acc_count(v) OVER (PARTITION BY k WHEN v > 0) >= 2", Cols: map[string]string{"s": "sum"},
			Post: func(out map[string]*float64, r c14In) bool { return out["cnt"] != nil && *out["cnt"] >= 2 }},
	}
}

func c14Reference(q c14Query, seq []c14In) []map[string]*float64 {
	states := map[string]*c14State{}
	var res []map[string]*float64
	for _, r := range seq {
		if q.Where != nil && !q.Where(r) {
			res = append(res, nil)
			continue
		}
		key := "*"
		if q.Part {
			key = fmt.Sprintf("%T:%v", r.K, r.K)
		}
		st := states[key]
		if st == nil {
			st = &c14State{}
			states[key] = st
		}
		out := st.step(r.V)
		if q.Post != nil && !q.Post(out, r) {
			if hc := out["hc"]; hc != nil && *hc == -1 {
				res = append(res, map[string]*float64{"__either": fp(1)})
				for k, v := range out {
					res[len(res)-1][k] = v
				}
				continue
			}
			res = append(res, nil)
			continue
		}
		res = append(res, out)
	}
	return res
}

func c14Compare(q c14Query, want map[string]*float64, got Row) (col, what string) {
	if want != nil && want["__either"] != nil {
		return "", "" // first row NULL in an analytic WHERE: both readings accepted
	}
	if (want == nil) != (got == nil) {
		return "row-presence", fmt.Sprintf("result row present=%v, reference present=%v", got != nil, want != nil)
	}
	if want == nil {
		return "", ""
	}
	for c, refName := range q.Cols {
		w := want[refName]
		g, present := got[c]
		if refName == "hc" {
			if w != nil && *w == -1 {
				continue
			}
			b, _ := truthy(g)
			if b != (*w == 1) {
				return c, fmt.Sprintf("%s=%v, reference %v", c, g, *w == 1)
			}
			continue
		}
		if w == nil {
			if present && g != nil {
				return c, fmt.Sprintf("%s=%v, reference NULL", c, g)
			}
			continue
		}
		if f, ok := num(g); !ok || !ref.Close(f, *w) {
			return c, fmt.Sprintf("%s=%v, reference %v", c, g, *w)
		}
	}
	return "", ""
}

type c14 struct{}

func (c14) ID() string { return "C14" }

func (c14) Plan(tier string) []fw.Unit {
	us := planEnum("C14", tier, len(c14Queries()), 8)
	us = append(us, fw.Unit{Check: "C14", Kind: "when-cap", Tier: tier, Spec: fw.Spec(enumSpec{})})
	us = append(us, fw.Unit{Check: "C14", Kind: "key-pairs", Tier: tier, Spec: fw.Spec(enumSpec{})})
	us = append(us, fw.Unit{Check: "C14", Kind: "typed", Tier: tier, Spec: fw.Spec(enumSpec{})})
	for sh := 0; sh < 4; sh++ {
		us = append(us, fw.Unit{Check: "C14", Kind: "changed", Tier: tier, Spec: fw.Spec(enumSpec{Shard: sh, Shards: 4})})
	}
	for sh := 0; sh < 4; sh++ {
		us = append(us, fw.Unit{Check: "C14", Kind: "start-reset", Tier: tier, Spec: fw.Spec(enumSpec{Shard: sh, Shards: 4})})
	}
	for sh := 0; sh < 8; sh++ {
		us = append(us, fw.Unit{Check: "C14", Kind: "when-gate", Tier: tier, Spec: fw.Spec(enumSpec{Shard: sh, Shards: 8})})
	}
	return us
}

var c14Vals = []c14In{{V: fp(1)}, {V: fp(2)}, {V: nil}, {V: nil, M: true}}

// c14KeySets: string keys, and float64 keys that differ only beyond float32 precision
var c14KeySets = [][]any{{"a", "b", "c"}, {100000001.0, 100000002.0, 0.5}}

func c14Seq(idx []int, keys []any) []c14In {
	var out []c14In
	for _, x := range idx {
		r := c14Vals[x%len(c14Vals)]
		r.K = keys[x/len(c14Vals)]
		out = append(out, r)
	}
	return out
}

func c14Desc(seq []c14In) []string {
	var out []string
	for _, r := range seq {
		v := "NULL"
		if r.V != nil {
			v = fmt.Sprint(*r.V)
		} else if r.M {
			v = "missing"
		}
		out = append(out, fmt.Sprint(r.K)+":"+v)
	}
	return out
}

func (c14) Run(u fw.Unit) fw.Result {
	if u.Kind == "when-gate" {
		return c14WhenGate(u)
	}
	if u.Kind == "key-pairs" {
		return c14KeyPairs()
	}
	if u.Kind == "typed" {
		return c14Typed()
	}
	if u.Kind == "changed" {
		return c14Changed(u)
	}
	if u.Kind == "when-cap" {
		return c14WhenCap(u)
	}
	if u.Kind == "start-reset" {
		return c14StartReset(u)
	}
	sp := parseEnum(u)
	q := c14Queries()[sp.Cfg]
	a := newAcc("C14", "analytic-"+q.Name)
	maxL := 4
	if u.Tier == "thorough" {
		maxL = 5
	}
	nsym := 3 * len(c14Vals)
	idx := 0
	for ksi, keys := range c14KeySets {
	 keys := keys
	 if ksi == 1 && !q.Part {
		continue
	 }
	 for L := 1; L <= maxL; L++ {
		sequences(L, nsym, func(ix []int) {
			idx++
			if idx%sp.Shards != sp.Shard {
				return
			}
			seq := c14Seq(ix, keys)
			var rows []Row
			for i, r := range seq {
				rows = append(rows, r.row(i+1))
			}
			want := c14Reference(q, seq)
			res, execErr, st, pv := syncEval(q.SQL, rows)
			a.r.Evaluations++
			a.r.States++
			a.r.Transitions += int64(len(rows))
			cs := map[string]any{"sql": q.SQL, "rows": c14Desc(seq)}
			if execErr != "" || st != sched.StatusOK {
				a.fail("C14|"+q.Name+"|exec", execErr+" "+st.String()+" "+firstLine(pv), cs, nil, nil)
				return
			}
			a.outcome(js(res))
			nontrivial := false
			for i := range seq {
				if want[i] != nil && len(want[i]) > 0 {
					nontrivial = true
				}
				if col, what := c14Compare(q, want[i], res[i].Row); col != "" {
					a.fail(fmt.Sprintf("C14|%s|%s", q.Name, col), fmt.Sprintf("%s rows %v: row %d: %s (engine row %s %s)", q.SQL, c14Desc(seq), i+1, what, js(res[i].Row), res[i].Err), cs, nil, js(res))
					break
				}
			}
			if nontrivial {
				a.r.Nontrivial++
			}
			// asynchronous path: Emit + sync sink must deliver the same sequence of rows
			if idx%5 == 0 {
				r2 := detExec(q.SQL, detOpts{Eager: true}, func(e *Env) {
					for _, row := range rows {
						e.Emit(row)
					}
				})
				a.r.Evaluations++
				var asyncRows, syncRows []Row
				for _, b := range r2.Batches {
					asyncRows = append(asyncRows, b...)
				}
				for _, sr := range res {
					if sr.Row != nil {
						syncRows = append(syncRows, sr.Row)
					}
				}
				if js(asyncRows) != js(syncRows) {
					a.fail("C14|"+q.Name+"|sync-async-differ", fmt.Sprintf("%s rows %v: EmitSync %s ; Emit+sink %s", q.SQL, c14Desc(seq), js(syncRows), js(asyncRows)), cs, js(syncRows), js(asyncRows))
				}
			}
			// isolation: the projection onto partition a equals partition a alone
			if q.Part && idx%3 == 0 {
				var only []Row
				var pos []int
				for i, r := range seq {
					if r.K == keys[0] {
						only = append(only, rows[i])
						pos = append(pos, i)
					}
				}
				if len(only) > 0 && len(only) < len(rows) {
					solo, _, _, _ := syncEval(q.SQL, only)
					a.r.Evaluations++
					for j, i := range pos {
						if stripID(js(solo[j].Row)) != stripID(js(res[i].Row)) {
							a.fail("C14|"+q.Name+"|partition-not-isolated", fmt.Sprintf("%s rows %v: row %d of partition a gives %s interleaved, %s alone", q.SQL, c14Desc(seq), i+1, js(res[i].Row), js(solo[j].Row)), cs, js(solo[j].Row), js(res[i].Row))
							break
						}
					}
				}
			}
			if idx == 900 {
				a.sample(map[string]any{"sql": q.SQL, "rows(k:v)": c14Desc(seq), "results": res})
			}
		})
	 }
	}
	return a.result()
}

func stripID(s string) string { return s }

// c14Changed: changed_col(ignoreNull, v) and changed_cols(prefix, ignoreNull, v, w) per partition: a value is
// reported at the rows where it differs from the partition's previous value (the first row counts as a change;
// with ignoreNull a NULL neither reports nor becomes the previous value), otherwise NULL / the column is absent.
func c14Changed(u fw.Unit) fw.Result {
	sp := parseEnum(u)
	a := newAcc("C14", "analytic-changed")
	q1 := "SELECT k, changed_col(true, v) OVER (PARTITION BY k) AS cc, changed_col(false, v) OVER (PARTITION BY k) AS cf FROM stream"
	q2 := "SELECT k, changed_cols(\"c_\", true, v, w) OVER (PARTITION BY k) FROM stream"
	q3 := "SELECT k, had_changed(true, v, w) OVER (PARTITION BY k) AS hc FROM stream"
	vals := []any{1.0, 2.0, nil}
	type st struct {
		has  bool
		prev any
	}
	step := func(s *st, ignoreNull bool, v any) (out any, changed bool) {
		if ignoreNull && v == nil {
			return nil, false
		}
		if !s.has || js(s.prev) != js(v) {
			out, changed = v, true
		}
		s.prev, s.has = v, true
		return out, changed
	}
	idx := 0
	maxL := 5
	if u.Tier == "thorough" {
		maxL = 6
	}
	for L := 1; L <= maxL; L++ {
		sequences(L, 6, func(ix []int) {
			idx++
			if idx%sp.Shards != sp.Shard {
				return
			}
			var rows []Row
			for i, x := range ix {
				rows = append(rows, Row{"k": []string{"a", "b"}[x/3], "v": vals[x%3], "id": i + 1})
			}
			res, execErr, status, _ := syncEval(q1, rows)
			a.r.Evaluations++
			a.r.States++
			a.r.Transitions += int64(len(rows))
			a.r.Nontrivial++
			cs := map[string]any{"sql": q1, "rows": rows}
			if execErr != "" || status != sched.StatusOK {
				a.fail("C14|changed|exec", execErr+" "+status.String(), cs, nil, nil)
				return
			}
			cc, cf := map[string]*st{}, map[string]*st{}
			for i, row := range rows {
				k := row["k"].(string)
				if cc[k] == nil {
					cc[k], cf[k] = &st{}, &st{}
				}
				w1, _ := step(cc[k], true, row["v"])
				w2, _ := step(cf[k], false, row["v"])
				g := res[i].Row
				if g == nil || js(g["cc"]) != js(w1) || js(g["cf"]) != js(w2) {
					a.fail("C14|changed|changed_col-wrong", fmt.Sprintf("%s: row %d gives %s, reference cc=%s cf=%s; rows %s", q1, i+1, js(g), js(w1), js(w2), js(rows)), cs, nil, g)
					return
				}
			}
			a.outcome(js(res))
		})
	}
	// values of types Go cannot compare with == (arrays and objects of a decoded JSON payload), and text
	vals2 := []any{[]any{1.0}, []any{2.0}, map[string]any{"x": 1.0}, "s", nil}
	q1b := "SELECT k, changed_col(true, v) OVER (PARTITION BY k) AS cc, changed_col(false, v) OVER (PARTITION BY k) AS cf, had_changed(true, v) OVER (PARTITION BY k) AS hc FROM stream"
	for L := 1; L <= 4; L++ {
		sequences(L, 2*len(vals2), func(ix []int) {
			idx++
			if idx%sp.Shards != sp.Shard {
				return
			}
			var rows []Row
			for i, x := range ix {
				rows = append(rows, Row{"k": []string{"a", "b"}[x/len(vals2)], "v": copyVal(vals2[x%len(vals2)]), "id": i + 1})
			}
			res, execErr, status, _ := syncEval(q1b, rows)
			a.r.Evaluations++
			a.r.States++
			a.r.Transitions += int64(len(rows))
			a.r.Nontrivial++
			cs := map[string]any{"sql": q1b, "rows": rows}
			if execErr != "" || status != sched.StatusOK {
				a.fail("C14|changed|exec", execErr+" "+status.String(), cs, nil, nil)
				return
			}
			cc, cf, ch := map[string]*st{}, map[string]*st{}, map[string]*st{}
			for i, row := range rows {
				k := row["k"].(string)
				if cc[k] == nil {
					cc[k], cf[k], ch[k] = &st{}, &st{}, &st{}
				}
				w1, _ := step(cc[k], true, row["v"])
				w2, _ := step(cf[k], false, row["v"])
				hcOpen := row["v"] == nil && !ch[k].has // a NULL before the partition's first usable value: change or not is left open
				_, w3 := step(ch[k], true, row["v"])
				g := res[i].Row
				if g == nil || js(g["cc"]) != js(w1) || js(g["cf"]) != js(w2) || !hcOpen && js(g["hc"]) != js(w3) {
					a.fail("C14|changed|container-values", fmt.Sprintf("%s: row %d gives %s, reference cc=%s cf=%s hc=%v; rows %s", q1b, i+1, js(g), js(w1), js(w2), w3, js(rows)), cs, nil, g)
					return
				}
			}
		})
	}
	for L := 1; L <= 4; L++ {
		sequences(L, 12, func(ix []int) {
			idx++
			if idx%sp.Shards != sp.Shard {
				return
			}
			var rows []Row
			for i, x := range ix {
				rows = append(rows, Row{"k": []string{"a", "b"}[x/6], "w": float64(1 + (x/3)%2), "v": vals[x%3], "id": i + 1})
			}
			// had_changed over two columns on the same rows: true iff any column differs from the partition's
			// previous value of that column (every column's previous value is updated on every row)
			if res3, e3, st3, _ := syncEval(q3, rows); e3 != "" || st3 != sched.StatusOK {
				a.fail("C14|changed|exec", e3+" "+st3.String(), map[string]any{"sql": q3}, nil, nil)
			} else {
				hv, hw := map[string]*st{}, map[string]*st{}
				for i, row := range rows {
					k := row["k"].(string)
					if hv[k] == nil {
						hv[k], hw[k] = &st{}, &st{}
					}
					_, c1 := step(hv[k], true, row["v"])
					_, c2 := step(hw[k], true, row["w"])
					g := res3[i].Row
					b, okb := truthy(g["hc"])
					if g == nil || !okb || b != (c1 || c2) {
						a.fail("C14|changed|had_changed-two-columns", fmt.Sprintf("%s: row %d gives %s, reference hc=%v; rows %s", q3, i+1, js(g), c1 || c2, js(rows)), map[string]any{"sql": q3, "rows": rows}, c1 || c2, g)
						break
					}
				}
			}
			// had_changed(<ignoreNull>, *): the whole row against the partition's previous row (rows without the id
			// column; k and w are never NULL, so the first row of a partition is a change)
			var starRows []Row
			for _, r := range rows {
				starRows = append(starRows, Row{"k": r["k"], "w": r["w"], "v": r["v"]})
			}
			for _, ign := range []bool{false, true} {
				for _, q := range []string{
					fmt.Sprintf("SELECT k, had_changed(%v, *) OVER (PARTITION BY k) AS hc FROM stream", ign),
					fmt.Sprintf("SELECT k, had_changed(%v, *) OVER (PARTITION BY k) AS hc, acc_count(w) OVER (PARTITION BY k) AS n FROM stream", ign),
				} {
					resS, eS, stS, _ := syncEval(q, starRows)
					if eS != "" || stS != sched.StatusOK {
						a.fail("C14|changed|exec", eS+" "+stS.String(), map[string]any{"sql": q}, nil, nil)
						continue
					}
					hv, hw := map[string]*st{}, map[string]*st{}
					for i, row := range starRows {
						k := row["k"].(string)
						if hv[k] == nil {
							hv[k], hw[k] = &st{}, &st{}
						}
						_, c1 := step(hv[k], ign, row["v"])
						_, c2 := step(hw[k], ign, row["w"])
						g := resS[i].Row
						b, okb := truthy(g["hc"])
						if g == nil || !okb || b != (c1 || c2) {
							a.fail("C14|changed|had_changed-star", fmt.Sprintf("%s: row %d gives %s, reference hc=%v; rows %s", q, i+1, js(g), c1 || c2, js(starRows)), map[string]any{"sql": q, "rows": starRows}, c1 || c2, g)
							break
						}
					}
				}
			}
			res, execErr, status, _ := syncEval(q2, rows)
			a.r.Evaluations++
			a.r.States++
			a.r.Transitions += int64(len(rows))
			a.r.Nontrivial++
			cs := map[string]any{"sql": q2, "rows": rows}
			if execErr != "" || status != sched.StatusOK {
				a.fail("C14|changed|exec", execErr+" "+status.String(), cs, nil, nil)
				return
			}
			sv, sw := map[string]*st{}, map[string]*st{}
			for i, row := range rows {
				k := row["k"].(string)
				if sv[k] == nil {
					sv[k], sw[k] = &st{}, &st{}
				}
				want := Row{"k": k}
				if o, ch := step(sv[k], true, row["v"]); ch {
					want["c_v"] = o
				}
				if o, ch := step(sw[k], true, row["w"]); ch {
					want["c_w"] = o
				}
				g := res[i].Row
				if g == nil || js(g) != js(want) {
					a.fail("C14|changed|changed_cols-wrong", fmt.Sprintf("%s: row %d gives %s, reference %s; rows %s", q2, i+1, js(g), js(want), js(rows)), cs, want, g)
					return
				}
			}
			a.outcome(js(res))
		})
	}
	// a wrapper over two analytic calls on different columns, fed sparse rows (either column may be absent):
	// every call sees its own column (absent = NULL)
	q4 := "SELECT k, (acc_count(v) - acc_count(w)) OVER (PARTITION BY k) AS lead, (acc_sum(v) + acc_sum(w)) OVER (PARTITION BY k) AS tot FROM stream"
	for L := 1; L <= 4; L++ {
		sequences(L, 8, func(ix []int) {
			idx++
			if idx%sp.Shards != sp.Shard {
				return
			}
			var rows []Row
			for i, x := range ix {
				row := Row{"k": []string{"a", "b"}[x/4], "id": i + 1}
				if (x/2)%2 == 0 {
					row["v"] = 2.0
				}
				if x%2 == 0 {
					row["w"] = 3.0
				}
				rows = append(rows, row)
			}
			res, execErr, status, _ := syncEval(q4, rows)
			a.r.Evaluations++
			a.r.States++
			a.r.Transitions += int64(len(rows))
			a.r.Nontrivial++
			cs := map[string]any{"sql": q4, "rows": rows}
			if execErr != "" || status != sched.StatusOK {
				a.fail("C14|changed|exec", execErr+" "+status.String(), cs, nil, nil)
				return
			}
			cv, cw := map[string]float64{}, map[string]float64{}
			for i, row := range rows {
				k := row["k"].(string)
				if _, ok := row["v"]; ok {
					cv[k]++
				}
				if _, ok := row["w"]; ok {
					cw[k]++
				}
				g := res[i].Row
				lead, ok1 := num(g["lead"])
				tot, ok2 := num(g["tot"])
				if g == nil || !ok1 || lead != cv[k]-cw[k] || !ok2 || tot != 2*cv[k]+3*cw[k] {
					a.fail("C14|wrapper-two-calls", fmt.Sprintf("%s: row %d gives %s, reference lead=%v tot=%v; rows %s", q4, i+1, js(g), cv[k]-cw[k], 2*cv[k]+3*cw[k], js(rows)), cs, nil, g)
					return
				}
			}
		})
	}
	// a wrapper whose first call is NULL on some rows (lag on a partition's first rows) while a later call is
	// cumulative: the cumulative call must consume every row, also those on which the wrapper's value is NULL
	q5 := "SELECT k, (lag(v) - acc_avg(v)) OVER (PARTITION BY k) AS d1, (lag(v, 2) + acc_count(v)) OVER (PARTITION BY k) AS d2, (lag(v) * 0 + acc_sum(v) - acc_min(v)) OVER (PARTITION BY k) AS d3, (lag(vLoad) - acc_avg(vLoad)) OVER (PARTITION BY devId) AS d4 FROM stream"
	for L := 1; L <= 5; L++ {
		sequences(L, 6, func(ix []int) {
			idx++
			if idx%sp.Shards != sp.Shard {
				return
			}
			var rows []Row
			for i, x := range ix {
				// vLoad / devId: the same value and key under names with upper-case letters
				rows = append(rows, Row{"k": []string{"a", "b"}[x/3], "devId": []string{"a", "b"}[x/3], "id": i + 1, "v": []float64{1, 2, 4}[x%3], "vLoad": []float64{1, 2, 4}[x%3]})
			}
			res, execErr, status, _ := syncEval(q5, rows)
			a.r.Evaluations++
			a.r.States++
			a.r.Transitions += int64(len(rows))
			a.r.Nontrivial++
			cs := map[string]any{"sql": q5, "rows": rows}
			if execErr != "" || status != sched.StatusOK {
				a.fail("C14|changed|exec", execErr+" "+status.String(), cs, nil, nil)
				return
			}
			hist := map[string][]float64{}
			for i, row := range rows {
				k := row["k"].(string)
				h := append(hist[k], row["v"].(float64))
				hist[k] = h
				n := len(h)
				sum, mn := 0.0, h[0]
				for _, x := range h {
					sum += x
					if x < mn {
						mn = x
					}
				}
				var w1, w2, w3 any
				if n >= 2 {
					w1 = h[n-2] - sum/float64(n)
					w3 = sum - mn
				}
				if n >= 3 {
					w2 = h[n-3] + float64(n)
				}
				g := res[i].Row
				same := func(got any, want any) bool {
					if want == nil {
						return got == nil
					}
					x, ok := num(got)
					return ok && math.Abs(x-want.(float64)) < 1e-9
				}
				if g == nil || !same(g["d1"], w1) || !same(g["d2"], w2) || !same(g["d3"], w3) || !same(g["d4"], w1) {
					a.fail("C14|wrapper-null-first-call", fmt.Sprintf("%s: row %d gives %s, reference d1=%v d2=%v d3=%v; rows %s", q5, i+1, js(g), w1, w2, w3, js(rows)), cs, []any{w1, w2, w3}, g)
					return
				}
			}
		})
	}
	a.sample(map[string]any{"queries": []string{q1, q2, q3, q4, q5}})
	return a.result()
}

// c14Typed: the value column as every Go numeric type: lag / latest / had_changed / acc_* must not depend on
// the Go type of a number (all sequences of length 3 over 12 typed values and NULL, one partition).
func c14Typed() fw.Result {
	a := newAcc("C14", "analytic-typed")
	qs := c14Queries()[:3] // lag-latest, acc, had-changed
	for _, q := range qs {
		sequences(3, len(c03Typed), func(ix []int) {
			var rows []Row
			var seq []c14In
			for i, x := range ix {
				row := Row{"k": "a", "id": i + 1}
				c03Typed[x].Set(row, "v")
				rows = append(rows, row)
				in := c14In{K: "a"}
				if c03Typed[x].Ref.Usable() {
					in.V = fp(c03Typed[x].Ref.F)
				}
				seq = append(seq, in)
			}
			want := c14Reference(q, seq)
			res, execErr, st, _ := syncEval(q.SQL, rows)
			a.r.Evaluations++
			a.r.States++
			a.r.Transitions += 3
			a.r.Nontrivial++
			cs := map[string]any{"sql": q.SQL, "rows": rows}
			if execErr != "" || st != sched.StatusOK {
				a.fail("C14|typed|exec", execErr+" "+st.String(), cs, nil, nil)
				return
			}
			for i := range rows {
				if col, what := c14Compare(q, want[i], res[i].Row); col != "" {
					var names []string
					for _, x := range ix {
						names = append(names, c03Typed[x].Name)
					}
					a.fail("C14|typed|"+q.Name+"|"+col, fmt.Sprintf("%s over v=%v: row %d: %s", q.SQL, names, i+1, what), cs, nil, res[i].Row)
					return
				}
			}
		})
	}
	a.sample(map[string]any{"types": "int, int8..int64, uint..uint64, float32, float64, NULL", "max_len": 3})
	return a.result()
}

// c14KeyPairs: pairwise collision search over partition key tuples - two distinct tuples are two partitions
// whatever characters or types the values have (fed as t1,t2,t1,t2; acc_count must read 1,1,2,2).
func c14KeyPairs() fw.Result {
	a := newAcc("C14", "analytic-key-pairs")
	one := []any{"", "|", "a", "1", "true", "nil|", "string|a", "a|1:a", 1, 2, 1.5, true, false, nil, 16777216.0, 16777217.0, int64(9007199254740993), int64(9007199254740992)}
	two := []any{"", "|", "a", "a|1:a", "1:a|", 1, nil, true}
	type cfgT struct {
		sql    string
		tuples [][]any
	}
	var t1, t2 [][]any
	for _, x := range one {
		t1 = append(t1, []any{x})
	}
	for _, x := range two {
		for _, y := range two {
			t2 = append(t2, []any{x, y})
		}
	}
	// plus the text tuples that collide under any "join the components with a middle" encoding (each only against its partner)
	nT2 := len(t2)
	for _, pr := range collisionPairs() {
		t2 = append(t2, []any{pr[0][0], pr[0][1]}, []any{pr[1][0], pr[1][1]})
	}
	for ci, c := range []cfgT{{"SELECT acc_count(v) OVER (PARTITION BY a) AS c FROM stream", t1}, {"SELECT acc_count(v) OVER (PARTITION BY a, b) AS c FROM stream", t2}} {
		for i := 0; i < len(c.tuples); i++ {
			for j := i + 1; j < len(c.tuples); j++ {
				if ci == 1 && j >= nT2 && !(i == j-1 && (j-nT2)%2 == 1) {
					continue
				}
				var rows []Row
				for n := 0; n < 4; n++ {
					t := c.tuples[[]int{i, j}[n%2]]
					row := Row{"v": 1, "id": n + 1, "a": t[0]}
					if len(t) > 1 {
						row["b"] = t[1]
					}
					rows = append(rows, row)
				}
				res, execErr, st, _ := syncEval(c.sql, rows)
				a.r.Evaluations++
				a.r.States++
				a.r.Transitions += 4
				a.r.Nontrivial++
				cs := map[string]any{"sql": c.sql, "rows": rows}
				if execErr != "" || st != sched.StatusOK {
					a.fail("C14|key-pairs|exec", execErr+" "+st.String(), cs, nil, nil)
					continue
				}
				var got []string
				for _, r := range res {
					if r.Row == nil {
						got = append(got, "-")
					} else {
						got = append(got, js(r.Row["c"]))
					}
				}
				a.outcome(strings.Join(got, ","))
				if strings.Join(got, ",") != "1,1,2,2" {
					a.fail(fmt.Sprintf("C14|key-pairs|partitions-merged|cols=%d", len(c.tuples[i])), fmt.Sprintf("%s: partition keys %s and %s fed alternately give acc_count %v, reference [1 1 2 2]", c.sql, js(c.tuples[i]), js(c.tuples[j]), got), cs, "1,1,2,2", got)
				}
			}
		}
	}
	// a dotted PARTITION BY key (nested field) while the row also carries a top-level column named like the
	// key's last segment with other values (a flat column named like the whole dotted text would legitimately win): the nested field decides
	for _, sql := range []string{"SELECT acc_count(v) OVER (PARTITION BY d.id) AS c FROM stream", "SELECT acc_count(v) OVER (PARTITION BY d.id, k) AS c FROM stream"} {
		for _, shadow := range [][]any{{7, 7, 8, 8}, {1, 1, 1, 1}, {2, 1, 2, 1}} {
			var rows []Row
			for n := 0; n < 4; n++ {
				rows = append(rows, Row{"v": 1, "k": "x", "d": map[string]any{"id": 1 + n%2}, "id": shadow[n]})
			}
			res, execErr, st, _ := syncEval(sql, rows)
			a.r.Evaluations++
			a.r.States++
			a.r.Nontrivial++
			cs := map[string]any{"sql": sql, "rows": rows}
			if execErr != "" || st != sched.StatusOK {
				a.fail("C14|key-pairs|exec", execErr+" "+st.String(), cs, nil, nil)
				continue
			}
			var got []string
			for _, r := range res {
				if r.Row == nil {
					got = append(got, "-")
				} else {
					got = append(got, js(r.Row["c"]))
				}
			}
			if strings.Join(got, ",") != "1,1,2,2" {
				a.fail("C14|key-pairs|nested-key-shadowed", fmt.Sprintf("%s: rows with d.id = 1,2,1,2 give acc_count %v, reference [1 1 2 2]; rows %s", sql, got, js(rows)), cs, "1,1,2,2", got)
			}
		}
	}
	a.sample(map[string]any{"one_column_values": fmt.Sprint(one), "two_column_values": fmt.Sprint(two)})
	return a.result()
}

// c14WhenGate: WHEN on a separate gate column (sharded).
func c14WhenGate(u fw.Unit) fw.Result {
	sp := parseEnum(u)
	a := newAcc("C14", "analytic-when-gate")
	idx := 0
	// WHEN on a separate gate column with NULL-capable values and a wrapper expression: (1) rows passing WHEN see
	// exactly what they see without the failing rows, (2) a row failing WHEN repeats the partition's previous
	// outputs (NULL before the first passing row) - including a previous output that was NULL
	sqlGate := "SELECT k, v - lag(v) OVER (PARTITION BY k WHEN g > 0) AS d, acc_sum(v) OVER (PARTITION BY k WHEN g > 0) AS s, latest(v) OVER (PARTITION BY k WHEN g > 0) AS lt FROM stream"
	gateVals := []any{1.0, 2.0, nil}
	for L := 1; L <= 4; L++ {
		sequences(L, 12, func(ix []int) {
			idx++
			if idx%sp.Shards != sp.Shard {
				return
			}
			var rows, passing []Row
			var passIdx []int
			for i, x := range ix {
				row := Row{"k": []string{"a", "b"}[x/6], "g": (x / 3) % 2, "v": gateVals[x%3], "id": i + 1}
				rows = append(rows, row)
				if row["g"] == 1 {
					passing = append(passing, row)
					passIdx = append(passIdx, i)
				}
			}
			res, execErr, st, _ := syncEval(sqlGate, rows)
			a.r.Evaluations++
			a.r.States++
			a.r.Transitions += int64(len(rows))
			cs := map[string]any{"sql": sqlGate, "rows": rows}
			if execErr != "" || st != sched.StatusOK {
				a.fail("C14|when|exec", execErr+" "+st.String(), cs, nil, nil)
				return
			}
			if len(passing) == 0 || len(passing) == len(rows) {
				return
			}
			a.r.Nontrivial++
			solo, _, _, _ := syncEval(sqlGate, passing)
			cols := []string{"d", "s", "lt"}
			for j, i := range passIdx {
				g, w := res[i].Row, solo[j].Row
				for _, c := range cols {
					if g == nil || w == nil || js(g[c]) != js(w[c]) {
						a.fail("C14|when|gated-rows-influence-state", fmt.Sprintf("%s: row %d (passes WHEN) gives %s with the non-passing rows present, %s without them; rows %s", sqlGate, i+1, js(g), js(w), js(rows)), cs, js(w), js(g))
						return
					}
				}
			}
			last := map[string]Row{}
			for i, row := range rows {
				k := row["k"].(string)
				g := res[i].Row
				if g == nil {
					a.fail("C14|when|row-missing", fmt.Sprintf("%s: row %d produced no result; rows %s", sqlGate, i+1, js(rows)), cs, nil, nil)
					return
				}
				if row["g"] == 0 {
					for _, c := range cols {
						var want any
						if prev, ok := last[k]; ok {
							want = prev[c]
						}
						if js(g[c]) != js(want) {
							a.fail("C14|when|failing-row-does-not-repeat-last-result|col="+c, fmt.Sprintf("%s: row %d fails WHEN and gives %s=%s, the partition's previous result is %s; rows %s", sqlGate, i+1, c, js(g[c]), js(want), js(rows)), cs, js(want), js(g[c]))
							return
						}
					}
				}
				last[k] = g
			}
		})
	}
	a.sample(map[string]any{"when_sql": sqlGate, "alphabet": "k in a|b x g in 0|1 x v in 1|2|NULL", "max_len": 4})
	return a.result()
}

// c14WhenCap: WHEN gating (metamorphic: rows failing WHEN do not influence the values at rows
// passing it) and the partition cap (above the cap only totality is asserted).
func c14WhenCap(u fw.Unit) fw.Result {
	a := newAcc("C14", "analytic-when-cap")
	sqlWhen := "SELECT k, v, acc_sum(v) OVER (PARTITION BY k WHEN v > 1) AS s, lag(v) OVER (PARTITION BY k WHEN v > 1) AS p FROM stream"
	nsym := 2 * 3
	vals := []float64{1, 2, 3}
	for L := 1; L <= 5; L++ {
		sequences(L, nsym, func(ix []int) {
			var rows, passing []Row
			var passIdx []int
			for i, x := range ix {
				k := []string{"a", "b"}[x/3]
				v := vals[x%3]
				row := Row{"k": k, "v": v, "id": i + 1}
				rows = append(rows, row)
				if v > 1 {
					passing = append(passing, row)
					passIdx = append(passIdx, i)
				}
			}
			res, execErr, st, _ := syncEval(sqlWhen, rows)
			a.r.Evaluations++
			a.r.States++
			a.r.Transitions += int64(len(rows))
			if execErr != "" || st != sched.StatusOK {
				a.fail("C14|when|exec", execErr+" "+st.String(), map[string]any{"sql": sqlWhen}, nil, nil)
				return
			}
			if len(passing) == 0 || len(passing) == len(rows) {
				return
			}
			a.r.Nontrivial++
			solo, _, _, _ := syncEval(sqlWhen, passing)
			for j, i := range passIdx {
				g, w := res[i].Row, solo[j].Row
				if g == nil || w == nil || js(g["s"]) != js(w["s"]) || js(g["p"]) != js(w["p"]) {
					a.fail("C14|when|gated-rows-influence-state", fmt.Sprintf("%s: row %d (passes WHEN) gives %s with the non-passing rows present, %s without them; rows %s", sqlWhen, i+1, js(g), js(w), js(rows)), map[string]any{"sql": sqlWhen, "rows": rows}, js(w), js(g))
					return
				}
			}
		})
	}
	// partition cap 2 with three partitions: within the cap exact, above it only "no panic / no abort"
	sqlCap := "SELECT k, acc_sum(v) OVER (PARTITION BY k) AS s FROM stream"
	sequences(5, 3, func(ix []int) {
		var rows []Row
		distinct := map[int]bool{}
		for i, x := range ix {
			rows = append(rows, Row{"k": []string{"a", "b", "c"}[x], "v": 1.0, "id": i + 1})
			distinct[x] = true
		}
		res, execErr, st, pv := syncEval(sqlCap, rows, streamsql.WithAnalyticMaxPartitions(2))
		a.r.Evaluations++
		a.r.States++
		if execErr != "" || st != sched.StatusOK {
			a.fail("C14|cap|abort", execErr+" "+st.String()+" "+firstLine(pv), map[string]any{"sql": sqlCap, "rows": rows}, nil, nil)
			return
		}
		for _, sr := range res {
			if strings.HasPrefix(sr.Err, "PANIC") {
				a.fail("C14|cap|panic", sr.Err, map[string]any{"sql": sqlCap, "rows": rows}, nil, nil)
				return
			}
		}
		if len(distinct) <= 2 {
			a.r.Nontrivial++
			cnt := map[string]float64{}
			for i, r := range rows {
				k := r["k"].(string)
				cnt[k]++
				if f, ok := num(res[i].Row["s"]); !ok || f != cnt[k] {
					a.fail("C14|cap|within-cap-wrong", fmt.Sprintf("within the cap: row %d gives %s, reference s=%v", i+1, js(res[i].Row), cnt[k]), map[string]any{"sql": sqlCap, "rows": rows}, nil, nil)
					return
				}
			}
		}
	})
	// cap 2 with a WHEN gate: only partitions that ever passed the gate hold state; rows failing the gate - of any
	// key - must neither allocate nor evict. Exact while at most two keys have passed.
	sqlCapWhen := "SELECT k, acc_sum(v) OVER (PARTITION BY k WHEN g > 0) AS s FROM stream"
	sequences(5, 6, func(ix []int) {
		var rows []Row
		passed := map[string]bool{}
		for i, x := range ix {
			k := []string{"a", "b", "c"}[x/2]
			rows = append(rows, Row{"k": k, "g": x % 2, "v": 1.0, "id": i + 1})
			if x%2 == 1 {
				passed[k] = true
			}
		}
		if len(passed) > 2 || len(passed) == 0 {
			return
		}
		res, execErr, st, pv := syncEval(sqlCapWhen, rows, streamsql.WithAnalyticMaxPartitions(2))
		a.r.Evaluations++
		a.r.States++
		a.r.Nontrivial++
		if execErr != "" || st != sched.StatusOK {
			a.fail("C14|cap|abort", execErr+" "+st.String()+" "+firstLine(pv), map[string]any{"sql": sqlCapWhen, "rows": rows}, nil, nil)
			return
		}
		cnt := map[string]float64{}
		for i, r := range rows {
			if r["g"] != 1 {
				continue
			}
			k := r["k"].(string)
			cnt[k]++
			if f, ok := num(res[i].Row["s"]); !ok || f != cnt[k] {
				a.fail("C14|cap|when-failing-rows-disturb-live-partitions", fmt.Sprintf("%s with cap 2: row %d (k=%s, passes WHEN) gives %s, reference s=%v; rows %s", sqlCapWhen, i+1, k, js(res[i].Row), cnt[k], js(rows)), map[string]any{"sql": sqlCapWhen, "rows": rows}, cnt[k], res[i].Row)
				return
			}
		}
	})
	a.sample(map[string]any{"when_sql": sqlWhen, "cap_sql": sqlCap, "cap_when_sql": sqlCapWhen, "cap": 2})
	return a.result()
}

func (c14) Describe(tier string) fw.Description {
	return fw.Description{
		Level: "model_checking",
		Rule: "6 queries (lag with offsets/defaults + latest; acc_sum/count/avg and acc_max-acc_min; had_changed; v - lag(v) with a non-analytic WHERE; unpartitioned lag/acc/latest; WHERE had_changed(...) with acc_count) x all row sequences of length 1..L over 3 partition keys (strings; and float64 keys differing only beyond float32 precision) x v in {1,2,NULL,missing}, through EmitSync on the real engine against per-partition reference state machines; every 5th sequence also through Emit + sync sink (sync == async), every 3rd also with partition a alone (isolation); changed_col(true|false, v) and changed_cols('c_', true, v, w) per partition over all sequences of length <= 5 / 4 over 2 keys x v in {1,2,NULL} (x w in {1,2}); WHEN gating checked over all sequences of length <= 5 over 2 keys x 3 values and of length <= 4 over 2 keys x gate 0|1 x v in {1,2,NULL} with a wrapper expression (values at rows passing WHEN must not depend on rows failing it; a row failing WHEN repeats the partition's previous outputs, NULL included); pairwise collision search over typed partition key tuples (1 and 2 columns: separator-like strings, type-name-like strings, numbers beyond float32/2^53, bools, NULL); partition cap 2 over all 3-key sequences of length 5 (exact within the cap, totality above; also with a WHEN gate); start/reset arguments of acc_* with overlapping predicates; lag with ignoreNull=false; container-valued columns; wrappers over two analytic calls; an analytic call in WHERE with PARTITION BY and WHEN; non-trivial = the reference defines at least one output",
		Bounds:      map[string]any{"max_len": map[string]int{"quick": 4, "thorough": 5}, "keys": 3, "values": []string{"1", "2", "NULL", "missing"}},
		Assumptions: []string{"definitions of lag/latest/had_changed/acc_* taken from the documentation comments of functions/functions_analytical.go and functions/analytic_acc.go (the online analytic docs are not in the repository)", "a first row with NULL under had_changed(true, v) may count as a change or not"},
	}
}

func init() { fw.Register(c14{}) }
