// Package explore is the stateless, deviation-bounded depth-first explorer over the choice
// points recorded by verifrt/sched (preemptions, early timer firings, select-case choices).
package explore

import (
	"fmt"

	"github.com/rulego/streamsql/verifrt/sched"
)

// Failure is what a scenario's oracle reports for one execution.
type Failure struct {
	Signature string
	What      string
	Expected  any
	Observed  any
}

// RunFunc performs one execution under the given chooser and returns the scheduler result, a
// canonical string of the observations (for counting distinct outcomes / determinism checks)
// and the oracle's verdict.
type RunFunc func(ch sched.Chooser, local map[int]bool) (*sched.Result, string, *Failure)

type Item struct {
	C []uint16 `json:"c"`
}

type Options struct {
	Bound      int   // maximum number of deviations
	ForcedCost int   // cost of a non-default choice where the running thread is not enabled
	SelectCost int   // cost of a non-default ready case of a select
	MaxExec    int64 // execution budget of this call; what is left is returned as leftover
	NoReduce   bool  // disable the single-accessor object reduction
	// Visited, when non-nil, enables happens-before state caching: a choice point whose state
	// hash was already expanded with at least the same remaining budget is not expanded again.
	Visited map[uint64]int8
}

type Found struct {
	Failure    Failure
	Choices    []uint16
	Reproduced int
	Status     string
}

type Stats struct {
	Execs       int64
	Steps       int64
	Points      int64
	MaxPoints   int
	Diverged    int64
	Flaky       int64
	Outcomes    map[string]int64
	Status      map[string]int64
	Nontrivial  int64 // executions reached through at least one deviation
	Pruned      int64 // choice points not expanded because their state was already expanded
	Expanded    int64 // choice points expanded (distinct (state, budget) pairs)
}

func cost(p sched.PointRec, alt int, o *Options) int {
	if alt == 0 {
		return 0
	}
	if p.Flags&sched.FSelect != 0 {
		return o.SelectCost
	}
	if p.Flags&sched.FRunningEnabled != 0 {
		return 1
	}
	if p.Flags&sched.FClockLast != 0 && alt == int(p.N)-1 {
		return 1
	}
	return o.ForcedCost
}

func chooserFor(prefix []uint16) sched.Chooser {
	return func(idx int, p sched.PointRec) int {
		if idx < len(prefix) {
			c := int(prefix[idx])
			if c >= int(p.N) {
				return -1
			}
			return c
		}
		return 0
	}
}

// Explore runs the DFS from the given items (an empty-choice item is the root).
func Explore(run RunFunc, items []Item, opt Options, local map[int]bool) (st Stats, leftover []Item, found []Found) {
	st.Outcomes = map[string]int64{}
	st.Status = map[string]int64{}
	stack := append([]Item(nil), items...)
	seenSig := map[string]bool{}
	for len(stack) > 0 {
		if opt.MaxExec > 0 && st.Execs >= opt.MaxExec {
			break
		}
		it := stack[len(stack)-1]
		stack = stack[:len(stack)-1]
		res, out, fail := run(chooserFor(it.C), local)
		st.Execs++
		st.Steps += int64(res.Steps)
		st.Points += int64(len(res.Points))
		if len(res.Points) > st.MaxPoints {
			st.MaxPoints = len(res.Points)
		}
		st.Status[res.Status.String()]++
		if res.Status == sched.StatusDiverged {
			st.Diverged++
			continue
		}
		if len(res.Points) < len(it.C) {
			st.Diverged++
			continue
		}
		if len(it.C) > 0 {
			st.Nontrivial++
		}
		st.Outcomes[out]++
		if fail != nil && !seenSig[fail.Signature] {
			// believe a failure only if the same choices reproduce it
			rep := 1
			for k := 0; k < 4; k++ {
				_, out2, fail2 := run(chooserFor(it.C), local)
				if fail2 != nil && fail2.Signature == fail.Signature && out2 == out {
					rep++
				}
			}
			if rep == 5 {
				seenSig[fail.Signature] = true
				found = append(found, Found{Failure: *fail, Choices: append([]uint16(nil), it.C...), Reproduced: rep, Status: res.Status.String()})
			} else {
				st.Flaky++
			}
		}
		used := 0
		for i, p := range res.Points {
			if i < len(it.C) {
				used += cost(p, int(p.Chosen), &opt)
				continue
			}
			if opt.Visited != nil {
				rem := int8(opt.Bound - used)
				if v, ok := opt.Visited[p.State]; ok && v >= rem {
					st.Pruned++
					continue
				}
				opt.Visited[p.State] = rem
			}
			st.Expanded++
			for alt := int(p.N) - 1; alt >= 1; alt-- {
				if used+cost(p, alt, &opt) > opt.Bound {
					continue
				}
				c := make([]uint16, i+1)
				for j := 0; j < i; j++ {
					c[j] = res.Points[j].Chosen
				}
				c[i] = uint16(alt)
				stack = append(stack, Item{C: c})
			}
		}
	}
	return st, stack, found
}

func (s Stats) String() string {
	return fmt.Sprintf("execs=%d steps=%d maxpoints=%d outcomes=%d status=%v diverged=%d flaky=%d", s.Execs, s.Steps, s.MaxPoints, len(s.Outcomes), s.Status, s.Diverged, s.Flaky)
}
