// Package selftest checks the model checker itself: the cooperative scheduler and the shims
// against the semantics of the real primitives, and the explorer (bounds, state cache,
// determinism). Run by bin/selftest through `go test -overlay`.
package selftest

import (
	"context"
	"fmt"
	"sort"
	"strings"
	"testing"

	"verifharness/explore"

	"github.com/rulego/streamsql/verifrt/atomic"
	"github.com/rulego/streamsql/verifrt/sched"
	vsync "github.com/rulego/streamsql/verifrt/sync"
	vtime "github.com/rulego/streamsql/verifrt/time"
)

// exploreAll runs body under every schedule with <= bound deviations and returns the set of outcomes.
func exploreAll(bound int, cache bool, body func(out *[]string)) (outcomes map[string]int, statuses map[string]int, execs int64) {
	run := func(ch sched.Chooser, _ map[int]bool) (*sched.Result, string, *explore.Failure) {
		var out []string
		res := sched.Run(sched.Config{Chooser: ch, MaxSteps: 20000}, func() { body(&out) })
		return res, strings.Join(out, ",") + "|" + res.Status.String(), nil
	}
	opt := explore.Options{Bound: bound}
	if cache {
		opt.Visited = map[uint64]int8{}
	}
	st, left, _ := explore.Explore(run, []explore.Item{{}}, opt, nil)
	if len(left) != 0 {
		panic("unexpected leftover")
	}
	outcomes = map[string]int{}
	for k, v := range st.Outcomes {
		outcomes[k] = int(v)
	}
	return outcomes, map[string]int{}, st.Execs
}

func keys(m map[string]int) []string {
	var ks []string
	for k := range m {
		ks = append(ks, k)
	}
	sort.Strings(ks)
	return ks
}

func TestLostUpdateNeedsOnePreemption(t *testing.T) {
	body := func(out *[]string) {
		var x int64
		var wg vsync.WaitGroup
		for i := 0; i < 2; i++ {
			wg.Add(1)
			sched.Go(func() {
				defer wg.Done()
				v := atomic.LoadInt64(&x)
				atomic.StoreInt64(&x, v+1)
			})
		}
		wg.Wait()
		*out = append(*out, fmt.Sprint(atomic.LoadInt64(&x)))
	}
	o0, _, _ := exploreAll(0, false, body)
	if len(o0) != 1 || o0["2|ok"] == 0 {
		t.Fatalf("bound 0 must only see x=2, got %v", keys(o0))
	}
	o1, _, _ := exploreAll(1, false, body)
	if o1["1|ok"] == 0 || o1["2|ok"] == 0 {
		t.Fatalf("bound 1 must see the lost update (x=1) and x=2, got %v", keys(o1))
	}
}

func TestLockOrderDeadlockDetected(t *testing.T) {
	body := func(out *[]string) {
		var a, b vsync.Mutex
		var wg vsync.WaitGroup
		wg.Add(2)
		sched.Go(func() { defer wg.Done(); a.Lock(); b.Lock(); b.Unlock(); a.Unlock() })
		sched.Go(func() { defer wg.Done(); b.Lock(); a.Lock(); a.Unlock(); b.Unlock() })
		wg.Wait()
		*out = append(*out, "done")
	}
	o, _, _ := exploreAll(1, false, body)
	if o["|deadlock"] == 0 || o["done|ok"] == 0 {
		t.Fatalf("expected both a deadlock and a clean run, got %v", keys(o))
	}
}

func TestRWMutexWriterPreferenceBlocksRecursiveRead(t *testing.T) {
	// reader holds RLock, a writer announces itself, the reader's second RLock must block (as sync.RWMutex does)
	body := func(out *[]string) {
		var m vsync.RWMutex
		var wg vsync.WaitGroup
		wg.Add(2)
		sched.Go(func() { defer wg.Done(); m.RLock(); sched.Yield(); m.RLock(); m.RUnlock(); m.RUnlock() })
		sched.Go(func() { defer wg.Done(); m.Lock(); m.Unlock() })
		wg.Wait()
		*out = append(*out, "done")
	}
	o, _, _ := exploreAll(2, false, body)
	if o["|deadlock"] == 0 {
		t.Fatalf("recursive RLock with a waiting writer must be able to deadlock, got %v", keys(o))
	}
	if o["done|ok"] == 0 {
		t.Fatalf("a clean schedule must exist, got %v", keys(o))
	}
}

func TestClosedContextChannelIsReady(t *testing.T) {
	body := func(out *[]string) {
		ctx, cancel := context.WithCancel(context.Background())
		done := make(chan string, 1)
		sched.Go(func() {
			switch sched.Select(false, sched.Case{Ch: ctx.Done()}) {
			case 0:
				<-ctx.Done()
				done <- "cancelled"
			}
		})
		cancel()
		*out = append(*out, sched.Recv(done))
	}
	o, _, _ := exploreAll(1, false, body)
	if len(o) != 1 || o["cancelled|ok"] == 0 {
		t.Fatalf("got %v", keys(o))
	}
}

func TestSelectEnumeratesReadyCases(t *testing.T) {
	body := func(out *[]string) {
		a, b := make(chan int, 1), make(chan int, 1)
		a <- 1
		b <- 2
		switch sched.Select(false, sched.Case{Ch: a}, sched.Case{Ch: b}) {
		case 0:
			*out = append(*out, fmt.Sprint(<-a))
		case 1:
			*out = append(*out, fmt.Sprint(<-b))
		}
	}
	o, _, _ := exploreAll(0, false, body) // select-case choices cost nothing
	if o["1|ok"] == 0 || o["2|ok"] == 0 {
		t.Fatalf("both ready cases must be explored at bound 0, got %v", keys(o))
	}
}

func TestVirtualClock(t *testing.T) {
	var elapsed int64
	var ticks int
	res := sched.Run(sched.Config{}, func() {
		tk := vtime.NewTicker(100 * vtime.Millisecond)
		start := vtime.Now()
		vtime.Sleep(350 * vtime.Millisecond)
		elapsed = int64(vtime.Since(start))
		// the ticker channel holds at most one tick (dropped when full), as in Go
		for {
			select {
			case <-tk.C:
				ticks++
				continue
			default:
			}
			break
		}
		tk.Stop()
	})
	if res.Status != sched.StatusOK || elapsed != int64(350*vtime.Millisecond) || ticks != 1 {
		t.Fatalf("status=%v elapsed=%d ticks=%d", res.Status, elapsed, ticks)
	}
}

func TestLongTimerDoesNotFireWhileThreadsRunnable(t *testing.T) {
	// the 5s timer must never win against a runnable worker (bounded clock deviations), the 1ms timer may
	body := func(out *[]string) {
		work := make(chan int, 1)
		sched.Go(func() { atomic.AddInt64(new(int64), 1); work <- 1 })
		switch sched.Select(false, sched.Case{Ch: work}, sched.Case{Ch: vtime.After(5 * vtime.Second)}) {
		case 0:
			<-work
			*out = append(*out, "work")
		case 1:
			*out = append(*out, "timeout")
		}
	}
	o, _, _ := exploreAll(2, false, body)
	if len(o) != 1 || o["work|ok"] == 0 {
		t.Fatalf("got %v", keys(o))
	}
	body2 := func(out *[]string) {
		work := make(chan int, 1)
		sched.Go(func() { atomic.AddInt64(new(int64), 1); work <- 1 })
		switch sched.Select(false, sched.Case{Ch: work}, sched.Case{Ch: vtime.After(vtime.Millisecond)}) {
		case 0:
			<-work
			*out = append(*out, "work")
		case 1:
			*out = append(*out, "timeout")
		}
	}
	o2, _, _ := exploreAll(1, false, body2)
	if o2["work|ok"] == 0 || o2["timeout|ok"] == 0 {
		t.Fatalf("a 1ms timer must be able to land first as a deviation, got %v", keys(o2))
	}
}

func TestStateCachePreservesOutcomes(t *testing.T) {
	body := func(out *[]string) {
		var mu vsync.Mutex
		var log []int
		ch := make(chan int, 2)
		var wg vsync.WaitGroup
		for i := 1; i <= 3; i++ {
			i := i
			wg.Add(1)
			sched.Go(func() {
				defer wg.Done()
				mu.Lock()
				log = append(log, i)
				mu.Unlock()
				if i < 3 {
					ch <- i
				} else {
					log = append(log, 10*sched.Recv(ch))
				}
			})
		}
		wg.Wait()
		*out = append(*out, fmt.Sprint(log))
	}
	for bound := 0; bound <= 2; bound++ {
		full, _, n1 := exploreAll(bound, false, body)
		cached, _, n2 := exploreAll(bound, true, body)
		if strings.Join(keys(full), ";") != strings.Join(keys(cached), ";") {
			t.Fatalf("bound %d: outcome sets differ: full %v cached %v", bound, keys(full), keys(cached))
		}
		if n2 > n1 {
			t.Fatalf("cache must not increase executions (%d > %d)", n2, n1)
		}
		t.Logf("bound %d: %d outcomes, %d executions without / %d with the happens-before cache", bound, len(full), n1, n2)
	}
}

func TestReplayIsDeterministic(t *testing.T) {
	body := func(out *[]string) {
		var x int64
		var wg vsync.WaitGroup
		for i := 0; i < 3; i++ {
			wg.Add(1)
			sched.Go(func() { defer wg.Done(); atomic.AddInt64(&x, 1); sched.Yield(); atomic.AddInt64(&x, 1) })
		}
		wg.Wait()
		*out = append(*out, fmt.Sprint(x))
	}
	choices := []int{1, 0, 2, 1}
	var sigs []string
	for k := 0; k < 3; k++ {
		var out []string
		res := sched.Run(sched.Config{Chooser: func(i int, p sched.PointRec) int {
			if i < len(choices) && choices[i] < int(p.N) {
				return choices[i]
			}
			return 0
		}}, func() { body(&out) })
		s := fmt.Sprint(out, res.Steps, len(res.Points))
		for _, p := range res.Points {
			s += fmt.Sprintf("/%d:%d:%x", p.N, p.Chosen, p.Sig)
		}
		sigs = append(sigs, s)
	}
	if sigs[0] != sigs[1] || sigs[1] != sigs[2] {
		t.Fatalf("the same choice sequence produced different executions:\n%s\n%s\n%s", sigs[0], sigs[1], sigs[2])
	}
}

func TestEscapedPanicIsReported(t *testing.T) {
	res := sched.Run(sched.Config{}, func() {
		var wg vsync.WaitGroup
		wg.Add(1)
		sched.Go(func() { defer wg.Done(); panic("boom") })
		wg.Wait()
	})
	if res.Status != sched.StatusPanic || !strings.Contains(res.PanicVal, "boom") {
		t.Fatalf("status=%v panic=%q", res.Status, res.PanicVal)
	}
}

// A TryRLock can see that a writer holds the lock without blocking on it. With Unlock as a scheduling point one
// preemption (the writer parked before its Unlock) reaches the failing TryRLock; without those points the writer's
// critical section is atomic and the failure is unreachable at any bound.
func TestTryLockSeesHeldLockOnlyWithUnlockPoints(t *testing.T) {
	body := func(out *[]string) {
		var mu vsync.RWMutex
		var wg vsync.WaitGroup
		wg.Add(2)
		sched.Go(func() { defer wg.Done(); mu.Lock(); mu.Unlock() })
		sched.Go(func() {
			defer wg.Done()
			if mu.TryRLock() {
				mu.RUnlock()
				*out = append(*out, "got")
			} else {
				*out = append(*out, "busy")
			}
		})
		wg.Wait()
	}
	defer sched.SetUnlockPoints(false)
	for _, on := range []bool{false, true} {
		sched.SetUnlockPoints(on)
		for bound := 0; bound <= 2; bound++ {
			outs, _, _ := exploreAll(bound, false, body)
			_, busy := outs["busy|ok"]
			want := on && bound >= 1
			if busy != want {
				t.Errorf("unlock points %v, bound %d: failing TryRLock reachable = %v, want %v (outcomes %v)", on, bound, busy, want, keys(outs))
			}
		}
	}
}
