// Package sync is the scheduler-aware replacement of the standard sync package for the
// instrumented module. Inside an execution the lock state is virtual (exactly one managed
// thread runs at a time); outside it the real primitives are used.
package sync

import (
	rsync "sync"

	"github.com/rulego/streamsql/verifrt/sched"
)

type Locker = rsync.Locker
type Map = rsync.Map
type Pool = rsync.Pool

type Mutex struct {
	real rsync.Mutex
	v    sched.MuState
}

func (m *Mutex) Lock() {
	if s := sched.Cur(); s != nil {
		s.MuLock(&m.v)
		return
	}
	m.real.Lock()
}

func (m *Mutex) TryLock() bool {
	if s := sched.Cur(); s != nil {
		return s.MuTryLock(&m.v)
	}
	return m.real.TryLock()
}

func (m *Mutex) Unlock() {
	if s := sched.Cur(); s != nil {
		s.MuUnlock(&m.v)
		return
	}
	m.real.Unlock()
}

type RWMutex struct {
	real rsync.RWMutex
	v    sched.RWState
}

func (m *RWMutex) Lock() {
	if s := sched.Cur(); s != nil {
		s.RWLock(&m.v)
		return
	}
	m.real.Lock()
}

func (m *RWMutex) TryLock() bool {
	if s := sched.Cur(); s != nil {
		return s.RWTryLock(&m.v)
	}
	return m.real.TryLock()
}

func (m *RWMutex) Unlock() {
	if s := sched.Cur(); s != nil {
		s.RWUnlock(&m.v)
		return
	}
	m.real.Unlock()
}

func (m *RWMutex) RLock() {
	if s := sched.Cur(); s != nil {
		s.RWRLock(&m.v)
		return
	}
	m.real.RLock()
}

func (m *RWMutex) TryRLock() bool {
	if s := sched.Cur(); s != nil {
		return s.RWTryRLock(&m.v)
	}
	return m.real.TryRLock()
}

func (m *RWMutex) RUnlock() {
	if s := sched.Cur(); s != nil {
		s.RWRUnlock(&m.v)
		return
	}
	m.real.RUnlock()
}

type rlocker RWMutex

func (r *rlocker) Lock()   { (*RWMutex)(r).RLock() }
func (r *rlocker) Unlock() { (*RWMutex)(r).RUnlock() }

func (m *RWMutex) RLocker() Locker { return (*rlocker)(m) }

type WaitGroup struct {
	real rsync.WaitGroup
	v    sched.WGState
}

func (w *WaitGroup) Add(d int) {
	if s := sched.Cur(); s != nil {
		s.WGAdd(&w.v, d)
		return
	}
	w.real.Add(d)
}

func (w *WaitGroup) Done() { w.Add(-1) }

func (w *WaitGroup) Wait() {
	if s := sched.Cur(); s != nil {
		s.WGWait(&w.v)
		return
	}
	w.real.Wait()
}

type Once struct {
	real rsync.Once
	v    sched.OnceState
}

func (o *Once) Do(f func()) {
	if s := sched.Cur(); s != nil {
		if s.OnceEnter(&o.v) {
			defer s.OnceLeave(&o.v)
			f()
		}
		return
	}
	o.real.Do(f)
}
