// Package time is the virtual-clock replacement of the standard time package for the
// instrumented module. Types and pure functions are re-exported unchanged; Now, Sleep and the
// timer constructors read and drive the scheduler's virtual clock inside an execution.
package time

import (
	rtime "time"

	"github.com/rulego/streamsql/verifrt/sched"
)

type Duration = rtime.Duration
type Time = rtime.Time
type Location = rtime.Location
type Month = rtime.Month
type Weekday = rtime.Weekday
type ParseError = rtime.ParseError

const (
	Nanosecond  = rtime.Nanosecond
	Microsecond = rtime.Microsecond
	Millisecond = rtime.Millisecond
	Second      = rtime.Second
	Minute      = rtime.Minute
	Hour        = rtime.Hour
)

const (
	Layout      = rtime.Layout
	ANSIC       = rtime.ANSIC
	UnixDate    = rtime.UnixDate
	RubyDate    = rtime.RubyDate
	RFC822      = rtime.RFC822
	RFC822Z     = rtime.RFC822Z
	RFC850      = rtime.RFC850
	RFC1123     = rtime.RFC1123
	RFC1123Z    = rtime.RFC1123Z
	RFC3339     = rtime.RFC3339
	RFC3339Nano = rtime.RFC3339Nano
	Kitchen     = rtime.Kitchen
	Stamp       = rtime.Stamp
	StampMilli  = rtime.StampMilli
	StampMicro  = rtime.StampMicro
	StampNano   = rtime.StampNano
	DateTime    = rtime.DateTime
	DateOnly    = rtime.DateOnly
	TimeOnly    = rtime.TimeOnly
)

const (
	January   = rtime.January
	February  = rtime.February
	March     = rtime.March
	April     = rtime.April
	May       = rtime.May
	June      = rtime.June
	July      = rtime.July
	August    = rtime.August
	September = rtime.September
	October   = rtime.October
	November  = rtime.November
	December  = rtime.December
	Sunday    = rtime.Sunday
	Monday    = rtime.Monday
	Tuesday   = rtime.Tuesday
	Wednesday = rtime.Wednesday
	Thursday  = rtime.Thursday
	Friday    = rtime.Friday
	Saturday  = rtime.Saturday
)

var (
	UTC   = rtime.UTC
	Local = rtime.Local
)

func Parse(layout, value string) (Time, error) { return rtime.Parse(layout, value) }
func ParseInLocation(layout, value string, loc *Location) (Time, error) {
	return rtime.ParseInLocation(layout, value, loc)
}
func ParseDuration(s string) (Duration, error)    { return rtime.ParseDuration(s) }
func LoadLocation(name string) (*Location, error) { return rtime.LoadLocation(name) }
func FixedZone(name string, offset int) *Location { return rtime.FixedZone(name, offset) }
func Unix(sec int64, nsec int64) Time             { return rtime.Unix(sec, nsec) }
func UnixMilli(msec int64) Time                   { return rtime.UnixMilli(msec) }
func UnixMicro(usec int64) Time                   { return rtime.UnixMicro(usec) }
func Date(year int, month Month, day, hour, min, sec, nsec int, loc *Location) Time {
	return rtime.Date(year, month, day, hour, min, sec, nsec, loc)
}

func Now() Time {
	if s := sched.Cur(); s != nil {
		return s.Now()
	}
	return rtime.Now()
}

func Since(t Time) Duration { return Now().Sub(t) }
func Until(t Time) Duration { return t.Sub(Now()) }

func Sleep(d Duration) {
	if s := sched.Cur(); s != nil {
		s.Sleep(d)
		return
	}
	rtime.Sleep(d)
}

type Timer struct {
	C  <-chan Time
	vt *sched.VTimer
	rt *rtime.Timer
}

func NewTimer(d Duration) *Timer {
	if s := sched.Cur(); s != nil {
		vt := s.NewTimer(d, 0, nil)
		return &Timer{C: vt.C, vt: vt}
	}
	rt := rtime.NewTimer(d)
	return &Timer{C: rt.C, rt: rt}
}

func AfterFunc(d Duration, f func()) *Timer {
	if s := sched.Cur(); s != nil {
		return &Timer{vt: s.NewTimer(d, 0, f)}
	}
	return &Timer{rt: rtime.AfterFunc(d, f)}
}

func (t *Timer) Stop() bool {
	if t.vt != nil {
		if s := sched.Cur(); s != nil {
			return s.StopTimer(t.vt)
		}
		return false
	}
	return t.rt.Stop()
}

func (t *Timer) Reset(d Duration) bool {
	if t.vt != nil {
		if s := sched.Cur(); s != nil {
			return s.ResetTimer(t.vt, d)
		}
		return false
	}
	return t.rt.Reset(d)
}

func After(d Duration) <-chan Time { return NewTimer(d).C }

type Ticker struct {
	C  <-chan Time
	vt *sched.VTimer
	rt *rtime.Ticker
}

func NewTicker(d Duration) *Ticker {
	if d <= 0 {
		panic("non-positive interval for NewTicker")
	}
	if s := sched.Cur(); s != nil {
		vt := s.NewTimer(d, d, nil)
		return &Ticker{C: vt.C, vt: vt}
	}
	rt := rtime.NewTicker(d)
	return &Ticker{C: rt.C, rt: rt}
}

func Tick(d Duration) <-chan Time {
	if d <= 0 {
		return nil
	}
	return NewTicker(d).C
}

func (t *Ticker) Stop() {
	if t.vt != nil {
		if s := sched.Cur(); s != nil {
			s.StopTimer(t.vt)
		}
		return
	}
	t.rt.Stop()
}

func (t *Ticker) Reset(d Duration) {
	if t.vt != nil {
		panic("verifrt/time: Ticker.Reset on a virtual ticker is not supported")
	}
	t.rt.Reset(d)
}
