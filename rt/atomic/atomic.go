// Package atomic puts a scheduling point in front of every sync/atomic operation.
package atomic

import (
	ratomic "sync/atomic"

	"github.com/rulego/streamsql/verifrt/sched"
)

type Value = ratomic.Value

func AddInt32(p *int32, d int32) int32 { sched.Atomic(p); return ratomic.AddInt32(p, d) }
func AddInt64(p *int64, d int64) int64 { sched.Atomic(p); return ratomic.AddInt64(p, d) }
func AddUint32(p *uint32, d uint32) uint32 {
	sched.Atomic(p)
	return ratomic.AddUint32(p, d)
}
func AddUint64(p *uint64, d uint64) uint64 {
	sched.Atomic(p)
	return ratomic.AddUint64(p, d)
}
func LoadInt32(p *int32) int32          { sched.Atomic(p); return ratomic.LoadInt32(p) }
func LoadInt64(p *int64) int64          { sched.Atomic(p); return ratomic.LoadInt64(p) }
func LoadUint32(p *uint32) uint32       { sched.Atomic(p); return ratomic.LoadUint32(p) }
func LoadUint64(p *uint64) uint64       { sched.Atomic(p); return ratomic.LoadUint64(p) }
func StoreInt32(p *int32, v int32)      { sched.Atomic(p); ratomic.StoreInt32(p, v) }
func StoreInt64(p *int64, v int64)      { sched.Atomic(p); ratomic.StoreInt64(p, v) }
func StoreUint32(p *uint32, v uint32)   { sched.Atomic(p); ratomic.StoreUint32(p, v) }
func StoreUint64(p *uint64, v uint64)   { sched.Atomic(p); ratomic.StoreUint64(p, v) }
func SwapInt32(p *int32, v int32) int32 { sched.Atomic(p); return ratomic.SwapInt32(p, v) }
func SwapInt64(p *int64, v int64) int64 { sched.Atomic(p); return ratomic.SwapInt64(p, v) }
func CompareAndSwapInt32(p *int32, o, n int32) bool {
	sched.Atomic(p)
	return ratomic.CompareAndSwapInt32(p, o, n)
}
func CompareAndSwapInt64(p *int64, o, n int64) bool {
	sched.Atomic(p)
	return ratomic.CompareAndSwapInt64(p, o, n)
}
func CompareAndSwapUint32(p *uint32, o, n uint32) bool {
	sched.Atomic(p)
	return ratomic.CompareAndSwapUint32(p, o, n)
}
func CompareAndSwapUint64(p *uint64, o, n uint64) bool {
	sched.Atomic(p)
	return ratomic.CompareAndSwapUint64(p, o, n)
}
