// Package sched is the controlled cooperative scheduler used by the /verif model
// checker. It is mapped by a build overlay into the module under test as
// github.com/rulego/streamsql/verifrt/sched; the instrumenter (cmd/vinstr) rewrites every
// go statement, channel operation and select of the module into calls to this package and
// swaps the sync, sync/atomic and time imports for the shims next to it.
//
// Inside an execution (Run) exactly one managed thread runs at a time. Before every hooked
// operation the running thread reaches a scheduling point; the Chooser of the execution
// decides which enabled thread (or the virtual clock) goes next and which ready case a
// select takes. Outside an execution the shims fall through to the real primitives.
package sched

import (
	"container/heap"
	"fmt"
	"os"
	"reflect"
	"runtime"
	"sort"
	"strings"
	"time"
)

// unlockPoints: every Unlock / RUnlock is a scheduling point of its own. Off by default: a critical section
// without a hooked operation inside is atomic for every other thread, because the only way to see that a lock is
// held is to block on it. TryLock / TryRLock can see it without blocking, so bin/check switches this on (for the
// whole run, hence deterministically) when the instrumented tree calls one of them.
var unlockPoints = os.Getenv("VERIF_UNLOCK_POINTS") == "1"

// SetUnlockPoints switches the Unlock scheduling points on or off (self-tests only; call outside executions).
func SetUnlockPoints(on bool) { unlockPoints = on }

// Status is the way an execution ended.
type Status int

const (
	StatusOK       Status = iota // thread 0 returned and everything else finished or is blocked
	StatusDeadlock               // thread 0 has not returned and nothing is enabled
	StatusCapHit                 // step cap reached (livelock or too long a script)
	StatusPanic                  // a panic escaped a managed thread (would crash the process)
	StatusDiverged               // the chooser reported a replay divergence
)

func (s Status) String() string {
	return [...]string{"ok", "deadlock", "cap_hit", "panic", "diverged"}[s]
}

// Kind of a hooked operation.
type Kind uint8

const (
	KStart Kind = iota
	KGo
	KLock
	KLockAcq // second phase of a contended RWMutex.Lock (writer announced)
	KRLock
	KUnlock
	KWGAdd
	KWGWait
	KAtomic
	KSend
	KRecv
	KSelect
	KClose
	KYield
	KIdle
	KOnce
	KCondWait
)

var kindNames = [...]string{"start", "go", "lock", "lockacq", "rlock", "unlock", "wgadd", "wgwait", "atomic", "send", "recv", "select", "close", "yield", "idle", "once", "condwait"}

func (k Kind) String() string { return kindNames[k] }

// Flags of a recorded choice point.
const (
	FRunningEnabled = 1 << iota // option 0 is "the running thread continues"
	FClockLast                  // the last option is "the virtual clock fires its next timer"
	FSelect                     // the choice is among the ready cases of one select
)

// PointRec is one recorded choice point (only points with at least two options are recorded).
type PointRec struct {
	N      uint16
	Chosen uint16
	Flags  uint8
	Sig    uint32 // hash(thread id, op kind, object ordinal) of the thread standing at the point
	State  uint64 // happens-before hash of the global state at the point (see commit)
}

// Chooser returns the option to take at choice point number idx (0 <= result < p.N).
// Returning a negative number aborts the execution with StatusDiverged.
type Chooser func(idx int, p PointRec) int

// Config of one execution.
type Config struct {
	Chooser  Chooser // nil: always option 0 (deterministic default schedule)
	MaxSteps int     // cap on hooked operations (default 200000)
	HotAll   bool    // every package is a preemption candidate
	// NoClockDeviation: never offer "clock fires while a thread is enabled" as an option.
	NoClockDeviation bool
	// ClockDeviationMax bounds how far ahead the next timer may be for "the timer fires while
	// threads are still runnable" to be offered as a deviation (0 = 10ms). A runnable thread
	// can plausibly be delayed by milliseconds, not by the seconds a grace timer or a poll
	// ticker needs; without the bound every long timer could fire at every point.
	ClockDeviationMax time.Duration
	// Local, when non-nil, is the set of object ordinals known to be touched by one thread
	// only (explorer-maintained reduction); operations on them are not preemption candidates.
	Local map[int]bool
	// Trace, when non-nil, receives one line per hooked operation (debugging / replay output).
	Trace func(string)
}

// ThreadInfo describes a thread that was still alive when the execution ended.
type ThreadInfo struct {
	ID      int
	Site    string // where it was spawned
	Blocked string // kind of operation it is parked at
	Enabled bool
}

// Result of one execution.
type Result struct {
	Status   Status
	PanicVal string
	Points   []PointRec
	Steps    int // hooked operations executed (transitions)
	Switches int
	Live     []ThreadInfo // threads alive at the end (blocked or never scheduled)
	EndNanos int64        // virtual time elapsed
	Touch    map[int]int  // object ordinal -> thread id (+1), or -1 when several threads touched it
	Spawned  int
}

type selCase struct {
	ch   reflect.Value
	send bool
}

type op struct {
	kind Kind
	hot  bool
	mu   *MuState
	rw   *RWState
	wg   *WGState
	once *OnceState
	ch   reflect.Value
	sel  []selCase
	def  bool
	obj  uintptr
}

// Thread is a managed goroutine.
type Thread struct {
	id   int
	wake chan struct{}
	pend *op
	opv  op
	done bool
	site string
	h    uint64 // hash of this thread's history (its operations and the object histories they saw)
}

// State is one execution in progress.
type State struct {
	cfg      Config
	det      bool
	epoch    uint32
	threads  []*Thread
	running  *Thread
	nextID   int
	now      int64
	timers   timerHeap
	timerSeq int
	timerCh  map[uintptr]*VTimer
	closed   map[uintptr]bool
	objOrd   map[uintptr]int
	touch    map[int]int
	points   []PointRec
	steps    int
	switches int
	mainDone bool
	finished bool
	status   Status
	panicVal string
	live     []ThreadInfo
	doneCh   chan struct{}
	optbuf   []*Thread
	objH     map[uintptr]uint64 // per-object history hash
	clockH   uint64
	deadH    uint64 // sum of the final history hashes of finished threads
	hbuf     []uint64
}

var cur *State
var epochCounter uint32

// passThroughSpawns counts goroutines started through Go outside an execution.
var passThroughSpawns int

// Base is the instant at which every execution's virtual clock starts.
var Base = time.Date(2030, 1, 1, 0, 0, 0, 0, time.UTC)

// Cur returns the execution in progress, or nil in pass-through mode.
func Cur() *State { return cur }

// Managed reports whether the caller runs inside an execution.
func Managed() bool { return cur != nil }

var clockThread = &Thread{id: -1}

// Run executes body as thread 0 under the scheduler and returns when the execution is over.
func Run(cfg Config, body func()) *Result {
	if cur != nil {
		panic("sched.Run: nested execution")
	}
	if passThroughSpawns > 0 {
		panic("sched.Run: goroutines of the module under test were started outside an execution")
	}
	if cfg.MaxSteps == 0 {
		cfg.MaxSteps = 200000
	}
	epochCounter++
	s := &State{
		cfg:     cfg,
		det:     cfg.Chooser == nil,
		epoch:   epochCounter,
		timerCh: map[uintptr]*VTimer{},
		closed:  map[uintptr]bool{},
		objOrd:  map[uintptr]int{},
		touch:   map[int]int{},
		doneCh:  make(chan struct{}),
		objH:    map[uintptr]uint64{},
	}
	t0 := &Thread{id: 0, wake: make(chan struct{}, 1), site: "main", h: 0x9e3779b97f4a7c15}
	s.nextID = 1
	s.threads = append(s.threads, t0)
	s.running = t0
	cur = s
	go func() {
		defer func() {
			r := recover()
			s.exit(t0, r)
		}()
		body()
	}()
	<-s.doneCh
	cur = nil
	return &Result{
		Status: s.status, PanicVal: s.panicVal, Points: s.points, Steps: s.steps,
		Switches: s.switches, Live: s.live, EndNanos: s.now, Touch: s.touch, Spawned: s.nextID - 1,
	}
}

func (s *State) finish(st Status) {
	if s.finished {
		return
	}
	s.finished = true
	s.status = st
	for _, t := range s.threads {
		if t.done {
			continue
		}
		ti := ThreadInfo{ID: t.id, Site: t.site}
		if t.pend != nil {
			ti.Blocked = t.pend.kind.String()
			ti.Enabled = s.enabled(t.pend)
		} else {
			ti.Blocked = "running"
		}
		s.live = append(s.live, ti)
	}
	close(s.doneCh)
}

func parkForever() {
	select {}
}

func (s *State) exit(t *Thread, r any) {
	if s.finished {
		// The execution is over (cap, deadlock elsewhere); this goroutine just leaves.
		return
	}
	t.done = true
	s.deadH += mix(t.h, 0x7f, 0x7f)
	for i, x := range s.threads {
		if x == t {
			s.threads = append(s.threads[:i], s.threads[i+1:]...)
			break
		}
	}
	if r != nil {
		buf := make([]byte, 4096)
		n := runtime.Stack(buf, false)
		s.panicVal = fmt.Sprintf("%v\n%s", r, buf[:n])
		s.finish(StatusPanic)
		return
	}
	if t.id == 0 {
		s.mainDone = true
	}
	s.running = nil
	s.schedule(nil)
}

// Go starts fn as a new managed thread (or a plain goroutine in pass-through mode).
func Go(fn func()) {
	s := cur
	if s == nil {
		passThroughSpawns++
		go fn()
		return
	}
	t := &Thread{id: s.nextID, wake: make(chan struct{}, 1), site: spawnSite()}
	t.h = mix(s.running.h, 0x5bd1e995, uint64(KStart))
	s.nextID++
	t.opv = op{kind: KStart}
	t.pend = &t.opv
	s.threads = append(s.threads, t)
	go func() {
		<-t.wake
		t.pend = nil
		defer func() {
			r := recover()
			s.exit(t, r)
		}()
		fn()
	}()
	o := s.newOp(KGo)
	s.point(o)
}

func spawnSite() string {
	var pcs [8]uintptr
	n := runtime.Callers(3, pcs[:])
	fr := runtime.CallersFrames(pcs[:n])
	for {
		f, more := fr.Next()
		if !strings.Contains(f.Function, "/verifrt/") {
			fn := f.Function
			if i := strings.LastIndex(fn, "/"); i >= 0 {
				fn = fn[i+1:]
			}
			return fn
		}
		if !more {
			return "?"
		}
	}
}

func (s *State) newOp(k Kind) *op {
	t := s.running
	t.opv = op{kind: k}
	if !s.det {
		t.opv.hot = s.cfg.HotAll || callerHot()
	}
	return &t.opv
}

// ---- hot / quiet classification by call site ----

var pcClass = map[uintptr]uint8{} // 1 = runtime shim frame, 2 = hot, 3 = quiet

var quietPkgs = []string{"functions", "aggregator", "expr", "condition", "rsql", "metrics", "logger", "utils", "types", "schema"}

func classify(pc uintptr) uint8 {
	if c, ok := pcClass[pc]; ok {
		return c
	}
	c := uint8(2)
	if f := runtime.FuncForPC(pc - 1); f != nil {
		name := f.Name()
		const mod = "github.com/rulego/streamsql/"
		switch {
		case strings.HasPrefix(name, mod+"verifrt/"):
			c = 1
		case strings.HasPrefix(name, mod):
			rest := name[len(mod):]
			for _, q := range quietPkgs {
				if strings.HasPrefix(rest, q+".") || strings.HasPrefix(rest, q+"/") {
					c = 3
					break
				}
			}
		}
	}
	pcClass[pc] = c
	return c
}

func callerHot() bool {
	var pcs [12]uintptr
	n := runtime.Callers(3, pcs[:])
	for i := 0; i < n; i++ {
		switch classify(pcs[i]) {
		case 2:
			return true
		case 3:
			return false
		}
	}
	return true
}

// ---- object identity ----

func (s *State) ord(p uintptr) int {
	if p == 0 {
		return 0
	}
	o, ok := s.objOrd[p]
	if !ok {
		o = len(s.objOrd) + 1
		s.objOrd[p] = o
	}
	return o
}

func (s *State) noteTouch(o *op) int {
	ord := s.ord(o.obj)
	if ord == 0 {
		return 0
	}
	me := s.running.id + 1
	if prev, ok := s.touch[ord]; !ok {
		s.touch[ord] = me
	} else if prev != me && prev != -1 {
		s.touch[ord] = -1
	}
	return ord
}

// ---- enabledness ----

func (s *State) chanClosed(rv reflect.Value) bool {
	p := rv.Pointer()
	if s.closed[p] {
		return true
	}
	if rv.Len() != 0 || rv.Type().ChanDir()&reflect.RecvDir == 0 {
		return false
	}
	x, ok := rv.TryRecv()
	if !x.IsValid() {
		return false // open and empty: the receive would block
	}
	if ok {
		panic("sched: value appeared on an empty channel while probing (unmanaged sender?)")
	}
	s.closed[p] = true
	return true
}

func (s *State) recvReady(rv reflect.Value) bool {
	if !rv.IsValid() || rv.IsNil() {
		return false
	}
	return rv.Len() > 0 || s.chanClosed(rv)
}

func (s *State) sendReady(rv reflect.Value) bool {
	if !rv.IsValid() || rv.IsNil() {
		return false
	}
	if rv.Len() < rv.Cap() {
		return true
	}
	return s.chanClosed(rv) // the send then panics, exactly as in Go
}

func (s *State) caseReady(c selCase) bool {
	if c.send {
		return s.sendReady(c.ch)
	}
	return s.recvReady(c.ch)
}

func (s *State) enabled(o *op) bool {
	switch o.kind {
	case KLock:
		if o.mu != nil {
			return !o.mu.get(s.epoch).held
		}
		return true // RWMutex.Lock first phase: acquires or announces
	case KLockAcq:
		r := o.rw.get(s.epoch)
		return !r.writer && r.readers == 0
	case KRLock:
		r := o.rw.get(s.epoch)
		return !r.writer && r.waiting == 0
	case KWGWait:
		return o.wg.get(s.epoch).n == 0
	case KOnce:
		return !o.once.get(s.epoch).busy
	case KSend:
		return s.sendReady(o.ch)
	case KRecv:
		return s.recvReady(o.ch)
	case KSelect:
		if o.def {
			return true
		}
		for _, c := range o.sel {
			if s.caseReady(c) {
				return true
			}
		}
		return false
	case KIdle:
		return true
	}
	return true
}

// waitsOnOneShot: the (disabled) operation would be released by a one-shot virtual timer.
func (s *State) waitsOnOneShot(o *op) bool {
	chk := func(rv reflect.Value) bool {
		if !rv.IsValid() || rv.IsNil() {
			return false
		}
		vt := s.timerCh[rv.Pointer()]
		return vt != nil && vt.active && vt.period == 0
	}
	switch o.kind {
	case KRecv:
		return chk(o.ch)
	case KSelect:
		for _, c := range o.sel {
			if !c.send && chk(c.ch) {
				return true
			}
		}
	}
	return false
}

// options returns the candidates at a point in canonical order: the running thread first when
// it is enabled, then the other enabled threads by ascending id; threads parked in Quiesce
// only when no other thread is enabled; the clock last (as a deviation) or alone.
func (s *State) options(self *Thread) (opts []*Thread, flags uint8) {
	opts = s.optbuf[:0]
	clockWanted := false
	var idle []*Thread
	if self != nil && self.pend != nil && self.pend.kind != KIdle && s.enabled(self.pend) {
		opts = append(opts, self)
		flags |= FRunningEnabled
	}
	for _, t := range s.threads {
		if t.done || t.pend == nil {
			continue
		}
		if t.pend.kind == KIdle {
			idle = append(idle, t)
			continue
		}
		if t == self {
			if flags&FRunningEnabled == 0 && s.waitsOnOneShot(t.pend) {
				clockWanted = true
			}
			continue
		}
		if s.enabled(t.pend) {
			opts = append(opts, t)
		} else if s.waitsOnOneShot(t.pend) {
			clockWanted = true
		}
	}
	if s.mainDone {
		clockWanted = false
	}
	if len(opts) > 0 {
		if clockWanted && !s.det && !s.cfg.NoClockDeviation && s.nextTimerWithin(s.cfg.ClockDeviationMax) {
			opts = append(opts, clockThread)
			flags |= FClockLast
		}
		s.optbuf = opts
		return opts, flags
	}
	if len(idle) > 0 {
		return append(opts, idle...), 0
	}
	if clockWanted {
		return append(opts, clockThread), FClockLast
	}
	return nil, 0
}

func (s *State) sigOf(t *Thread) uint32 {
	if t == nil || t.pend == nil {
		return 0
	}
	return uint32(t.id)<<24 ^ uint32(t.pend.kind)<<16 ^ uint32(s.ord(t.pend.obj))
}

func (s *State) choose(n int, flags uint8, sig uint32) int {
	p := PointRec{N: uint16(n), Flags: flags, Sig: sig}
	if !s.det {
		p.State = s.stateHash(flags)
	}
	idx := 0
	if s.cfg.Chooser != nil {
		idx = s.cfg.Chooser(len(s.points), p)
		if idx < 0 || idx >= n {
			s.points = append(s.points, p)
			s.finish(StatusDiverged)
			parkForever()
		}
	}
	p.Chosen = uint16(idx)
	s.points = append(s.points, p)
	return idx
}

func (s *State) schedule(self *Thread) {
	for {
		opts, flags := s.options(self)
		if len(opts) == 0 {
			if s.mainDone {
				s.finish(StatusOK)
			} else {
				s.finish(StatusDeadlock)
			}
			if self != nil && !self.done {
				parkForever()
			}
			return
		}
		idx := 0
		if len(opts) > 1 {
			idx = s.choose(len(opts), flags, s.sigOf(self))
		}
		pick := opts[idx]
		if pick == clockThread {
			s.tick()
			continue
		}
		if pick == self {
			return
		}
		s.switches++
		s.running = pick
		pick.wake <- struct{}{}
		if self == nil || self.done {
			return
		}
		<-self.wake
		return
	}
}

// point is reached by the running thread before it performs o.
func (s *State) point(o *op) {
	t := s.running
	s.steps++
	if s.steps > s.cfg.MaxSteps {
		s.finish(StatusCapHit)
		parkForever()
	}
	ord := s.noteTouch(o)
	if s.cfg.Trace != nil {
		s.cfg.Trace(fmt.Sprintf("t%d %-7s obj%-3d %s", t.id, o.kind, ord, callerDesc()))
	}
	if s.det || !o.hot || (s.cfg.Local != nil && ord != 0 && s.cfg.Local[ord]) {
		if s.enabled(o) {
			return
		}
	}
	t.pend = o
	s.schedule(t)
	t.pend = nil
	if o.kind != KSelect {
		s.commit(t, o.obj, uint64(o.kind))
	}
}

func mix(a, b, c uint64) uint64 {
	// asymmetric in its arguments: mix(x, x, c) must still depend on x
	h := a*0x9E3779B97F4A7C15 + 0x7F4A7C159E3779B9
	h ^= h >> 32
	h += b * 0xC2B2AE3D27D4EB4F
	h = (h<<27 | h>>37) * 0x165667B19E3779F9
	h ^= c * 0x27D4EB2F165667C5
	h ^= h >> 29
	h *= 0x94D049BB133111EB
	h ^= h >> 32
	return h
}

// commit folds the operation the thread is about to perform into the happens-before hash:
// the thread's history absorbs the history of the object it touches and vice versa. Two
// executions whose per-thread and per-object operation orders agree (the same Mazurkiewicz
// trace) therefore reach the same hashes, whatever the order of independent operations.
func (s *State) commit(t *Thread, obj uintptr, tag uint64) {
	if s.det {
		return
	}
	if obj == 0 {
		t.h = mix(t.h, 0, tag)
		return
	}
	h := mix(t.h, s.objH[obj], tag)
	t.h = h
	s.objH[obj] = h
}

// stateHash combines the histories of all live threads (as a multiset), their pending
// operations, the clock and the identity of the running thread.
func (s *State) stateHash(flags uint8) uint64 {
	hs := s.hbuf[:0]
	for _, t := range s.threads {
		if t.done {
			continue
		}
		x := t.h
		if t.pend != nil {
			x = mix(x, s.objH[t.pend.obj], uint64(t.pend.kind)+77)
		}
		hs = append(hs, x)
	}
	sort.Slice(hs, func(i, j int) bool { return hs[i] < hs[j] })
	s.hbuf = hs
	var r uint64
	if s.running != nil {
		r = s.running.h
	}
	acc := mix(s.clockH, r, uint64(flags))
	acc = mix(acc, s.deadH, 5)
	for _, x := range hs {
		acc = mix(acc, x, 1)
	}
	if s.mainDone {
		acc = mix(acc, 1, 2)
	}
	return acc
}

// Yield is a scheduling point without an operation.
func Yield() {
	if s := cur; s != nil {
		o := s.newOp(KYield)
		o.hot = !s.det
		s.point(o)
	}
}

// Quiesce parks the caller until no other thread is enabled (the clock does not run meanwhile).
func Quiesce() {
	s := cur
	if s == nil {
		panic("sched.Quiesce outside an execution")
	}
	t := s.running
	t.opv = op{kind: KIdle}
	s.steps++
	t.pend = &t.opv
	s.schedule(t)
	t.pend = nil
}

// ThreadID returns the id of the running managed thread (-1 outside an execution).
func ThreadID() int {
	if s := cur; s != nil && s.running != nil {
		return s.running.id
	}
	return -1
}

// LiveThreads lists the managed threads other than the caller that have not finished.
func LiveThreads() []ThreadInfo {
	s := cur
	if s == nil {
		return nil
	}
	var out []ThreadInfo
	for _, t := range s.threads {
		if t.done || t == s.running {
			continue
		}
		ti := ThreadInfo{ID: t.id, Site: t.site}
		if t.pend != nil {
			ti.Blocked = t.pend.kind.String()
			ti.Enabled = s.enabled(t.pend)
		}
		out = append(out, ti)
	}
	sort.Slice(out, func(i, j int) bool { return out[i].ID < out[j].ID })
	return out
}

// ---- mutex / rwmutex / waitgroup / once state (virtual inside executions) ----

type MuState struct {
	epoch uint32
	held  bool
}

func (m *MuState) get(e uint32) *MuState {
	if m.epoch != e {
		*m = MuState{epoch: e}
	}
	return m
}

type RWState struct {
	epoch   uint32
	writer  bool
	readers int
	waiting int
}

func (m *RWState) get(e uint32) *RWState {
	if m.epoch != e {
		*m = RWState{epoch: e}
	}
	return m
}

type WGState struct {
	epoch uint32
	n     int
}

func (m *WGState) get(e uint32) *WGState {
	if m.epoch != e {
		*m = WGState{epoch: e}
	}
	return m
}

type OnceState struct {
	epoch uint32
	busy  bool
	done  bool
}

func (m *OnceState) get(e uint32) *OnceState {
	if m.epoch != e {
		*m = OnceState{epoch: e}
	}
	return m
}

func ptrOf(x any) uintptr { return reflect.ValueOf(x).Pointer() }

func (s *State) MuLock(m *MuState) {
	o := s.newOp(KLock)
	o.mu, o.obj = m, ptrOf(m)
	s.point(o)
	m.get(s.epoch).held = true
}

func (s *State) MuTryLock(m *MuState) bool {
	o := s.newOp(KYield)
	o.obj = ptrOf(m)
	s.point(o)
	st := m.get(s.epoch)
	if st.held {
		return false
	}
	st.held = true
	return true
}

func (s *State) MuUnlock(m *MuState) {
	if unlockPoints {
		o := s.newOp(KYield)
		o.obj = ptrOf(m)
		s.point(o)
	}
	st := m.get(s.epoch)
	if !st.held {
		panic("sync: unlock of unlocked mutex")
	}
	st.held = false
	s.steps++
	s.commit(s.running, ptrOf(m), uint64(KUnlock))
}

func (s *State) RWLock(m *RWState) {
	o := s.newOp(KLock)
	o.rw, o.obj = m, ptrOf(m)
	s.point(o)
	st := m.get(s.epoch)
	if !st.writer && st.readers == 0 {
		st.writer = true
		return
	}
	// contended: announce the waiting writer (blocks new readers), then wait to acquire
	st.waiting++
	t := s.running
	hot := t.opv.hot
	t.opv = op{kind: KLockAcq, rw: m, obj: ptrOf(m), hot: hot}
	s.point(&t.opv)
	st = m.get(s.epoch)
	st.waiting--
	st.writer = true
}

func (s *State) RWUnlock(m *RWState) {
	if unlockPoints {
		o := s.newOp(KYield)
		o.obj = ptrOf(m)
		s.point(o)
	}
	st := m.get(s.epoch)
	if !st.writer {
		panic("sync: Unlock of unlocked RWMutex")
	}
	st.writer = false
	s.steps++
	s.commit(s.running, ptrOf(m), uint64(KUnlock))
}

func (s *State) RWRLock(m *RWState) {
	o := s.newOp(KRLock)
	o.rw, o.obj = m, ptrOf(m)
	s.point(o)
	m.get(s.epoch).readers++
}

func (s *State) RWRUnlock(m *RWState) {
	if unlockPoints {
		o := s.newOp(KYield)
		o.obj = ptrOf(m)
		s.point(o)
	}
	st := m.get(s.epoch)
	if st.readers <= 0 {
		panic("sync: RUnlock of unlocked RWMutex")
	}
	st.readers--
	s.steps++
	s.commit(s.running, ptrOf(m), uint64(KUnlock)+1)
}

func (s *State) RWTryLock(m *RWState) bool {
	o := s.newOp(KYield)
	o.obj = ptrOf(m)
	s.point(o)
	st := m.get(s.epoch)
	if st.writer || st.readers > 0 {
		return false
	}
	st.writer = true
	return true
}

func (s *State) RWTryRLock(m *RWState) bool {
	o := s.newOp(KYield)
	o.obj = ptrOf(m)
	s.point(o)
	st := m.get(s.epoch)
	if st.writer || st.waiting > 0 {
		return false
	}
	st.readers++
	return true
}

func (s *State) WGAdd(m *WGState, d int) {
	o := s.newOp(KWGAdd)
	o.obj = ptrOf(m)
	s.point(o)
	st := m.get(s.epoch)
	st.n += d
	if st.n < 0 {
		panic("sync: negative WaitGroup counter")
	}
}

func (s *State) WGWait(m *WGState) {
	o := s.newOp(KWGWait)
	o.wg, o.obj = m, ptrOf(m)
	s.point(o)
}

// OnceEnter returns true when the caller must run the function and then call OnceLeave.
func (s *State) OnceEnter(m *OnceState) bool {
	st := m.get(s.epoch)
	if st.done {
		return false
	}
	o := s.newOp(KOnce)
	o.once, o.obj = m, ptrOf(m)
	s.point(o)
	st = m.get(s.epoch)
	if st.done {
		return false
	}
	st.busy = true
	return true
}

func (s *State) OnceLeave(m *OnceState) {
	st := m.get(s.epoch)
	st.busy = false
	st.done = true
	s.commit(s.running, ptrOf(m), uint64(KOnce)+1)
}

// Atomic is the scheduling point in front of a sync/atomic operation on p.
func Atomic(p any) {
	if s := cur; s != nil {
		o := s.newOp(KAtomic)
		o.obj = ptrOf(p)
		s.point(o)
	}
}

// ---- channels ----

func (s *State) chanPoint(k Kind, ch any) {
	rv := reflect.ValueOf(ch)
	o := s.newOp(k)
	o.ch = rv
	if rv.IsValid() && !rv.IsNil() {
		o.obj = rv.Pointer()
	}
	s.point(o)
}

// Recv replaces the expression <-ch.
func Recv[T any](ch <-chan T) T {
	if s := cur; s != nil {
		s.chanPoint(KRecv, ch)
	}
	return <-ch
}

// Recv2 replaces v, ok := <-ch.
func Recv2[T any](ch <-chan T) (T, bool) {
	if s := cur; s != nil {
		s.chanPoint(KRecv, ch)
	}
	v, ok := <-ch
	return v, ok
}

// SendPoint is the scheduling point in front of a send statement; the instrumented code
// performs the real send right after it.
func SendPoint(ch any) {
	if s := cur; s != nil {
		rv := reflect.ValueOf(ch)
		if rv.IsValid() && !rv.IsNil() && rv.Cap() == 0 {
			panic("sched: send on an unbuffered channel is not supported by the scheduler")
		}
		s.chanPoint(KSend, ch)
	}
}

// ClosePoint is the scheduling point in front of close(ch).
func ClosePoint(ch any) {
	if s := cur; s != nil {
		s.chanPoint(KClose, ch)
		rv := reflect.ValueOf(ch)
		if rv.IsValid() && !rv.IsNil() {
			s.closed[rv.Pointer()] = true
		}
	}
}

// Case describes one communication clause of a select.
type Case struct {
	Ch   any
	Send bool
}

// Select replaces a select statement: it returns the index of the clause to take (-1 for
// default). The instrumented code performs the communication of that clause right after.
func Select(hasDefault bool, cases ...Case) int {
	s := cur
	if s == nil {
		panic("sched.Select outside an execution (the instrumented module only runs under sched.Run)")
	}
	o := s.newOp(KSelect)
	o.def = hasDefault
	o.sel = make([]selCase, len(cases))
	for i, c := range cases {
		rv := reflect.ValueOf(c.Ch)
		if c.Send && rv.IsValid() && !rv.IsNil() && rv.Cap() == 0 {
			panic("sched: select send on an unbuffered channel is not supported")
		}
		o.sel[i] = selCase{ch: rv, send: c.Send}
		if o.obj == 0 && rv.IsValid() && !rv.IsNil() {
			o.obj = rv.Pointer()
		}
	}
	sel := o.sel
	s.point(o)
	var ready [8]int
	rd := ready[:0]
	for i, c := range sel {
		if s.caseReady(c) {
			rd = append(rd, i)
		}
	}
	t := s.running
	chPtr := func(i int) uintptr {
		if rv := sel[i].ch; rv.IsValid() && !rv.IsNil() {
			return rv.Pointer()
		}
		return 0
	}
	switch len(rd) {
	case 0:
		if !hasDefault {
			panic("sched: select granted with no ready case")
		}
		// a default taken is a read of every channel of the select
		for i := range sel {
			s.commit(t, chPtr(i), uint64(KSelect)+1000)
		}
		return -1
	case 1:
		s.commit(t, chPtr(rd[0]), uint64(KSelect)+uint64(rd[0])*16)
		return rd[0]
	}
	t.pend = &op{kind: KSelect, obj: o.obj}
	idx := s.choose(len(rd), FSelect, s.sigOf(t))
	t.pend = nil
	s.commit(t, chPtr(rd[idx]), uint64(KSelect)+uint64(rd[idx])*16)
	return rd[idx]
}

// ---- virtual clock ----

// VTimer is a virtual timer or ticker.
type VTimer struct {
	C        chan time.Time
	deadline int64
	period   int64
	active   bool
	seq      int
	idx      int
	fn       func()
}

type timerHeap []*VTimer

func (h timerHeap) Len() int { return len(h) }
func (h timerHeap) Less(i, j int) bool {
	if h[i].deadline != h[j].deadline {
		return h[i].deadline < h[j].deadline
	}
	return h[i].seq < h[j].seq
}
func (h timerHeap) Swap(i, j int) { h[i], h[j] = h[j], h[i]; h[i].idx = i; h[j].idx = j }
func (h *timerHeap) Push(x any)   { t := x.(*VTimer); t.idx = len(*h); *h = append(*h, t) }
func (h *timerHeap) Pop() any {
	old := *h
	n := len(old)
	t := old[n-1]
	old[n-1] = nil
	*h = old[:n-1]
	t.idx = -1
	return t
}

// Now returns the virtual time of the execution in progress.
func (s *State) Now() time.Time {
	s.readClock()
	return Base.Add(time.Duration(s.now))
}

// readClock records that the running thread observed the clock (an edge clock -> thread in
// the happens-before hash).
func (s *State) readClock() {
	if !s.det && s.running != nil {
		s.running.h = mix(s.running.h, s.clockH, 9)
	}
}

// Elapsed returns the virtual nanoseconds since the start of the execution.
func (s *State) Elapsed() int64 { return s.now }

func (s *State) NewTimer(d time.Duration, period time.Duration, fn func()) *VTimer {
	if d < 0 {
		d = 0
	}
	s.readClock()
	s.timerSeq++
	t := &VTimer{deadline: s.now + int64(d), period: int64(period), active: true, seq: s.timerSeq, fn: fn}
	if fn == nil {
		t.C = make(chan time.Time, 1)
		s.timerCh[reflect.ValueOf(t.C).Pointer()] = t
	}
	heap.Push(&s.timers, t)
	return t
}

func (s *State) StopTimer(t *VTimer) bool {
	s.readClock()
	was := t.active
	if t.active {
		t.active = false
		if t.idx >= 0 {
			heap.Remove(&s.timers, t.idx)
		}
		if t.C != nil {
			delete(s.timerCh, reflect.ValueOf(t.C).Pointer())
		}
	}
	return was
}

func (s *State) ResetTimer(t *VTimer, d time.Duration) bool {
	was := s.StopTimer(t)
	if d < 0 {
		d = 0
	}
	t.deadline = s.now + int64(d)
	t.active = true
	s.timerSeq++
	t.seq = s.timerSeq
	if t.C != nil {
		s.timerCh[reflect.ValueOf(t.C).Pointer()] = t
	}
	heap.Push(&s.timers, t)
	return was
}

// nextTimerWithin reports whether the earliest timer is due within d of the virtual now.
func (s *State) nextTimerWithin(d time.Duration) bool {
	if len(s.timers) == 0 {
		return false
	}
	if d == 0 {
		d = 10 * time.Millisecond
	}
	return s.timers[0].deadline-s.now <= int64(d)
}

// tick advances the virtual clock to the earliest timer and fires it.
func (s *State) tick() {
	if len(s.timers) == 0 {
		return
	}
	t := heap.Pop(&s.timers).(*VTimer)
	if t.deadline > s.now {
		s.now = t.deadline
	}
	s.steps++
	s.clockH = mix(s.clockH, uint64(t.seq), uint64(s.now))
	if t.C != nil {
		p := reflect.ValueOf(t.C).Pointer()
		s.objH[p] = mix(s.clockH, s.objH[p], 3)
	}
	if t.fn != nil {
		t.active = false
		fn := t.fn
		nt := &Thread{id: s.nextID, wake: make(chan struct{}, 1), site: "time.AfterFunc", h: mix(s.clockH, uint64(t.seq), uint64(KStart))}
		s.nextID++
		nt.opv = op{kind: KStart}
		nt.pend = &nt.opv
		s.threads = append(s.threads, nt)
		go func() {
			<-nt.wake
			nt.pend = nil
			defer func() {
				r := recover()
				s.exit(nt, r)
			}()
			fn()
		}()
		return
	}
	select {
	case t.C <- Base.Add(time.Duration(s.now)):
	default:
	}
	if t.period > 0 {
		t.deadline += t.period
		if t.deadline <= s.now {
			t.deadline = s.now + t.period
		}
		heap.Push(&s.timers, t)
	} else {
		t.active = false
		delete(s.timerCh, reflect.ValueOf(t.C).Pointer())
	}
}

// Sleep blocks the caller for d of virtual time.
func (s *State) Sleep(d time.Duration) {
	if d <= 0 {
		Yield()
		return
	}
	t := s.NewTimer(d, 0, nil)
	s.chanPoint(KRecv, t.C)
	<-t.C
}

// Close replaces close(ch).
func Close[T any](ch chan<- T) {
	ClosePoint(ch)
	close(ch)
}

func callerDesc() string {
	var pcs [12]uintptr
	n := runtime.Callers(3, pcs[:])
	fr := runtime.CallersFrames(pcs[:n])
	for {
		f, more := fr.Next()
		if !strings.Contains(f.Function, "/verifrt/") {
			fn := f.Function
			if i := strings.LastIndex(fn, "/"); i >= 0 {
				fn = fn[i+1:]
			}
			return fmt.Sprintf("%s:%d", fn, f.Line)
		}
		if !more {
			return "?"
		}
	}
}

// Len replaces len(ch) on channels: an observation of shared state, hence a scheduling point;
// the value read is folded into the reader's history hash.
func Len(ch any) int {
	rv := reflect.ValueOf(ch)
	if s := cur; s != nil && rv.Kind() == reflect.Chan && !rv.IsNil() {
		o := s.newOp(KYield)
		o.obj = rv.Pointer()
		s.point(o)
		n := rv.Len()
		s.commit(s.running, 0, uint64(n)+4096)
		return n
	}
	return rv.Len()
}

// Cap replaces cap(ch) on channels (constant per channel: no scheduling point needed).
func Cap(ch any) int {
	return reflect.ValueOf(ch).Cap()
}
