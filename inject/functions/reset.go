//go:build verif

package functions

// VerifResetGlobals drops the process-wide expression bridge (and with it the compiled-program
// and preprocessing caches) so that a harness can compare "evaluated after other rows /
// queries" with "evaluated on a fresh process state". Accessor only: no behaviour change.
func VerifResetGlobals() {
	globalBridgeMutex.Lock()
	globalBridge = nil
	globalBridgeMutex.Unlock()
}
