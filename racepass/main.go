// racepass runs the lifecycle / producer harness bodies of C18, C19 and C20 free-running
// (real goroutines, real time, uninstrumented build of /repo) under the Go race detector.
// Under the cooperative scheduler every hand-off is a happens-before edge, so the detector is
// blind there; this separate pass is the auxiliary evidence for "no race on memory".
// Exit status 66 (GORACE exitcode) or a "DATA RACE" report means a race was observed.
package main

import (
	"fmt"
	"os"
	"strconv"
	"sync"
	"time"

	"github.com/rulego/streamsql"
	"github.com/rulego/streamsql/logger"
	"github.com/rulego/streamsql/types"
)

var queries = map[string]string{
	"direct":        "SELECT id, v + 1 AS e FROM stream WHERE v > 0",
	"analytic":      "SELECT id, lag(v) AS p, acc_sum(v) AS t FROM stream",
	"cep":           "SELECT * FROM stream MATCH_RECOGNIZE (ORDER BY ts MEASURES MATCH_NUMBER() AS mn, LAST(id) AS l ONE ROW PER MATCH PATTERN (A+) DEFINE A AS v > 0)",
	"tumbling-evt":  "SELECT count(*) AS c, collect(id) AS ids FROM stream GROUP BY TumblingWindow('20ms') WITH (TIMESTAMP='ts', TIMEUNIT='ms', ALLOWEDLATENESS='20ms')",
	"tumbling-proc": "SELECT count(*) AS c FROM stream GROUP BY TumblingWindow('5ms')",
	"sliding-evt":   "SELECT count(*) AS c FROM stream GROUP BY SlidingWindow('40ms','20ms') WITH (TIMESTAMP='ts', TIMEUNIT='ms', ALLOWEDLATENESS='20ms')",
	"sliding-proc":  "SELECT count(*) AS c FROM stream GROUP BY SlidingWindow('10ms','5ms')",
	"session-evt":   "SELECT k, count(*) AS c FROM stream GROUP BY k, SessionWindow('20ms') WITH (TIMESTAMP='ts', TIMEUNIT='ms')",
	"session-proc":  "SELECT k, count(*) AS c FROM stream GROUP BY k, SessionWindow('5ms')",
	"counting":      "SELECT k, count(*) AS c FROM stream GROUP BY k, CountingWindow(2)",
	"global":        "SELECT k, count(*) AS c FROM stream GROUP BY k, GLOBAL WINDOW TRIGGER WHEN count(*) >= 2",
	"groupexpr":     "SELECT upper(k) AS uk, count(*) AS c FROM stream GROUP BY upper(k), CountingWindow(2)",
}

func perf(strategy string) types.PerformanceConfig {
	p := types.DefaultPerformanceConfig()
	p.BufferConfig.DataChannelSize = 2
	p.BufferConfig.ResultChannelSize = 2
	p.BufferConfig.WindowOutputSize = 2
	p.BufferConfig.MaxBufferSize = 4
	p.OverflowConfig.Strategy = strategy
	p.OverflowConfig.BlockTimeout = time.Millisecond
	p.OverflowConfig.ExpansionConfig.MinIncrement = 1
	p.OverflowConfig.ExpansionConfig.TriggerThreshold = 0.5
	p.WorkerConfig.SinkPoolSize = 1
	p.WorkerConfig.SinkWorkerCount = 2
	return p
}

func one(kind, strategy string, iter int) {
	s := streamsql.New(streamsql.WithCustomPerformance(perf(strategy)), streamsql.WithLogger(logger.NewDiscardLogger()))
	if err := s.Execute(queries[kind]); err != nil {
		fmt.Println("EXECUTE ERROR", kind, err)
		os.Exit(3)
	}
	var mu sync.Mutex
	seen := 0
	s.AddSyncSink(func(rows []map[string]any) {
		mu.Lock()
		seen += len(rows)
		for _, r := range rows {
			_ = len(r)
		}
		mu.Unlock()
		if iter%3 == 0 {
			s.GetStats()
		}
	})
	var wg sync.WaitGroup
	for p := 0; p < 2; p++ {
		p := p
		wg.Add(1)
		go func() {
			defer wg.Done()
			for i := 0; i < 6; i++ {
				row := map[string]any{"id": p*100 + i, "k": []string{"a", "b"}[i%2], "v": i + 1, "ts": int64(1000 + i*15 - (i%3)*20), "d": map[string]any{"x": i}}
				s.Emit(row)
				_ = row["id"] // the caller keeps reading its own map
			}
		}()
	}
	wg.Add(3)
	go func() {
		defer wg.Done()
		s.AddSink(func(rows []map[string]any) { mu.Lock(); seen += len(rows); mu.Unlock() })
	}()
	go func() { defer wg.Done(); s.GetStats(); s.GetDetailedStats(); s.TriggerWindow() }()
	go func() {
		defer wg.Done()
		if iter%2 == 0 {
			time.Sleep(time.Duration(iter%5) * time.Millisecond)
		}
		s.Stop()
	}()
	if kind == "direct" || kind == "analytic" {
		wg.Add(1)
		go func() { defer wg.Done(); s.EmitSync(map[string]any{"id": 7, "k": "a", "v": 1, "ts": int64(1000)}) }()
	}
	wg.Wait()
	s.Stop()
	s.Emit(map[string]any{"id": 9, "v": 1})
}

func main() {
	iters := 15
	if len(os.Args) > 1 {
		iters, _ = strconv.Atoi(os.Args[1])
	}
	n := 0
	start := time.Now()
	for kind := range queries {
		for _, st := range []string{"drop", "block", "expand"} {
			for i := 0; i < iters; i++ {
				one(kind, st, i)
				n++
			}
		}
	}
	// two instances sharing the process-wide registries and caches (C20)
	var wg sync.WaitGroup
	for g := 0; g < 4; g++ {
		wg.Add(1)
		go func(g int) {
			defer wg.Done()
			for i := 0; i < iters; i++ {
				one([]string{"direct", "analytic", "counting", "groupexpr"}[g], "drop", i)
			}
		}(g)
	}
	wg.Wait()
	fmt.Printf("racepass: %d harness runs in %.1fs, no race reported\n", n+4*iters, time.Since(start).Seconds())
}
