// racepass runs the lifecycle / producer harness bodies of C18, C19 and C20 free-running
// (real goroutines, real time, uninstrumented build of /repo) under the Go race detector.
// Under the cooperative scheduler every hand-off is a happens-before edge, so the detector is
// blind there; this separate pass is the auxiliary evidence for "no race on memory".
// Exit status 66 (GORACE exitcode) or a "DATA RACE" report means a race was observed.
package main

import (
	"runtime"
	"fmt"
	"os"
	"strconv"
	"sync"
	"time"

	"github.com/rulego/streamsql"
	"github.com/rulego/streamsql/logger"
	"github.com/rulego/streamsql/types"
)

var queries = map[string]string{
	"direct":        "SELECT id, v + 1 AS e FROM stream WHERE v > 0",
	"analytic":      "SELECT id, lag(v) AS p, acc_sum(v) AS t FROM stream",
	"analytic-when": "SELECT id, k, lag(v) OVER (PARTITION BY k WHEN v > 3) AS p, acc_count(v, v > 2, v > 5) OVER (PARTITION BY k) AS c, had_changed(true, v) AS h FROM stream WHERE lag(v) OVER (PARTITION BY k) > 0 OR v > 0",
	"cep":           "SELECT * FROM stream MATCH_RECOGNIZE (ORDER BY ts MEASURES MATCH_NUMBER() AS mn, LAST(id) AS l ONE ROW PER MATCH PATTERN (A+) DEFINE A AS v > 0)",
	"tumbling-evt":  "SELECT count(*) AS c, collect(id) AS ids FROM stream GROUP BY TumblingWindow('20ms') WITH (TIMESTAMP='ts', TIMEUNIT='ms', ALLOWEDLATENESS='20ms')",
	"tumbling-proc": "SELECT count(*) AS c FROM stream GROUP BY TumblingWindow('5ms')",
	"sliding-evt":   "SELECT count(*) AS c FROM stream GROUP BY SlidingWindow('40ms','20ms') WITH (TIMESTAMP='ts', TIMEUNIT='ms', ALLOWEDLATENESS='20ms')",
	"sliding-proc":  "SELECT count(*) AS c FROM stream GROUP BY SlidingWindow('10ms','5ms')",
	"session-evt":   "SELECT k, count(*) AS c FROM stream GROUP BY k, SessionWindow('20ms') WITH (TIMESTAMP='ts', TIMEUNIT='ms')",
	"session-proc":  "SELECT k, count(*) AS c FROM stream GROUP BY k, SessionWindow('5ms')",
	"counting":      "SELECT k, count(*) AS c FROM stream GROUP BY k, CountingWindow(2)",
	"global":        "SELECT k, count(*) AS c FROM stream GROUP BY k, GLOBAL WINDOW TRIGGER WHEN count(*) >= 2",
	"groupexpr":     "SELECT upper(k) AS uk, count(*) AS c FROM stream GROUP BY upper(k), CountingWindow(2)",
}

func perf(strategy string) types.PerformanceConfig {
	p := types.DefaultPerformanceConfig()
	p.BufferConfig.DataChannelSize = 2
	p.BufferConfig.ResultChannelSize = 2
	p.BufferConfig.WindowOutputSize = 2
	p.BufferConfig.MaxBufferSize = 4
	p.OverflowConfig.Strategy = strategy
	p.OverflowConfig.BlockTimeout = time.Millisecond
	p.OverflowConfig.ExpansionConfig.MinIncrement = 1
	p.OverflowConfig.ExpansionConfig.TriggerThreshold = 0.5
	p.WorkerConfig.SinkPoolSize = 1
	p.WorkerConfig.SinkWorkerCount = 2
	return p
}

// watchdog: a harness body that does not return within two minutes (they take milliseconds) hangs - a deadlock
// in Stop, a lost wake-up. The limit is 10^4 times the normal duration, so load cannot reach it.
func watchdog(what string, body func()) {
	done := make(chan struct{})
	go func() { body(); close(done) }()
	select {
	case <-done:
	case <-time.After(2 * time.Minute):
		fmt.Println("HANG: harness body did not return within 2m:", what)
		buf := make([]byte, 1<<16)
		n := runtime.Stack(buf, true)
		os.Stdout.Write(buf[:n])
		os.Exit(1)
	}
}

// accounting (C19): 3 free-running producers x 20 rows into a direct query, input buffer of 1..2, result buffer of
// 0..2 with and without a ToChannel reader; once everything is quiescent the rows seen by the sync sink plus
// input_dropped_count must equal the number of Emit calls, no id twice, the block strategy without a timeout
// drops nothing.
func accounting(strategy string, iter int) {
	watchdog(fmt.Sprint("accounting strategy=", strategy, " iter=", iter), func() {
		pc := perf(strategy)
		pc.BufferConfig.DataChannelSize = 1 + iter%2
		pc.BufferConfig.ResultChannelSize = iter % 3
		if strategy == "block" {
			pc.OverflowConfig.BlockTimeout = 0
		}
		s := streamsql.New(streamsql.WithCustomPerformance(pc), streamsql.WithLogger(logger.NewDiscardLogger()))
		if err := s.Execute("SELECT id FROM stream"); err != nil {
			fmt.Println("EXECUTE ERROR accounting", err)
			os.Exit(3)
		}
		var mu sync.Mutex
		seen := map[int]int{}
		s.AddSyncSink(func(rows []map[string]any) {
			mu.Lock()
			for _, r := range rows {
				if id, ok := r["id"].(int); ok {
					seen[id]++
				}
			}
			mu.Unlock()
		})
		if iter%2 == 1 {
			ch := s.ToChannel()
			go func() {
				for range ch {
				}
			}()
		}
		const producers, rows = 3, 20
		var wg sync.WaitGroup
		for p := 0; p < producers; p++ {
			p := p
			wg.Add(1)
			go func() {
				defer wg.Done()
				for i := 0; i < rows; i++ {
					s.Emit(map[string]any{"id": p*1000 + i})
				}
			}()
		}
		wg.Wait()
		count := func() (processed int, dup bool) {
			mu.Lock()
			defer mu.Unlock()
			for _, n := range seen {
				processed++
				if n > 1 {
					dup = true
				}
			}
			return
		}
		dropped := func() int64 { return s.GetStats()["input_dropped_count"] }
		deadline := time.Now().Add(120 * time.Second)
		for {
			n, _ := count()
			if int64(n)+dropped() >= producers*rows || time.Now().After(deadline) {
				break
			}
			time.Sleep(time.Millisecond)
		}
		time.Sleep(5 * time.Millisecond)
		n, dup := count()
		d := dropped()
		s.Stop()
		switch {
		case dup:
			fmt.Println("WRONG RESULT UNDER CONCURRENCY: a row reached the sink twice; strategy", strategy, "iter", iter)
			os.Exit(1)
		case int64(n)+d != producers*rows:
			fmt.Printf("WRONG RESULT UNDER CONCURRENCY: processed %d + input_dropped_count %d != %d emits (strategy %s, input buffer %d, result buffer %d)\n", n, d, producers*rows, strategy, pc.BufferConfig.DataChannelSize, pc.BufferConfig.ResultChannelSize)
			os.Exit(1)
		case strategy == "block" && d != 0:
			fmt.Printf("WRONG RESULT UNDER CONCURRENCY: block without a timeout reports %d input drops\n", d)
			os.Exit(1)
		}
	})
}

func one(kind, strategy string, iter int) {
	watchdog(fmt.Sprint("kind=", kind, " strategy=", strategy, " iter=", iter), func() { oneBody(kind, strategy, iter) })
}

func oneBody(kind, strategy string, iter int) {
	pc := perf(strategy)
	if iter%4 == 3 {
		pc.BufferConfig.DataChannelSize = 0 // the smallest legal input buffer: every Emit overflows unless the processor is waiting
	}
	s := streamsql.New(streamsql.WithCustomPerformance(pc), streamsql.WithLogger(logger.NewDiscardLogger()))
	if err := s.Execute(queries[kind]); err != nil {
		fmt.Println("EXECUTE ERROR", kind, err)
		os.Exit(3)
	}
	var mu sync.Mutex
	seen := 0
	s.AddSyncSink(func(rows []map[string]any) {
		mu.Lock()
		seen += len(rows)
		for _, r := range rows {
			_ = len(r)
		}
		mu.Unlock()
		if iter%3 == 0 {
			s.GetStats()
		}
	})
	var wg sync.WaitGroup
	for p := 0; p < 2; p++ {
		p := p
		wg.Add(1)
		go func() {
			defer wg.Done()
			for i := 0; i < 6; i++ {
				row := map[string]any{"id": p*100 + i, "k": []string{"a", "b"}[i%2], "v": i + 1, "ts": int64(1000 + i*15 - (i%3)*20), "d": map[string]any{"x": i}}
				s.Emit(row)
				_ = row["id"] // the caller keeps reading its own map
			}
		}()
	}
	wg.Add(3)
	go func() {
		defer wg.Done()
		s.AddSink(func(rows []map[string]any) { mu.Lock(); seen += len(rows); mu.Unlock() })
	}()
	go func() { defer wg.Done(); s.GetStats(); s.GetDetailedStats(); s.TriggerWindow() }()
	go func() {
		defer wg.Done()
		if iter%2 == 0 {
			time.Sleep(time.Duration(iter%5) * time.Millisecond)
		}
		t0 := time.Now()
		s.Stop()
		// every sink of this body returns at once: a Stop that comes back only after its 5 s grace period waited
		// for an engine goroutine that never finished (normal duration: milliseconds)
		if d := time.Since(t0); d >= 4900*time.Millisecond {
			fmt.Printf("WRONG RESULT UNDER CONCURRENCY: Stop took %v (its grace period) although no sink blocks; kind %s strategy %s iter %d\n", d, kind, strategy, iter)
			os.Exit(1)
		}
	}()
	if kind == "direct" || kind == "analytic" || kind == "analytic-when" {
		// two more callers on the synchronous path (rows that pass and rows that fail a WHEN gate)
		for c := 0; c < 2; c++ {
			c := c
			wg.Add(1)
			go func() {
				defer wg.Done()
				for i := 0; i < 4; i++ {
					s.EmitSync(map[string]any{"id": 700 + c*10 + i, "k": []string{"a", "b"}[i%2], "v": 1 + (i+c)%6, "ts": int64(1000)})
				}
			}()
		}
	}
	wg.Wait()
	s.Stop()
	s.Emit(map[string]any{"id": 9, "v": 1})
}

// general-path direct queries (no predicate / projection shortcut applies): Emit and EmitSync evaluate the
// same compiled WHERE and SELECT programs on different goroutines (C05: both API paths; C18: concurrent EmitSync).
var directQueries = map[string]string{
	"d-paren":  "SELECT id, v + 1 AS e FROM stream WHERE (v > 0 AND id >= 0) OR k = 'zz'",
	"d-like":   "SELECT id, upper(k) AS u FROM stream WHERE k LIKE 'a%b' OR k LIKE '_'",
	"d-nested": "SELECT id, d.x AS x FROM stream WHERE d.x >= 0 AND v != 4",
	"d-null":   "SELECT * FROM stream WHERE missing IS NULL AND v > 1",
	"d-case":   "SELECT id, CASE WHEN v > 3 THEN 'hi' ELSE 'lo' END AS c FROM stream WHERE abs(v) > 2",
	"d-field":  "SELECT id, k FROM stream WHERE nosuch > 3 OR v >= 2",
}

func directRow(p, i int) map[string]any {
	return map[string]any{"id": p*100 + i, "k": []string{"a", "b", "axb"}[i%3], "v": i + 1, "d": map[string]any{"x": i - 1}}
}

// direct runs 2 Emit producers and 2 EmitSync callers on one instance; every EmitSync result must equal
// the result a fresh instance gives for the same row sequentially, and the sink must see exactly the
// Emit rows that pass.
func direct(kind string, iter int) {
	mk := func() *streamsql.Streamsql {
		s := streamsql.New(streamsql.WithLogger(logger.NewDiscardLogger()))
		if err := s.Execute(directQueries[kind]); err != nil {
			fmt.Println("EXECUTE ERROR", kind, err)
			os.Exit(3)
		}
		return s
	}
	ref := mk()
	want := map[int]string{}
	for p := 0; p < 4; p++ {
		for i := 0; i < 6; i++ {
			r, err := ref.EmitSync(directRow(p, i))
			want[p*100+i] = fmt.Sprint(r, err)
		}
	}
	ref.Stop()
	s := mk()
	var mu sync.Mutex
	got := map[int]string{}
	s.AddSyncSink(func(rows []map[string]any) {
		mu.Lock()
		for _, r := range rows {
			if id, ok := r["id"].(int); ok {
				got[id] = fmt.Sprint(r, nil)
			}
		}
		mu.Unlock()
	})
	var wg sync.WaitGroup
	bad := make(chan string, 64)
	for p := 0; p < 4; p++ {
		p := p
		wg.Add(1)
		go func() {
			defer wg.Done()
			for i := 0; i < 6; i++ {
				if p < 2 {
					s.Emit(directRow(p, i))
					continue
				}
				r, err := s.EmitSync(directRow(p, i))
				if g := fmt.Sprint(r, err); g != want[p*100+i] {
					select {
					case bad <- fmt.Sprintf("%s: EmitSync(%v) = %s, sequentially %s", kind, directRow(p, i), g, want[p*100+i]):
					default:
					}
				}
			}
		}()
	}
	wg.Wait()
	deadline := time.Now().Add(120 * time.Second) // generous: the loop ends as soon as everything arrived; a loaded machine must not turn into an alarm
	for time.Now().Before(deadline) {
		mu.Lock()
		n := 0
		for id := range got {
			if id < 200 {
				n++
			}
		}
		mu.Unlock()
		exp := 0
		for id, w := range want {
			if id < 200 && w != fmt.Sprint(map[string]any(nil), nil) {
				exp++
			}
		}
		if n >= exp {
			break
		}
		time.Sleep(time.Millisecond)
	}
	s.Stop()
	mu.Lock()
	for id, w := range want {
		if id >= 200 {
			continue
		}
		g, ok := got[id]
		if !ok {
			g = fmt.Sprint(map[string]any(nil), nil)
		}
		if g != w {
			select {
			case bad <- fmt.Sprintf("%s: Emit row id=%d delivered %s, sequentially %s", kind, id, g, w):
			default:
			}
		}
	}
	mu.Unlock()
	close(bad)
	fail := false
	for b := range bad {
		fmt.Println("WRONG RESULT UNDER CONCURRENCY:", b)
		fail = true
	}
	if fail {
		os.Exit(1)
	}
}

// joinRace: stream-table JOIN with table updates racing against row processing (C16: "concurrent table
// updates during processing"); every delivered row must carry a location that the table held at some time.
func joinRace(iter int) {
	s := streamsql.New(streamsql.WithLogger(logger.NewDiscardLogger()))
	sql := "SELECT id, m.loc AS loc FROM stream LEFT JOIN meta m ON dev = m.dev"
	if iter%2 == 1 {
		sql = "SELECT s.id AS id, m.loc AS loc FROM stream s JOIN meta m ON s.dev = m.dev AND s.site = m.site"
	}
	if err := s.Execute(sql); err != nil {
		fmt.Println("EXECUTE ERROR join", err)
		os.Exit(3)
	}
	tbl, err := s.RegisterTable("meta", []map[string]any{{"dev": 1, "site": "x", "loc": "L0"}, {"dev": 2, "site": "x", "loc": "L0"}})
	if err != nil {
		fmt.Println("REGISTER ERROR", err)
		os.Exit(3)
	}
	var mu sync.Mutex
	bad := ""
	s.AddSyncSink(func(rows []map[string]any) {
		mu.Lock()
		for _, r := range rows {
			if l, ok := r["loc"].(string); r["loc"] != nil && (!ok || len(l) < 2 || l[0] != 'L') {
				bad = fmt.Sprint("join delivered a location the table never held: ", r)
			}
		}
		mu.Unlock()
	})
	var wg sync.WaitGroup
	wg.Add(4)
	go func() {
		defer wg.Done()
		for i := 0; i < 8; i++ {
			s.Emit(map[string]any{"id": i, "dev": 1 + i%2, "site": "x"})
		}
	}()
	go func() {
		defer wg.Done()
		for i := 0; i < 8; i++ {
			s.EmitSync(map[string]any{"id": 100 + i, "dev": 1 + i%2, "site": "x"})
		}
	}()
	go func() {
		defer wg.Done()
		for i := 1; i <= 6; i++ {
			s.UpsertTable("meta", map[string]any{"dev": 1 + i%2, "site": "x", "loc": fmt.Sprintf("L%d", i)})
		}
	}()
	go func() {
		defer wg.Done()
		for i := 0; i < 3; i++ {
			if iter%2 == 1 {
				tbl.Delete([]any{2, "x"})
			} else {
				tbl.Delete(2)
			}
			s.UpsertTable("meta", map[string]any{"dev": 2, "site": "x", "loc": "Lx"})
		}
	}()
	wg.Wait()
	// concurrent upserts of DIFFERENT keys: once all have returned, every key must lead to its own row
	var wg2 sync.WaitGroup
	for w := 0; w < 6; w++ {
		w := w
		wg2.Add(1)
		go func() {
			defer wg2.Done()
			for j := 0; j < 6; j++ {
				d := 10 + w*6 + j
				s.UpsertTable("meta", map[string]any{"dev": d, "site": "x", "loc": fmt.Sprintf("L-%d", d)})
			}
		}()
	}
	wg2.Wait()
	for d := 10; d < 46; d++ {
		r, err := s.EmitSync(map[string]any{"id": 1000 + d, "dev": d, "site": "x"})
		if err != nil || r == nil || r["loc"] != fmt.Sprintf("L-%d", d) {
			mu.Lock()
			bad = fmt.Sprintf("after concurrent upserts of distinct keys had returned, key %d joins to %v (err %v), want loc L-%d", d, r, err, d)
			mu.Unlock()
			break
		}
	}
	time.Sleep(2 * time.Millisecond)
	s.Stop()
	mu.Lock()
	defer mu.Unlock()
	if bad != "" {
		fmt.Println("WRONG RESULT UNDER CONCURRENCY:", bad)
		os.Exit(1)
	}
}

func main() {
	iters := 15
	if len(os.Args) > 1 {
		iters, _ = strconv.Atoi(os.Args[1])
	}
	prop := ""
	if len(os.Args) > 2 {
		prop = os.Args[2]
	}
	n := 0
	start := time.Now()
	if prop == "C16" || prop == "" {
		for i := 0; i < 4*iters; i++ {
			joinRace(i)
			n++
		}
		if prop == "C16" {
			fmt.Printf("racepass: %d harness runs in %.1fs, no race reported\n", n, time.Since(start).Seconds())
			return
		}
	}
	if prop == "C05" || prop == "C12" || prop == "C18" || prop == "" {
		for kind := range directQueries {
			for i := 0; i < iters; i++ {
				direct(kind, i)
				n++
			}
		}
		if prop == "C05" || prop == "C12" {
			fmt.Printf("racepass: %d harness runs in %.1fs, no race reported\n", n, time.Since(start).Seconds())
			return
		}
	}
	if prop == "C19" || prop == "" {
		for _, st := range []string{"drop", "block", "expand"} {
			for i := 0; i < 2*iters; i++ {
				accounting(st, i)
				n++
			}
		}
	}
	for kind := range queries {
		for _, st := range []string{"drop", "block", "expand"} {
			for i := 0; i < iters; i++ {
				one(kind, st, i)
				n++
			}
		}
	}
	// two instances sharing the process-wide registries and caches (C20)
	var wg sync.WaitGroup
	for g := 0; g < 4; g++ {
		wg.Add(1)
		go func(g int) {
			defer wg.Done()
			for i := 0; i < iters; i++ {
				one([]string{"direct", "analytic", "counting", "groupexpr"}[g], "drop", i)
			}
		}(g)
	}
	wg.Wait()
	fmt.Printf("racepass: %d harness runs in %.1fs, no race reported\n", n+4*iters, time.Since(start).Seconds())
}
